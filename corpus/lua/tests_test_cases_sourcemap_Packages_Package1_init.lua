return require("./value")
