local function generateNumber()
    return math.random(1, 9999)
end

return {
    zero = 0,
    one = 1,
    hex = 0x10,
    binary = 0b1010,
    number1 = generateNumber(),
    number2 = generateNumber(),
    number3 = generateNumber(),
}
