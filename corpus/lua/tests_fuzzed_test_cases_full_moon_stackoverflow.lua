local t

local check = t.intersection(t.instanceIsA("Instance"), t.children({
    a = t.intersection(t.instanceIsA("Instance"), t.children({
        a = t.instanceIsA("Instance"),
    })),
    b = t.intersection(t.instanceIsA("Instance"), t.children({
        a = t.instanceIsA("Instance"),
    })),
    c = t.instanceIsA("Instance"),
    d = t.instanceIsA("Instance"),
    e = t.intersection(t.instanceIsA("Instance"), t.children({
        a = t.intersection(t.instanceIsA("Instance"), t.children({
            a = t.instanceIsA("Instance"),
            b = t.instanceIsA("Instance"),
            c = t.instanceIsA("Instance"),
            d = t.instanceIsA("Instance"),
            e = t.intersection(t.instanceIsA("Instance"), t.children({
                a = t.intersection(t.instanceIsA("Instance"), t.children({
                    a = t.instanceIsA("Instance"),
                    b = t.instanceIsA("Instance"),
                    c = t.intersection(t.instanceIsA("Instance"), t.children({
                        a = t.intersection(t.instanceIsA("Instance"), t.children({
                            a = t.instanceIsA("Instance"),
                            b = t.intersection(t.instanceIsA("Instance"), t.children({
                                a = t.intersection(t.instanceIsA("Instance"), t.children({
                                    a = t.instanceIsA("Instance"),
                                })),
                                b = t.intersection(t.instanceIsA("Instance"), t.children({
                                    a = t.instanceIsA("Instance"),
                                })),
                                c = t.instanceIsA("Instance"),
                                d = t.instanceIsA("Instance"),
                                e = t.intersection(t.instanceIsA("Instance"), t.children({
                                    a = t.intersection(t.instanceIsA("Instance"), t.children({
                                        a = t.instanceIsA("Instance"),
                                        b = t.instanceIsA("Instance"),
                                        c = t.instanceIsA("Instance"),
                                        d = t.instanceIsA("Instance"),
                                        e = t.intersection(t.instanceIsA("Instance"), t.children({
                                            a = t.intersection(t.instanceIsA("Instance"), t.children({
                                                a = t.instanceIsA("Instance"),
                                                b = t.instanceIsA("Instance"),
                                                c = t.intersection(t.instanceIsA("Instance"), t.children({
                                                    a = t.intersection(t.instanceIsA("Instance"), t.children({
                                                        a = t.instanceIsA("Instance"),
                                                    })),
                                                    b = t.intersection(t.instanceIsA("Instance"), t.children({
                                                        a = t.instanceIsA("Instance"),
                                                    })),
                                                    c = t.instanceIsA("Instance"),
                                                    d = t.instanceIsA("Instance"),
                                                    e = t.intersection(t.instanceIsA("Instance"), t.children({
                                                        a = t.intersection(t.instanceIsA("Instance"), t.children({
                                                            a = t.instanceIsA("Instance"),
                                                            b = t.instanceIsA("Instance"),
                                                            c = t.instanceIsA("Instance"),
                                                            d = t.instanceIsA("Instance"),
                                                            e = t.intersection(t.instanceIsA("Instance"), t.children({
                                                                a = t.intersection(t.instanceIsA("Instance"), t.children({
                                                                    a = t.instanceIsA("Instance"),
                                                                    b = t.instanceIsA("Instance"),
                                                                })),
                                                            })),
                                                        })),
                                                    })),
                                                }))
                                            })),
                                        })),
                                    })),
                                })),
                            })),
                        })),
                        b = t.intersection(t.instanceIsA("Instance"), t.children({
                            a = t.instanceIsA("Instance"),
                        })),
                        c = t.instanceIsA("Instance"),
                        d = t.instanceIsA("Instance"),
                        e = t.intersection(t.instanceIsA("Instance"), t.children({
                            a = t.intersection(t.instanceIsA("Instance"), t.children({
                                a = t.instanceIsA("Instance"),
                                b = t.instanceIsA("Instance"),
                                c = t.instanceIsA("Instance"),
                                d = t.instanceIsA("Instance"),
                                e = t.intersection(t.instanceIsA("Instance"), t.children({
                                    a = t.intersection(t.instanceIsA("Instance"), t.children({
                                        a = t.instanceIsA("Instance"),
                                        b = t.instanceIsA("Instance"),
                                    })),
                                })),
                            })),
                        })),
                    })),
                })),
            })),
        })),
    })),
}))
