local function newPrint(...)
    print("a", ...)
end

return newPrint
