return require("@self/value")
