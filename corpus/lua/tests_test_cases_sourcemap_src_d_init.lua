return {
	d1 = require("./d1"),
	d2 = require("./d2"),
}
