(0b10011001001011111110)((...){})

function uYU2V:vnx26UF(FClA2m, NG91)
    for ak8S={}, {}do
        local function X5Gi(HC, eNA) end
    end

    local function Pzc(i, y, Muf, J9xNN, ...) end

    unXK{}

    function Nnugi.b2:ssFjy(RI2C, ZQq2Z, ...) end

    AVU2Pl = jRG
end

ocvU[(false) % (IZZ)][(...)'*}-D'[false]], hcdmT[uJa6].Y, Aj5a'S'[false] = nil, false or {}

repeat
    for BAo4={}, {}, {}do
        continue
    end

    local M79FL, qtFMb

    continue
until function(Yv, IUZl, ...) end

for SUzr in {} do end

if {} then
end

return nil
