var , var2 -- var2
= true  --
    , --[[]]false

 i --[[]] -= 1
do --[[]]
end
function foo -- foo
    . var -- var
    (param1 --[[string]], p2 , ... --[[rest]] ) -- end of parameters
end
function foo:var -- var method
    (param1 --[[string]], p2 , ... --[[rest]] ) -- end of parameters
    return 0x01 --[[first]] - 0b1 -- number
end

for key --[[comment]], value   in pairs( variable ) do continue end

if --[[condition]] "value" then
elseif --[[other condition]] 'value2'  then
else --[[continue]]

    return --done

end

local --[[id]] id
local id2 -- new id
    = .123, function( arg --[[number]] , ... --[[args]]) end

local a --[[a]],  b, c = id + --[[add]] id, nil --[[nothing]]
const --[[id]] constId = 0
const --[[id]] c1, c2 = fn()

local function fn --[[function name]] ( p1, p2 -- p2
    , p3, ... ) end

for i = 10, 1, - 3 do -- comment
    continue --skip
end

repeat --[[nothing]]
    break --!
until --[[condition]] not --[[value]] -value

while --[[true]] true --
do
    return --[[result]] result . new --[[fn name]] ( value . field --
), object[ --[[open]] not key --[[close]] ]
end

object : method --[[call]] ({ key --[[]] = [[true]], [ true --[[key]]] = ( nil ) -- nil
 }, ... --[[forward args]] )

object . --[[get field]] field : method --
{ if --[[condition]]  value   then --[[true]]   ok   else --[[false]]  err, { --[[empty table]] }, --[[trailing comma]] }

local string = `-{ true }-{ object --[[ok]] }={ c + 8 }` -- interpolated string


-- type related nodes

local var: string | number -- string var

local bvar = var :: number

local function fn2<T --[[]], U, R... --[[for variadic ]]>(first: T & U, opts: { [number --[[index type]] ]: string }? --[[opts]], ...: R... ) : ()
    return first :: --[[cast]] T
end

type MyT = {
    true --[[only true values ]]
}

export --[[ this is exported ]] type PublicMyT = (MyT)

type Opt<T> = Module . OtherType --[[extract a type from a module]]

type Try = (... 'a' --[[literal type]] ) -> typeof ( fn() --[[get the return type]] )

type function identity_fn(t): () -- end
    return t
end

export --[=[ exported! ]=]   type function identity_fn--[[type name]]   ( ... )
    return (...)
end

type   function   example_complex_type_function <  T --[[]], U, R... --[[for variadic ]]>(first: T & U, opts: { [number --[[index type]] ]: string }? --[[opts]], ...: R... ) :  ()
    return first
end

format << Obj >> ()
format <   < Obj >  --[[]] > ()
Formatter.format <   < --[[c]] Obj , Item<Obj> >  --[[c]] > ()

local f = format < --[[c]] < Obj >>.containerFormat["test-fn"] <--[[c]] < string >>
