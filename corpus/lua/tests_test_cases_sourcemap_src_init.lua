local b = require("./b")
local c = require("./c")
local d = require("./d")

local Package1 = require("@pkg/Package1")

return {
    b = b,
    c = c,
    d = d,
    Package1 = Package1,
}
