return "c"
