local c = require("../c")

return c .. c
