local function initialize()
end

return initialize
