local initialize = require("./initialize") -- import initialize module

local value = require("./value") -- import value module

local format = require("./format") --[[ import format module ]]

print(format(value.number1 + value.number2))
