local Project = require("./src")
