local a = require("./a")

return a
