repeat
    function P75j.lbVvDb2Q(Bof, oVik) end

    for Z9r in 0b1000001110011110001 do end

    while... do end

    OJlQ6.S *= {}

    local function hcfLMV(pY, Y1VqO, hmrm, tKmKa, ...) end
until 0x2f1c

while if sn4y then false else false do
    local Tc

    local function yPA(yNA, oZaVq8Z, ...) end
end

for HaJx=..., {}, {}do
    if rT then
    end

    wsI ..= {}
end

repeat until Ep

function ETN:KJ4y(sz, rsas7V, ...) end

return nil
