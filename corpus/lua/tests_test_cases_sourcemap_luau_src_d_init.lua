return {
	d1 = require("@self/d1"),
	d2 = require("@self/d2"),
}
