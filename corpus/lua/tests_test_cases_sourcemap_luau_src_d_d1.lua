local Package1 = require("@pkg/Package1")

return Package1 .. Package1
