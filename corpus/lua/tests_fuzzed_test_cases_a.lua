((if 0B101111100101001011
	then if true
		then Nif
		elseif ... then 0B11101001100001001001
		elseif Br3.iO2(
			fE["K5y&"][CZj.RfCn7YJ:YW({})],
			(oeOU()[{ voT = nil }]).kXDz0({}),
			(if 0b11100010011101000110
				then 0.8760701292348819
				elseif not function(...)
					(nil).JM4DBQrjsYz("h1f|0s-D"):NUD3J("Sw,xkRj2RO")
					repeat
					until 0b11011010000111001011
					local function Tu(y, XmfKi, UX5g)
						if {} then
						end
						do
						end
						repeat
						until false
					end
					do
					end
				end then "?2-k"
				else false)
		).B7D then ...
		elseif ((...)):xBO(
			if Ok3
				then ((((nil)(#0b11000010111111001111) and true ^ true)).ktiZ[PGms0[(-if (if false
						then ...
						elseif "P6" then if ...
							then qua
							else ((FDem({})[(((i).YBDd2)[((OIM29
								:Hrr({}).z19OKT({})
								:YBhOrQ({
									[nil] = (-(mPFp.rB
										:QiOtc8({ [aHWr] = pg })
										:ucd({
											MKrxR = true,
											[not not if 0.5137828872110353
												then
													S0aCUp("u9")[SrR({}):fdz(kEmEAuyH).AoW].Ba
													.. ({})("*J"):Xklvp("j")[false].JYpE.mI1x
												else {}] = {},
										})
										:E97JTJ({})("zd")):SVi2I({}):plz("}6C").po6PxF).ccd({}),
								})("6aP")
								:qF(".4")):irZtIg("dQfX")[function(GqL, r8fK, KGI, NhZ, ...) end]["Ru?p"]({}))])()()]({})))({})({})[{}]
						else nil).FyM.sl9G
					then T7
					else "mPR") % F]]:IjrM({}))
				else nil
		).K2 then JTYNqXTe9
		else "fnHA{"
	else ...) <= pBper:RCk({})())[{}]:KQF8G()
local function j057(...) end
continue
