return "c"
