local function format(value)
    return '[' .. tostring(value) .. ']'
end

return format -- comment after returning format function
