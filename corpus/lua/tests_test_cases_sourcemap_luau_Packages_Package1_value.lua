return "Package1"
