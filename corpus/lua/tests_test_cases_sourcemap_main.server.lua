local Project = require("./src")
