return "Package1"
