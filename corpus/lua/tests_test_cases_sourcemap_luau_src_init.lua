local b = require("@self/b")
local c = require("@self/c")
local d = require("@self/d")

local Package1 = require("@pkg/Package1")

return {
    b = b,
    c = c,
    d = d,
    Package1 = Package1,
}
