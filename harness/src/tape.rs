//! Choice tape: every structured generator is a deterministic decoder of a byte tape.
//! Exhausted tape yields 0 for every choice, i.e. the first / simplest alternative.

#[derive(Clone, Debug)]
pub struct Tape<'a> {
    data: &'a [u8],
    pos: usize,
}

impl<'a> Tape<'a> {
    pub fn new(data: &'a [u8]) -> Self {
        Tape { data, pos: 0 }
    }

    pub fn exhausted(&self) -> bool {
        self.pos >= self.data.len()
    }

    pub fn consumed(&self) -> usize {
        self.pos
    }

    pub fn byte(&mut self) -> u8 {
        let b = self.data.get(self.pos).copied().unwrap_or(0);
        if self.pos < self.data.len() {
            self.pos += 1;
        }
        b
    }

    fn u16(&mut self) -> u32 {
        let a = self.byte() as u32;
        let b = self.byte() as u32;
        (a << 8) | b
    }

    /// uniform-ish choice in 0..n (monotone in the tape bytes, so that shrinking bytes
    /// shrinks the choice); n == 0 yields 0
    pub fn choose(&mut self, n: usize) -> usize {
        if n <= 1 {
            return 0;
        }
        if n <= 256 {
            (self.byte() as usize * n) >> 8
        } else {
            let v = self.u16() as usize;
            (v * n.min(65536)) >> 16
        }
    }

    /// index into a weight table; weight 0 entries are never chosen (unless all are 0)
    pub fn weighted(&mut self, weights: &[u32]) -> usize {
        let total: u32 = weights.iter().sum();
        if total == 0 {
            return 0;
        }
        let r = if total <= 256 {
            (self.byte() as u32 * total) >> 8
        } else {
            ((self.u16() as u64 * total as u64) >> 16) as u32
        };
        let mut acc = 0;
        for (i, w) in weights.iter().enumerate() {
            acc += w;
            if r < acc {
                return i;
            }
        }
        weights.len() - 1
    }

    /// true with probability p/256 ; exhausted tape -> false
    pub fn bool(&mut self, p: u32) -> bool {
        if self.exhausted() {
            return false;
        }
        // byte 0 must be "false" so that shrinking goes to false
        let b = self.byte() as u32;
        b >= 256 - p.min(256)
    }

    /// inclusive range
    pub fn int(&mut self, lo: i64, hi: i64) -> i64 {
        if hi <= lo {
            return lo;
        }
        let n = (hi - lo + 1) as usize;
        lo + self.choose(n) as i64
    }

    pub fn pick<'b, T>(&mut self, items: &'b [T]) -> &'b T {
        &items[self.choose(items.len())]
    }

    pub fn bytes(&mut self, n: usize) -> Vec<u8> {
        (0..n).map(|_| self.byte()).collect()
    }
}

/// splitmix64, used to derive per-case seeds: case i of property P = mix(seed, P, i)
pub fn splitmix(mut x: u64) -> u64 {
    x = x.wrapping_add(0x9E3779B97F4A7C15);
    let mut z = x;
    z = (z ^ (z >> 30)).wrapping_mul(0xBF58476D1CE4E5B9);
    z = (z ^ (z >> 27)).wrapping_mul(0x94D049BB133111EB);
    z ^ (z >> 31)
}

pub fn mix(seed: u64, a: u64, b: u64) -> u64 {
    splitmix(splitmix(splitmix(seed) ^ a.wrapping_mul(0xA24BAED4963EE407)) ^ b.wrapping_mul(0x9FB21C651E98DF25))
}

/// a deterministic tape of `len` bytes from a seed (used for the bulk random tiers)
pub fn tape_from_seed(seed: u64, len: usize) -> Vec<u8> {
    let mut out = Vec::with_capacity(len + 8);
    let mut s = seed;
    while out.len() < len {
        s = splitmix(s);
        out.extend_from_slice(&s.to_le_bytes());
    }
    out.truncate(len);
    out
}
