//! Hand-written recursive-descent parser for Lua 5.1 and Luau producing `ast.rs` trees.
//! Independent of darklua / full_moon.
//!
//! Grammar sources: Lua 5.1 reference manual §8 and `lparser.c` behaviour (ambiguous call rule,
//! `return`/`break` last in block, `...` only in vararg functions, `break` only in loops, 200
//! nesting levels); Luau grammar (luau.org/grammar) and the behaviour of the reference Luau parser.

use crate::luasyn::ast::*;
use crate::luasyn::lex::{lex, lex_no_shebang, Comment, TokKind, Token};
use crate::luasyn::literal;
use crate::luasyn::{Mode, SynError};

/// Maximum syntactic nesting (recursion) depth, as in Lua 5.1 (`LUAI_MAXCCALLS`).
pub const MAX_DEPTH: usize = 200;
/// Bound on tree depth that is produced *without* parser recursion: along any root-to-leaf path
/// of the resulting tree, the number of binary-operator edges, call/index/field suffix edges and
/// `T?` edges is at most `MAX_CHAIN` (e.g. `a + a + ... + a` with 1000 operators, or 1000 chained
/// calls).  Together with `MAX_DEPTH` this keeps the tree depth below roughly
/// `MAX_CHAIN + 4 * MAX_DEPTH` for recursive consumers (census, resolver, printer, `Drop`).
pub const MAX_CHAIN: usize = 1000;

/// Depth limit of the first parsing attempt, which runs on the caller's stack.  Only if that
/// limit is hit, the input is parsed again with `MAX_DEPTH` on a dedicated thread with a large
/// stack, so results never depend on the caller's stack size or on the build profile.
const TIER1_DEPTH: usize = if cfg!(debug_assertions) { 24 } else { 100 };
const TIER2_STACK_BYTES: usize = 64 << 20;

#[derive(Clone, Debug)]
pub struct ParseOutput {
    pub block: Block,
    pub tokens: Vec<Token>,
    pub comments: Vec<Comment>,
    /// byte spans `[start, end)` of every maximal piece of type syntax in the source: `: T`
    /// annotations (from the colon), `: R` return annotations, generic parameter lists `<T>` on
    /// functions, the `:: T` of a cast, `<<T>>` instantiations, and whole `type` / `export type` /
    /// `type function` statements.  Sorted, non-overlapping.
    pub type_spans: Vec<(usize, usize)>,
    pub shebang: Option<String>,
    /// Luau mode only: byte offsets of every `(` that starts call arguments on a different line
    /// than the end of the callee (Lua 5.1 mode rejects these; the reference Luau parser reports
    /// "ambiguous syntax" for them too, but here they are parsed as calls).
    pub ambiguous_calls: Vec<usize>,
}

/// Context checks that the reference implementations perform while parsing.  All enabled by
/// default (`parse`); `parse_with_options` can relax them.
#[derive(Clone, Copy, Debug, PartialEq, Eq)]
pub struct ParseOptions {
    /// `break` (both modes) and `continue` (Luau) must be inside a loop of the same function
    pub check_loop_context: bool,
    /// `...` may only be used inside a vararg function (or the main chunk)
    pub check_vararg_context: bool,
}

impl Default for ParseOptions {
    fn default() -> Self {
        ParseOptions { check_loop_context: true, check_vararg_context: true }
    }
}

struct FuncState {
    vararg: bool,
    loop_depth: usize,
}

enum TypeOrPack {
    Type(Type),
    Pack(TypePack),
}

struct Parser {
    mode: Mode,
    opts: ParseOptions,
    toks: Vec<Token>,
    i: usize,
    type_spans: Vec<(usize, usize)>,
    type_depth: usize,
    funcs: Vec<FuncState>,
    depth: usize,
    max_depth: usize,
    hit_depth_limit: bool,
    /// chain height (see `MAX_CHAIN`) of everything parsed since the innermost enclosing chain
    /// site reset it; chain sites save / reset / fold it, everything else leaves it alone, so
    /// composite nodes automatically get the maximum over their children
    c: usize,
    ambiguous_calls: Vec<usize>,
}

type PResult<T> = Result<T, SynError>;

fn compound_op(text: &str) -> Option<BinOp> {
    Some(match text {
        "+=" => BinOp::Add,
        "-=" => BinOp::Sub,
        "*=" => BinOp::Mul,
        "/=" => BinOp::Div,
        "//=" => BinOp::IDiv,
        "%=" => BinOp::Mod,
        "^=" => BinOp::Pow,
        "..=" => BinOp::Concat,
        _ => return None,
    })
}

impl Parser {
    // ------------------------------------------------------------------------- token helpers

    fn luau(&self) -> bool {
        self.mode == Mode::Luau
    }

    fn cur(&self) -> &Token {
        &self.toks[self.i]
    }

    fn peek(&self, n: usize) -> &Token {
        let k = (self.i + n).min(self.toks.len() - 1);
        &self.toks[k]
    }

    fn prev_end(&self) -> usize {
        if self.i == 0 {
            0
        } else {
            self.toks[self.i - 1].end
        }
    }

    fn advance(&mut self) {
        if self.i + 1 < self.toks.len() {
            self.i += 1;
        }
    }

    fn is_sym(t: &Token, s: &str) -> bool {
        t.kind == TokKind::Symbol && t.text == s
    }

    fn is_kw(t: &Token, s: &str) -> bool {
        t.kind == TokKind::Keyword && t.text == s
    }

    fn check_sym(&self, s: &str) -> bool {
        Self::is_sym(self.cur(), s)
    }

    fn check_kw(&self, s: &str) -> bool {
        Self::is_kw(self.cur(), s)
    }

    /// current token is the (contextual) name `s`
    fn check_name(&self, s: &str) -> bool {
        self.cur().kind == TokKind::Name && self.cur().text == s
    }

    fn accept_sym(&mut self, s: &str) -> bool {
        if self.check_sym(s) {
            self.advance();
            true
        } else {
            false
        }
    }

    fn accept_kw(&mut self, s: &str) -> bool {
        if self.check_kw(s) {
            self.advance();
            true
        } else {
            false
        }
    }

    fn describe(t: &Token) -> String {
        match t.kind {
            TokKind::Eof => "<eof>".to_string(),
            _ => {
                let mut s: String = t.text.chars().take(40).collect();
                if s.len() < t.text.len() {
                    s.push_str("...");
                }
                format!("'{}'", s)
            }
        }
    }

    fn err<T>(&self, msg: impl Into<String>) -> PResult<T> {
        let t = self.cur();
        Err(SynError { msg: msg.into(), pos: t.start, line: t.line })
    }

    fn err_expected<T>(&self, what: &str) -> PResult<T> {
        self.err(format!("expected {} near {}", what, Self::describe(self.cur())))
    }

    fn expect_sym(&mut self, s: &str) -> PResult<()> {
        if self.accept_sym(s) {
            Ok(())
        } else {
            self.err_expected(&format!("'{}'", s))
        }
    }

    fn expect_kw(&mut self, s: &str) -> PResult<()> {
        if self.accept_kw(s) {
            Ok(())
        } else {
            self.err_expected(&format!("'{}'", s))
        }
    }

    /// `expect` for a closing keyword/symbol, mentioning the opener like the reference parsers
    fn expect_kw_match(&mut self, what: &str, opener: &str, open_line: u32) -> PResult<()> {
        if self.accept_kw(what) {
            Ok(())
        } else {
            self.err(format!(
                "expected '{}' (to close '{}' at line {}) near {}",
                what,
                opener,
                open_line,
                Self::describe(self.cur())
            ))
        }
    }

    fn expect_name(&mut self, what: &str) -> PResult<String> {
        if self.cur().kind == TokKind::Name {
            let s = self.cur().text.clone();
            self.advance();
            Ok(s)
        } else {
            self.err_expected(what)
        }
    }

    fn enter(&mut self) -> PResult<()> {
        self.depth += 1;
        if self.depth > self.max_depth {
            self.hit_depth_limit = true;
            return self.err(format!("chunk has too many syntax levels (limit {})", MAX_DEPTH));
        }
        Ok(())
    }

    fn leave(&mut self) {
        self.depth -= 1;
    }

    fn check_chain(&self, h: usize) -> PResult<()> {
        if h > MAX_CHAIN {
            return self.err(format!("expression too complex: operator / suffix chains nest deeper than {}", MAX_CHAIN));
        }
        Ok(())
    }

    // ------------------------------------------------------------------------- type spans

    /// Starts a piece of type syntax at byte offset `start`.
    fn span_begin(&mut self, start: usize) -> Option<usize> {
        self.type_depth += 1;
        if self.type_depth == 1 {
            Some(start)
        } else {
            None
        }
    }

    fn span_end(&mut self, token: Option<usize>) {
        self.type_depth -= 1;
        if let Some(start) = token {
            debug_assert_eq!(self.type_depth, 0);
            let end = self.prev_end();
            self.type_spans.push((start, end));
        }
    }

    // ------------------------------------------------------------------------- blocks

    fn block_follow(&self) -> bool {
        let t = self.cur();
        match t.kind {
            TokKind::Eof => true,
            TokKind::Keyword => matches!(t.text.as_str(), "else" | "elseif" | "end" | "until"),
            _ => false,
        }
    }

    fn parse_block(&mut self) -> PResult<Block> {
        let mut stmts = Vec::new();
        while !self.block_follow() {
            if self.check_kw("return") {
                self.advance();
                let mut exprs = Vec::new();
                if !self.block_follow() && !self.check_sym(";") {
                    exprs = self.parse_expr_list()?;
                }
                self.accept_sym(";");
                stmts.push(Stmt::Return(exprs));
                break;
            }
            let stmt = self.parse_stat()?;
            self.accept_sym(";");
            let last = matches!(stmt, Stmt::Break | Stmt::Continue);
            stmts.push(stmt);
            if last {
                break;
            }
        }
        Ok(Block { stmts })
    }

    fn parse_loop_body(&mut self) -> PResult<Block> {
        self.funcs.last_mut().unwrap().loop_depth += 1;
        let b = self.parse_block()?;
        self.funcs.last_mut().unwrap().loop_depth -= 1;
        Ok(b)
    }

    // ------------------------------------------------------------------------- statements

    fn parse_stat(&mut self) -> PResult<Stmt> {
        self.enter()?;
        let r = self.parse_stat_inner()?;
        self.leave();
        Ok(r)
    }

    fn parse_stat_inner(&mut self) -> PResult<Stmt> {
        let t = self.cur();
        let line = t.line;
        if t.kind == TokKind::Keyword {
            match t.text.as_str() {
                "if" => return self.parse_if(),
                "while" => {
                    self.advance();
                    let cond = self.parse_expr()?;
                    self.expect_kw("do")?;
                    let body = self.parse_loop_body()?;
                    self.expect_kw_match("end", "while", line)?;
                    return Ok(Stmt::While { cond, body });
                }
                "do" => {
                    self.advance();
                    let body = self.parse_block()?;
                    self.expect_kw_match("end", "do", line)?;
                    return Ok(Stmt::Do(body));
                }
                "for" => return self.parse_for(),
                "repeat" => {
                    self.advance();
                    let body = self.parse_loop_body()?;
                    self.expect_kw_match("until", "repeat", line)?;
                    let cond = self.parse_expr()?;
                    return Ok(Stmt::Repeat { body, cond });
                }
                "function" => {
                    self.advance();
                    return self.parse_function_stat(Vec::new());
                }
                "local" => {
                    self.advance();
                    return self.parse_local(Vec::new());
                }
                "break" => {
                    if self.opts.check_loop_context && self.funcs.last().unwrap().loop_depth == 0 {
                        return self.err("no loop to break");
                    }
                    self.advance();
                    return Ok(Stmt::Break);
                }
                "return" => unreachable!("handled by parse_block"),
                _ => return self.err_expected("statement"),
            }
        }
        if self.luau() && self.check_sym("@") {
            let attrs = self.parse_attributes()?;
            if self.accept_kw("function") {
                return self.parse_function_stat(attrs);
            }
            if self.accept_kw("local") {
                if !self.check_kw("function") {
                    return self.err_expected("'function' after local declaration with attribute");
                }
                return self.parse_local(attrs);
            }
            return self.err_expected("'function' or 'local function' after attribute");
        }
        self.parse_expr_stat()
    }

    fn parse_if(&mut self) -> PResult<Stmt> {
        let line = self.cur().line;
        self.advance(); // if
        let mut clauses = Vec::new();
        let cond = self.parse_expr()?;
        self.expect_kw("then")?;
        let body = self.parse_block()?;
        clauses.push((cond, body));
        let mut else_ = None;
        loop {
            if self.accept_kw("elseif") {
                let cond = self.parse_expr()?;
                self.expect_kw("then")?;
                let body = self.parse_block()?;
                clauses.push((cond, body));
            } else if self.accept_kw("else") {
                else_ = Some(self.parse_block()?);
                self.expect_kw_match("end", "if", line)?;
                break;
            } else {
                self.expect_kw_match("end", "if", line)?;
                break;
            }
        }
        Ok(Stmt::If { clauses, else_ })
    }

    fn parse_binding(&mut self) -> PResult<Binding> {
        let name = self.expect_name("name")?;
        let ty = self.parse_opt_annotation()?;
        Ok(Binding { name, ty })
    }

    /// optional `: T`
    fn parse_opt_annotation(&mut self) -> PResult<Option<Type>> {
        if self.luau() && self.check_sym(":") {
            let sp = self.span_begin(self.cur().start);
            self.advance();
            let ty = self.parse_type()?;
            self.span_end(sp);
            Ok(Some(ty))
        } else {
            Ok(None)
        }
    }

    fn parse_for(&mut self) -> PResult<Stmt> {
        let line = self.cur().line;
        self.advance(); // for
        let first = self.parse_binding()?;
        if self.accept_sym("=") {
            let start = self.parse_expr()?;
            self.expect_sym(",")?;
            let limit = self.parse_expr()?;
            let step = if self.accept_sym(",") { Some(self.parse_expr()?) } else { None };
            self.expect_kw("do")?;
            let body = self.parse_loop_body()?;
            self.expect_kw_match("end", "for", line)?;
            return Ok(Stmt::NumFor { var: first, start, limit, step, body });
        }
        let mut vars = vec![first];
        while self.accept_sym(",") {
            vars.push(self.parse_binding()?);
        }
        if !self.check_kw("in") {
            return self.err_expected("'=' or 'in'");
        }
        self.advance();
        let exprs = self.parse_expr_list()?;
        self.expect_kw("do")?;
        let body = self.parse_loop_body()?;
        self.expect_kw_match("end", "for", line)?;
        Ok(Stmt::GenFor { vars, exprs, body })
    }

    /// after `function`
    fn parse_function_stat(&mut self, attrs: Vec<Attribute>) -> PResult<Stmt> {
        let base = self.expect_name("function name")?;
        let mut fields = Vec::new();
        let mut method = None;
        loop {
            if self.check_sym(".") {
                self.advance();
                fields.push(self.expect_name("field name")?);
            } else if self.check_sym(":") {
                self.advance();
                method = Some(self.expect_name("method name")?);
                break;
            } else {
                break;
            }
        }
        let func = self.parse_func_body()?;
        Ok(Stmt::Function { attrs, name: FuncName { base, fields, method }, func })
    }

    /// after `local`
    fn parse_local(&mut self, attrs: Vec<Attribute>) -> PResult<Stmt> {
        if self.accept_kw("function") {
            let name = self.expect_name("function name")?;
            let func = self.parse_func_body()?;
            return Ok(Stmt::LocalFunction { attrs, is_const: false, name, func });
        }
        debug_assert!(attrs.is_empty());
        let mut names = vec![self.parse_binding()?];
        while self.accept_sym(",") {
            names.push(self.parse_binding()?);
        }
        let values = if self.accept_sym("=") { self.parse_expr_list()? } else { Vec::new() };
        Ok(Stmt::Local { is_const: false, names, values })
    }

    fn is_assignable(e: &Expr) -> bool {
        matches!(e, Expr::Name(_) | Expr::Index { .. } | Expr::Field { .. })
    }

    fn parse_expr_stat(&mut self) -> PResult<Stmt> {
        let start_tok = self.cur().clone();
        if !(start_tok.kind == TokKind::Name || Self::is_sym(&start_tok, "(")) {
            return self.err_expected("statement");
        }
        let expr = self.parse_primary_expr()?;
        if matches!(expr, Expr::Call { .. } | Expr::MethodCall { .. }) {
            return Ok(Stmt::Call(expr));
        }
        if self.check_sym(",") || self.check_sym("=") {
            let mut targets = vec![expr];
            while self.accept_sym(",") {
                targets.push(self.parse_primary_expr()?);
            }
            for t in &targets {
                if !Self::is_assignable(t) {
                    return self.err("syntax error: cannot assign to this expression");
                }
            }
            self.expect_sym("=")?;
            let values = self.parse_expr_list()?;
            return Ok(Stmt::Assign { targets, values });
        }
        if self.luau() && self.cur().kind == TokKind::Symbol {
            if let Some(op) = compound_op(&self.cur().text) {
                if !Self::is_assignable(&expr) {
                    return self.err("syntax error: cannot assign to this expression");
                }
                self.advance();
                let value = self.parse_expr()?;
                return Ok(Stmt::CompoundAssign { target: expr, op, value });
            }
        }
        if self.luau() {
            if let Expr::Name(n) = &expr {
                match n.as_str() {
                    "type" => return self.parse_type_alias(false, start_tok.start),
                    "export" if self.check_name("type") => {
                        self.advance();
                        return self.parse_type_alias(true, start_tok.start);
                    }
                    "continue" => {
                        if self.opts.check_loop_context && self.funcs.last().unwrap().loop_depth == 0 {
                            return Err(SynError {
                                msg: "continue statement must be inside a loop".to_string(),
                                pos: start_tok.start,
                                line: start_tok.line,
                            });
                        }
                        return Ok(Stmt::Continue);
                    }
                    "const" if self.cur().kind == TokKind::Name => {
                        let mut names = vec![self.parse_binding()?];
                        while self.accept_sym(",") {
                            names.push(self.parse_binding()?);
                        }
                        if !self.accept_sym("=") {
                            return self.err_expected("'=' (const declarations must be initialized)");
                        }
                        let values = self.parse_expr_list()?;
                        return Ok(Stmt::Local { is_const: true, names, values });
                    }
                    "const" if self.check_kw("function") => {
                        self.advance();
                        let name = self.expect_name("function name")?;
                        let func = self.parse_func_body()?;
                        return Ok(Stmt::LocalFunction { attrs: Vec::new(), is_const: true, name, func });
                    }
                    _ => {}
                }
            }
        }
        self.err(format!(
            "incomplete statement: expected assignment or a function call near {}",
            Self::describe(self.cur())
        ))
    }

    /// after the contextual `type` (and `export`); `start` = byte offset of the statement
    fn parse_type_alias(&mut self, export: bool, start: usize) -> PResult<Stmt> {
        let sp = self.span_begin(start);
        if self.accept_kw("function") {
            let name = self.expect_name("type function name")?;
            let func = self.parse_func_body()?;
            self.span_end(sp);
            return Ok(Stmt::TypeFunction { export, name, func });
        }
        let name = self.expect_name("type name")?;
        let generics = if self.check_sym("<") { Some(self.parse_generics_with_defaults()?) } else { None };
        self.expect_sym("=")?;
        let ty = self.parse_type()?;
        self.span_end(sp);
        Ok(Stmt::TypeDecl { export, name, generics, ty })
    }

    // ------------------------------------------------------------------------- attributes

    fn parse_attributes(&mut self) -> PResult<Vec<Attribute>> {
        let mut attrs = Vec::new();
        while self.check_sym("@") {
            let at_end = self.cur().end;
            self.advance();
            if self.cur().start != at_end {
                return self.err("attribute name must follow '@' immediately");
            }
            if self.cur().kind == TokKind::Name {
                attrs.push(Attribute::Name(self.cur().text.clone()));
                self.advance();
            } else if self.accept_sym("[") {
                let mut elems = Vec::new();
                loop {
                    let name = self.expect_name("attribute name")?;
                    let args = if self.accept_sym("(") {
                        let mut v = Vec::new();
                        if !self.check_sym(")") {
                            v = self.parse_expr_list()?;
                        }
                        self.expect_sym(")")?;
                        Some(AttributeArgs::Tuple(v))
                    } else if self.cur().kind == TokKind::Str {
                        let (_, value) = self.parse_string_token()?;
                        Some(AttributeArgs::Str(value))
                    } else if self.check_sym("{") {
                        Some(AttributeArgs::Table(self.parse_table()?))
                    } else {
                        None
                    };
                    elems.push(AttributeElement { name, args });
                    if !self.accept_sym(",") {
                        break;
                    }
                }
                self.expect_sym("]")?;
                attrs.push(Attribute::Group(elems));
            } else {
                return self.err_expected("attribute name or '[' after '@'");
            }
        }
        Ok(attrs)
    }

    // ------------------------------------------------------------------------- functions

    /// generics, parameters, return annotation, body, `end`
    fn parse_func_body(&mut self) -> PResult<FuncBody> {
        let line = self.cur().line;
        let generics = if self.luau() && self.check_sym("<") {
            let sp = self.span_begin(self.cur().start);
            let g = self.parse_generics_with_defaults_opt(false)?;
            self.span_end(sp);
            Some(Generics {
                types: g.types.into_iter().map(|(n, _)| n).collect(),
                packs: g.packs.into_iter().map(|(n, _)| n).collect(),
            })
        } else {
            None
        };
        self.expect_sym("(")?;
        let mut params = Vec::new();
        let mut vararg = false;
        let mut vararg_ty = None;
        if !self.check_sym(")") {
            loop {
                if self.check_sym("...") {
                    self.advance();
                    vararg = true;
                    if self.luau() && self.check_sym(":") {
                        let sp = self.span_begin(self.cur().start);
                        self.advance();
                        let ann = if self.cur().kind == TokKind::Name && Self::is_sym(self.peek(1), "...") {
                            let n = self.cur().text.clone();
                            self.advance();
                            self.advance();
                            VariadicAnnotation::GenericPack(n)
                        } else {
                            VariadicAnnotation::Type(self.parse_type()?)
                        };
                        self.span_end(sp);
                        vararg_ty = Some(Box::new(ann));
                    }
                    break;
                }
                params.push(self.parse_binding()?);
                if !self.accept_sym(",") {
                    break;
                }
            }
        }
        self.expect_sym(")")?;
        let ret_ty = if self.luau() && self.check_sym(":") {
            let sp = self.span_begin(self.cur().start);
            self.advance();
            let r = self.parse_return_type()?;
            self.span_end(sp);
            Some(Box::new(r))
        } else {
            None
        };
        self.funcs.push(FuncState { vararg, loop_depth: 0 });
        let body = self.parse_block()?;
        self.funcs.pop();
        self.expect_kw_match("end", "function", line)?;
        Ok(FuncBody { generics, params, vararg, vararg_ty, ret_ty, body })
    }

    // ------------------------------------------------------------------------- expressions

    fn parse_expr_list(&mut self) -> PResult<Vec<Expr>> {
        let mut v = vec![self.parse_expr()?];
        while self.accept_sym(",") {
            v.push(self.parse_expr()?);
        }
        Ok(v)
    }

    fn parse_expr(&mut self) -> PResult<Expr> {
        self.parse_subexpr(0)
    }

    fn cur_unop(&self) -> Option<UnOp> {
        let t = self.cur();
        match t.kind {
            TokKind::Keyword if t.text == "not" => Some(UnOp::Not),
            TokKind::Symbol if t.text == "-" => Some(UnOp::Neg),
            TokKind::Symbol if t.text == "#" => Some(UnOp::Len),
            _ => None,
        }
    }

    fn cur_binop(&self) -> Option<BinOp> {
        let t = self.cur();
        match t.kind {
            TokKind::Keyword => match t.text.as_str() {
                "and" => Some(BinOp::And),
                "or" => Some(BinOp::Or),
                _ => None,
            },
            TokKind::Symbol => Some(match t.text.as_str() {
                "+" => BinOp::Add,
                "-" => BinOp::Sub,
                "*" => BinOp::Mul,
                "/" => BinOp::Div,
                "//" => BinOp::IDiv,
                "%" => BinOp::Mod,
                "^" => BinOp::Pow,
                ".." => BinOp::Concat,
                "==" => BinOp::Eq,
                "~=" => BinOp::Ne,
                "<" => BinOp::Lt,
                "<=" => BinOp::Le,
                ">" => BinOp::Gt,
                ">=" => BinOp::Ge,
                _ => return None,
            }),
            _ => None,
        }
    }

    fn parse_subexpr(&mut self, limit: u8) -> PResult<Expr> {
        self.enter()?;
        let saved_c = self.c;
        self.c = 0;
        let mut left = if let Some(op) = self.cur_unop() {
            self.advance();
            let operand = self.parse_subexpr(UNARY_PRIORITY)?;
            Expr::Unary(op, Box::new(operand))
        } else {
            self.parse_assertion_expr()?
        };
        let mut h = self.c;
        while let Some(op) = self.cur_binop() {
            let (l, r) = op.binding_power();
            if l <= limit {
                break;
            }
            if op == BinOp::Concat {
                // `a .. b .. c ..` is right associative; the reference parsers recurse once per
                // operator (Lua 5.1 gives up after 200).  Collect the operands iteratively instead
                // and fold to the right, so long concatenations do not count as nesting levels.
                // An operand is parsed with a limit that stops at the next `..`.
                let mut operands = vec![left];
                // operand i sits i + 1 edges below the top of the folded tree, the last one i edges
                let mut inner = h + 1; // max of (chain height + depth) over the non-last operands
                let mut last_c: Option<usize> = None;
                while self.cur_binop() == Some(BinOp::Concat) {
                    self.advance();
                    self.c = 0;
                    let operand = self.parse_subexpr(l)?;
                    let k = operands.len();
                    if let Some(pc) = last_c {
                        inner = inner.max(pc + k); // the previous operand (index k - 1) is not last
                    }
                    last_c = Some(self.c);
                    self.check_chain(inner.max(self.c + k))?;
                    operands.push(operand);
                }
                let n = operands.len() - 1;
                debug_assert!(n >= 1);
                h = inner.max(last_c.unwrap() + n);
                let mut acc = operands.pop().unwrap();
                while let Some(prev) = operands.pop() {
                    acc = Expr::Binary(BinOp::Concat, Box::new(prev), Box::new(acc));
                }
                left = acc;
                continue;
            }
            self.advance();
            self.c = 0;
            let right = self.parse_subexpr(r)?;
            h = h.max(self.c) + 1;
            self.check_chain(h)?;
            left = Expr::Binary(op, Box::new(left), Box::new(right));
        }
        self.c = saved_c.max(h);
        self.leave();
        Ok(left)
    }

    /// simple expression with an optional `:: T`
    fn parse_assertion_expr(&mut self) -> PResult<Expr> {
        let e = self.parse_simple_expr()?;
        if self.luau() && self.check_sym("::") {
            let sp = self.span_begin(self.cur().start);
            self.advance();
            let ty = self.parse_type()?;
            self.span_end(sp);
            return Ok(Expr::Cast { expr: Box::new(e), ty: Box::new(ty) });
        }
        Ok(e)
    }

    /// consumes a `Str` token, returning (raw, decoded)
    fn parse_string_token(&mut self) -> PResult<(String, Vec<u8>)> {
        debug_assert_eq!(self.cur().kind, TokKind::Str);
        let raw = self.cur().text.clone();
        if self.mode == Mode::Lua51 && literal::uses_luau_only_escape(&raw) {
            return self.err("string uses an escape sequence (\\x, \\z, \\u) that Lua 5.1 does not have");
        }
        let value = match literal::decode_string(&raw, self.mode) {
            Ok(v) => v,
            Err(m) => return self.err(format!("malformed string: {}", m)),
        };
        self.advance();
        Ok((raw, value))
    }

    fn parse_simple_expr(&mut self) -> PResult<Expr> {
        let t = self.cur();
        match t.kind {
            TokKind::Number => {
                let raw = t.text.clone();
                let value = match literal::decode_number(&raw, self.mode) {
                    Ok(v) => v,
                    Err(m) => return self.err(m),
                };
                self.advance();
                Ok(Expr::Number { raw, value })
            }
            TokKind::Str => {
                let (raw, value) = self.parse_string_token()?;
                Ok(Expr::Str { raw, value })
            }
            TokKind::InterpSimple | TokKind::InterpBegin => self.parse_interp(),
            TokKind::InterpMid | TokKind::InterpEnd => self.err_expected("expression"),
            TokKind::Keyword => match t.text.as_str() {
                "nil" => {
                    self.advance();
                    Ok(Expr::Nil)
                }
                "true" => {
                    self.advance();
                    Ok(Expr::True)
                }
                "false" => {
                    self.advance();
                    Ok(Expr::False)
                }
                "function" => {
                    self.advance();
                    let func = self.parse_func_body()?;
                    Ok(Expr::Function { attrs: Vec::new(), func: Box::new(func) })
                }
                "if" if self.luau() => self.parse_if_expr(),
                _ => self.err_expected("expression"),
            },
            TokKind::Symbol => match t.text.as_str() {
                "..." => {
                    if self.opts.check_vararg_context && !self.funcs.last().unwrap().vararg {
                        return self.err("cannot use '...' outside a vararg function");
                    }
                    self.advance();
                    Ok(Expr::Vararg)
                }
                "{" => self.parse_table(),
                "@" if self.luau() => {
                    let attrs = self.parse_attributes()?;
                    if !self.accept_kw("function") {
                        return self.err_expected("'function' after attribute");
                    }
                    let func = self.parse_func_body()?;
                    Ok(Expr::Function { attrs, func: Box::new(func) })
                }
                "(" => self.parse_primary_expr(),
                _ => self.err_expected("expression"),
            },
            TokKind::Name => self.parse_primary_expr(),
            TokKind::Eof => self.err_expected("expression"),
        }
    }

    fn parse_interp(&mut self) -> PResult<Expr> {
        let mut segs = Vec::new();
        let push_piece = |p: &Parser, segs: &mut Vec<InterpSeg>, text: &str| -> PResult<()> {
            let inner = &text[1..text.len() - 1];
            match literal::decode_interp_segment(inner) {
                Ok(v) => {
                    if !v.is_empty() {
                        segs.push(InterpSeg::Str(v));
                    }
                    Ok(())
                }
                Err(m) => p.err(format!("malformed interpolated string: {}", m)),
            }
        };
        let t = self.cur().clone();
        push_piece(self, &mut segs, &t.text)?;
        self.advance();
        if t.kind == TokKind::InterpSimple {
            return Ok(Expr::Interp(segs));
        }
        loop {
            if matches!(self.cur().kind, TokKind::InterpMid | TokKind::InterpEnd) {
                return self.err("malformed interpolated string: expected expression inside '{}'");
            }
            let e = self.parse_expr()?;
            segs.push(InterpSeg::Expr(e));
            let t = self.cur().clone();
            match t.kind {
                TokKind::InterpMid => {
                    push_piece(self, &mut segs, &t.text)?;
                    self.advance();
                }
                TokKind::InterpEnd => {
                    push_piece(self, &mut segs, &t.text)?;
                    self.advance();
                    return Ok(Expr::Interp(segs));
                }
                _ => return self.err_expected("'}' to close the interpolated expression"),
            }
        }
    }

    fn parse_if_expr(&mut self) -> PResult<Expr> {
        self.advance(); // if
        let mut clauses = Vec::new();
        let cond = self.parse_expr()?;
        self.expect_kw("then")?;
        let value = self.parse_expr()?;
        clauses.push((cond, value));
        loop {
            if self.accept_kw("elseif") {
                let cond = self.parse_expr()?;
                self.expect_kw("then")?;
                let value = self.parse_expr()?;
                clauses.push((cond, value));
            } else {
                self.expect_kw("else")?;
                let else_ = self.parse_expr()?;
                return Ok(Expr::IfExpr { clauses, else_: Box::new(else_) });
            }
        }
    }

    fn parse_table(&mut self) -> PResult<Expr> {
        let line = self.cur().line;
        self.expect_sym("{")?;
        let mut items = Vec::new();
        while !self.check_sym("}") {
            if self.check_sym("[") {
                self.advance();
                let k = self.parse_expr()?;
                self.expect_sym("]")?;
                self.expect_sym("=")?;
                let v = self.parse_expr()?;
                items.push(TableItem::Keyed(k, v));
            } else if self.cur().kind == TokKind::Name && Self::is_sym(self.peek(1), "=") {
                let name = self.cur().text.clone();
                self.advance();
                self.advance();
                let v = self.parse_expr()?;
                items.push(TableItem::Named(name, v));
            } else {
                items.push(TableItem::Pos(self.parse_expr()?));
            }
            if !(self.accept_sym(",") || self.accept_sym(";")) {
                break;
            }
        }
        if !self.accept_sym("}") {
            return self.err(format!(
                "expected '}}' (to close '{{' at line {}) near {}",
                line,
                Self::describe(self.cur())
            ));
        }
        Ok(Expr::Table(items))
    }

    /// prefix expression with its suffixes: `Name | (expr)` then `.n`, `[e]`, `:n args`, args
    fn parse_primary_expr(&mut self) -> PResult<Expr> {
        let saved_c = self.c;
        self.c = 0;
        let mut e = if self.cur().kind == TokKind::Name {
            let n = self.cur().text.clone();
            self.advance();
            Expr::Name(n)
        } else if self.check_sym("(") {
            let line = self.cur().line;
            self.advance();
            let inner = self.parse_expr()?;
            if !self.accept_sym(")") {
                return self.err(format!(
                    "expected ')' (to close '(' at line {}) near {}",
                    line,
                    Self::describe(self.cur())
                ));
            }
            Expr::Paren(Box::new(inner))
        } else {
            return self.err_expected("expression");
        };
        let mut h = self.c;
        loop {
            self.c = 0;
            let t = self.cur();
            match t.kind {
                TokKind::Symbol => match t.text.as_str() {
                    "." => {
                        self.advance();
                        let name = self.expect_name("field name")?;
                        e = Expr::Field { obj: Box::new(e), name };
                    }
                    "[" => {
                        self.advance();
                        let key = self.parse_expr()?;
                        self.expect_sym("]")?;
                        e = Expr::Index { obj: Box::new(e), key: Box::new(key) };
                    }
                    ":" => {
                        self.advance();
                        let name = self.expect_name("method name")?;
                        let mut types = None;
                        if self.luau() && self.at_instantiation() {
                            let sp = self.span_begin(self.cur().start);
                            self.advance();
                            self.advance();
                            let list = self.parse_type_args_until_close()?;
                            if !(self.check_sym(">") && Self::is_sym(self.peek(1), ">")) {
                                return self.err_expected("'>>' to close the type instantiation");
                            }
                            self.advance();
                            self.advance();
                            self.span_end(sp);
                            types = Some(list);
                        }
                        let (args, sugar) = self.parse_call_args()?;
                        e = Expr::MethodCall { obj: Box::new(e), name, types, args, sugar };
                    }
                    "(" | "{" => {
                        let (args, sugar) = self.parse_call_args()?;
                        e = Expr::Call { f: Box::new(e), args, sugar };
                    }
                    "<" if self.luau() && self.at_instantiation() => {
                        let sp = self.span_begin(self.cur().start);
                        self.advance();
                        self.advance();
                        let types = self.parse_type_args_until_close()?;
                        // `>` `>` (like `<` `<`, not necessarily adjacent: trivia may separate them)
                        if !(self.check_sym(">") && Self::is_sym(self.peek(1), ">")) {
                            return self.err_expected("'>>' to close the type instantiation");
                        }
                        self.advance();
                        self.advance();
                        self.span_end(sp);
                        e = Expr::Instantiate { expr: Box::new(e), types };
                    }
                    _ => break,
                },
                TokKind::Str => {
                    let (args, sugar) = self.parse_call_args()?;
                    e = Expr::Call { f: Box::new(e), args, sugar };
                }
                _ => break,
            }
            h = h.max(self.c) + 1;
            self.check_chain(h)?;
        }
        self.c = saved_c.max(h);
        Ok(e)
    }

    /// current token is `<` followed by another `<` (whitespace / comments may separate them:
    /// `f < < T > > ()` is accepted, as `< <` can never occur in an expression otherwise)
    fn at_instantiation(&self) -> bool {
        self.check_sym("<") && Self::is_sym(self.peek(1), "<")
    }

    fn parse_call_args(&mut self) -> PResult<(Vec<Expr>, CallSugar)> {
        let t = self.cur();
        if t.kind == TokKind::Str {
            let (raw, value) = self.parse_string_token()?;
            return Ok((vec![Expr::Str { raw, value }], CallSugar::Str));
        }
        if Self::is_sym(t, "{") {
            let tbl = self.parse_table()?;
            return Ok((vec![tbl], CallSugar::Table));
        }
        if Self::is_sym(t, "(") {
            let (line, start) = (t.line, t.start);
            if self.i > 0 && self.toks[self.i - 1].end_line != line {
                match self.mode {
                    Mode::Lua51 => {
                        return self.err("ambiguous syntax (function call x new statement)");
                    }
                    Mode::Luau => self.ambiguous_calls.push(start),
                }
            }
            self.advance();
            let mut args = Vec::new();
            if !self.check_sym(")") {
                args = self.parse_expr_list()?;
            }
            if !self.accept_sym(")") {
                return self.err(format!(
                    "expected ')' (to close '(' at line {}) near {}",
                    line,
                    Self::describe(self.cur())
                ));
            }
            return Ok((args, CallSugar::Parens));
        }
        self.err_expected("function arguments")
    }

    // ------------------------------------------------------------------------- types

    /// `...` or `Name ...` ahead
    fn at_type_pack(&self) -> bool {
        self.check_sym("...") || (self.cur().kind == TokKind::Name && Self::is_sym(self.peek(1), "..."))
    }

    /// `...T` or `Name...`
    fn parse_pack_tail(&mut self) -> PResult<VariadicAnnotationPack> {
        if self.accept_sym("...") {
            Ok(VariadicAnnotationPack::Variadic(self.parse_type()?))
        } else {
            let n = self.expect_name("generic pack name")?;
            self.expect_sym("...")?;
            Ok(VariadicAnnotationPack::GenericPack(n))
        }
    }

    fn type_follow(&self) -> bool {
        self.check_sym("|") || self.check_sym("&") || self.check_sym("?")
    }

    /// Callers that start a piece of type syntax wrap this in `span_begin` / `span_end`.
    fn parse_type(&mut self) -> PResult<Type> {
        debug_assert!(self.type_depth > 0);
        self.enter()?;
        let r = if self.check_sym("|") || self.check_sym("&") {
            let inter = self.check_sym("&");
            self.advance();
            let first = self.parse_simple_type_only()?;
            self.parse_type_suffix(first, Some(inter))?
        } else {
            let first = self.parse_simple_type_only()?;
            self.parse_type_suffix(first, None)?
        };
        self.leave();
        Ok(r)
    }

    fn parse_simple_type_only(&mut self) -> PResult<Type> {
        match self.parse_simple_type(false)? {
            TypeOrPack::Type(t) => Ok(t),
            TypeOrPack::Pack(_) => self.err("type pack is not allowed in this context"),
        }
    }

    /// `first (| T)* `, `first (& T)*`, postfix `?`; `leading` = Some(is_intersection)
    fn parse_type_suffix(&mut self, first: Type, leading: Option<bool>) -> PResult<Type> {
        let mut parts = vec![first];
        let mut is_union = leading == Some(false);
        let mut is_inter = leading == Some(true);
        // conservative: start from the chain height of everything parsed so far at this site
        let mut h = self.c;
        loop {
            if self.check_sym("|") {
                is_union = true;
                if is_inter {
                    break;
                }
                self.advance();
                parts.push(self.parse_simple_type_only()?);
            } else if self.check_sym("&") {
                is_inter = true;
                if is_union {
                    break;
                }
                self.advance();
                parts.push(self.parse_simple_type_only()?);
            } else if self.check_sym("?") {
                is_union = true;
                if is_inter {
                    break;
                }
                h += 1;
                self.check_chain(h)?;
                self.c = self.c.max(h);
                self.advance();
                let last = parts.pop().unwrap();
                parts.push(Type::Optional(Box::new(last)));
            } else {
                break;
            }
        }
        if is_union && is_inter {
            return self.err("mixing union and intersection types is not allowed; consider wrapping in parentheses");
        }
        if parts.len() == 1 && leading.is_none() {
            return Ok(parts.pop().unwrap());
        }
        if is_inter {
            Ok(Type::Intersection { leading: leading.is_some(), types: parts })
        } else {
            Ok(Type::Union { leading: leading.is_some(), types: parts })
        }
    }

    fn parse_simple_type(&mut self, allow_pack: bool) -> PResult<TypeOrPack> {
        self.enter()?;
        let r = self.parse_simple_type_inner(allow_pack)?;
        self.leave();
        Ok(r)
    }

    fn parse_simple_type_inner(&mut self, allow_pack: bool) -> PResult<TypeOrPack> {
        let t = self.cur();
        match t.kind {
            TokKind::Keyword => {
                let ty = match t.text.as_str() {
                    "nil" => Type::Nil,
                    "true" => Type::True,
                    "false" => Type::False,
                    "function" => {
                        return self.err(
                            "using 'function' as a type annotation is not supported, use a function type such as '(...any) -> ...any'",
                        )
                    }
                    _ => return self.err_expected("type"),
                };
                self.advance();
                Ok(TypeOrPack::Type(ty))
            }
            TokKind::Str => {
                let (_, value) = self.parse_string_token()?;
                Ok(TypeOrPack::Type(Type::Str(value)))
            }
            TokKind::Name => {
                let name = t.text.clone();
                self.advance();
                if self.check_sym(".") {
                    self.advance();
                    let inner = self.expect_name("type name after '.'")?;
                    let params = self.parse_opt_type_params()?;
                    return Ok(TypeOrPack::Type(Type::Qualified {
                        namespace: name,
                        name: TypeName { name: inner, params },
                    }));
                }
                if self.check_sym("...") {
                    return self.err("unexpected '...' after type name; type pack is not allowed in this context");
                }
                if name == "typeof" {
                    self.expect_sym("(")?;
                    let e = self.parse_expr()?;
                    self.expect_sym(")")?;
                    return Ok(TypeOrPack::Type(Type::Typeof(Box::new(e))));
                }
                let params = self.parse_opt_type_params()?;
                Ok(TypeOrPack::Type(Type::Name(TypeName { name, params })))
            }
            TokKind::Symbol => match t.text.as_str() {
                "{" => Ok(TypeOrPack::Type(self.parse_table_type()?)),
                "(" | "<" => self.parse_function_type(allow_pack),
                _ => self.err_expected("type"),
            },
            _ => self.err_expected("type"),
        }
    }

    fn parse_opt_type_params(&mut self) -> PResult<Option<Vec<TypeArg>>> {
        if !self.check_sym("<") {
            return Ok(None);
        }
        self.advance();
        let args = self.parse_type_args_until_close()?;
        self.expect_sym(">")?;
        Ok(Some(args))
    }

    /// type arguments after `<`; stops before the closing `>`
    fn parse_type_args_until_close(&mut self) -> PResult<Vec<TypeArg>> {
        let mut args = Vec::new();
        loop {
            if self.at_type_pack() {
                match self.parse_pack_tail()? {
                    VariadicAnnotationPack::Variadic(t) => args.push(TypeArg::Variadic(Box::new(t))),
                    VariadicAnnotationPack::GenericPack(n) => args.push(TypeArg::GenericPack(n)),
                }
            } else if self.check_sym("(") {
                match self.parse_simple_type(true)? {
                    TypeOrPack::Pack(mut p) => {
                        if p.types.len() == 1 && p.tail.is_none() && self.type_follow() {
                            let inner = p.types.pop().unwrap();
                            let t = self.parse_type_suffix(Type::Paren(Box::new(inner)), None)?;
                            args.push(TypeArg::Type(t));
                        } else {
                            args.push(TypeArg::Pack(p));
                        }
                    }
                    TypeOrPack::Type(t) => {
                        let t = self.parse_type_suffix(t, None)?;
                        args.push(TypeArg::Type(t));
                    }
                }
            } else if self.check_sym(">") && args.is_empty() {
                break;
            } else {
                args.push(TypeArg::Type(self.parse_type()?));
            }
            if !self.accept_sym(",") {
                break;
            }
        }
        Ok(args)
    }

    fn parse_table_type(&mut self) -> PResult<Type> {
        let line = self.cur().line;
        self.expect_sym("{")?;
        let mut items = Vec::new();
        let mut array: Option<Type> = None;
        while !self.check_sym("}") {
            let mut access = None;
            if self.cur().kind == TokKind::Name
                && (self.cur().text == "read" || self.cur().text == "write")
                && (self.peek(1).kind == TokKind::Name || Self::is_sym(self.peek(1), "["))
            {
                access = Some(if self.cur().text == "read" { Access::Read } else { Access::Write });
                self.advance();
            }
            if self.check_sym("[") {
                self.advance();
                if self.cur().kind == TokKind::Str && Self::is_sym(self.peek(1), "]") {
                    let (_, key) = self.parse_string_token()?;
                    self.expect_sym("]")?;
                    self.expect_sym(":")?;
                    let ty = self.parse_type()?;
                    items.push(TableTypeItem::StrProp { access, key, ty });
                } else {
                    let key = self.parse_type()?;
                    self.expect_sym("]")?;
                    self.expect_sym(":")?;
                    let value = self.parse_type()?;
                    items.push(TableTypeItem::Indexer { access, key, value });
                }
            } else if items.is_empty()
                && access.is_none()
                && !(self.cur().kind == TokKind::Name && Self::is_sym(self.peek(1), ":"))
            {
                array = Some(self.parse_type()?);
                break;
            } else {
                let name = self.expect_name("table field name")?;
                self.expect_sym(":")?;
                let ty = self.parse_type()?;
                items.push(TableTypeItem::Prop { access, name, ty });
            }
            if !(self.accept_sym(",") || self.accept_sym(";")) {
                break;
            }
        }
        if !self.accept_sym("}") {
            return self.err(format!(
                "expected '}}' (to close '{{' at line {}) near {}",
                line,
                Self::describe(self.cur())
            ));
        }
        match array {
            Some(t) => Ok(Type::Array(Box::new(t))),
            None => Ok(Type::Table(items)),
        }
    }

    /// `(` type list `)`: entries may be `name: T`; an optional `...T` / `T...` tail
    #[allow(clippy::type_complexity)]
    fn parse_paren_type_list(
        &mut self,
    ) -> PResult<(Vec<(Option<String>, Type)>, Option<Box<VariadicAnnotationPack>>)> {
        self.expect_sym("(")?;
        let mut params = Vec::new();
        let mut tail = None;
        if !self.check_sym(")") {
            loop {
                if self.at_type_pack() {
                    tail = Some(Box::new(self.parse_pack_tail()?));
                    break;
                }
                let name = if self.cur().kind == TokKind::Name && Self::is_sym(self.peek(1), ":") {
                    let n = self.cur().text.clone();
                    self.advance();
                    self.advance();
                    Some(n)
                } else {
                    None
                };
                let ty = self.parse_type()?;
                params.push((name, ty));
                if !self.accept_sym(",") {
                    break;
                }
                if self.check_sym(")") {
                    return self.err("expected type after ',' but got ')'");
                }
            }
        }
        self.expect_sym(")")?;
        Ok((params, tail))
    }

    /// `[<G>] ( ... ) [-> R]`: function type, parenthesised type, or (if allowed) a type pack
    fn parse_function_type(&mut self, allow_pack: bool) -> PResult<TypeOrPack> {
        let generics = if self.check_sym("<") {
            let g = self.parse_generics_with_defaults_opt(false)?;
            Some(Generics {
                types: g.types.into_iter().map(|(n, _)| n).collect(),
                packs: g.packs.into_iter().map(|(n, _)| n).collect(),
            })
        } else {
            None
        };
        let (mut params, tail) = self.parse_paren_type_list()?;
        let has_names = params.iter().any(|(n, _)| n.is_some());
        let force = generics.is_some() || has_names;
        let arrow = self.check_sym("->");
        if !force && !arrow {
            if params.len() == 1 && tail.is_none() {
                let (_, t) = params.pop().unwrap();
                return Ok(if allow_pack {
                    TypeOrPack::Pack(TypePack { types: vec![t], tail: None })
                } else {
                    TypeOrPack::Type(Type::Paren(Box::new(t)))
                });
            }
            if allow_pack {
                return Ok(TypeOrPack::Pack(TypePack { types: params.into_iter().map(|(_, t)| t).collect(), tail }));
            }
            if self.check_sym(":") {
                return self.err("return types in function type annotations are written after '->' instead of ':'");
            }
            return self.err_expected("'->' when parsing function type");
        }
        if !arrow {
            if self.check_sym(":") {
                return self.err("return types in function type annotations are written after '->' instead of ':'");
            }
            return self.err_expected("'->' when parsing function type");
        }
        self.advance(); // ->
        let ret = self.parse_return_type()?;
        Ok(TypeOrPack::Type(Type::Function(Box::new(FunctionType {
            generics,
            params,
            variadic: tail,
            ret: Box::new(ret),
        }))))
    }

    fn parse_return_type(&mut self) -> PResult<ReturnType> {
        self.enter()?;
        let r = self.parse_return_type_inner()?;
        self.leave();
        Ok(r)
    }

    fn parse_return_type_inner(&mut self) -> PResult<ReturnType> {
        if !self.check_sym("(") {
            if self.at_type_pack() {
                return Ok(match self.parse_pack_tail()? {
                    VariadicAnnotationPack::Variadic(t) => ReturnType::Variadic(t),
                    VariadicAnnotationPack::GenericPack(n) => ReturnType::GenericPack(n),
                });
            }
            return Ok(ReturnType::Type(self.parse_type()?));
        }
        let (mut params, tail) = self.parse_paren_type_list()?;
        let has_names = params.iter().any(|(n, _)| n.is_some());
        if !self.check_sym("->") && !has_names {
            if params.len() == 1 && tail.is_none() {
                let (_, t) = params.pop().unwrap();
                if self.type_follow() {
                    let t = self.parse_type_suffix(Type::Paren(Box::new(t)), None)?;
                    return Ok(ReturnType::Type(t));
                }
                return Ok(ReturnType::Pack(TypePack { types: vec![t], tail: None }));
            }
            return Ok(ReturnType::Pack(TypePack { types: params.into_iter().map(|(_, t)| t).collect(), tail }));
        }
        if !self.check_sym("->") {
            if self.check_sym(":") {
                return self.err("return types in function type annotations are written after '->' instead of ':'");
            }
            return self.err_expected("'->' when parsing function type");
        }
        self.advance();
        let ret = self.parse_return_type()?;
        let f = Type::Function(Box::new(FunctionType { generics: None, params, variadic: tail, ret: Box::new(ret) }));
        Ok(ReturnType::Type(self.parse_type_suffix(f, None)?))
    }

    fn parse_generics_with_defaults(&mut self) -> PResult<GenericsWithDefaults> {
        self.parse_generics_with_defaults_opt(true)
    }

    /// `<T, U = X, V..., W... = ...X>`; defaults only if `with_defaults`
    fn parse_generics_with_defaults_opt(&mut self, with_defaults: bool) -> PResult<GenericsWithDefaults> {
        self.expect_sym("<")?;
        let mut types: Vec<(String, Option<Type>)> = Vec::new();
        let mut packs: Vec<(String, Option<GenericPackDefault>)> = Vec::new();
        let mut seen_pack = false;
        let mut seen_default = false;
        loop {
            let name = self.expect_name("generic type name")?;
            if self.check_sym("...") || seen_pack {
                seen_pack = true;
                if !self.accept_sym("...") {
                    return self.err("generic types come before generic type packs");
                }
                if with_defaults && self.check_sym("=") {
                    seen_default = true;
                    self.advance();
                    let d = if self.at_type_pack() {
                        match self.parse_pack_tail()? {
                            VariadicAnnotationPack::Variadic(t) => GenericPackDefault::Variadic(t),
                            VariadicAnnotationPack::GenericPack(n) => GenericPackDefault::GenericPack(n),
                        }
                    } else if self.check_sym("(") {
                        match self.parse_simple_type(true)? {
                            TypeOrPack::Pack(p) => GenericPackDefault::Pack(p),
                            TypeOrPack::Type(_) => return self.err("expected type pack after '=', got type"),
                        }
                    } else {
                        return self.err_expected("type pack after '='");
                    };
                    packs.push((name, Some(d)));
                } else {
                    if seen_default {
                        return self.err("expected default type pack after type pack name");
                    }
                    packs.push((name, None));
                }
            } else if with_defaults && self.check_sym("=") {
                seen_default = true;
                self.advance();
                let t = self.parse_type()?;
                types.push((name, Some(t)));
            } else {
                if seen_default {
                    return self.err("expected default type after type name");
                }
                types.push((name, None));
            }
            if self.accept_sym(",") {
                if self.check_sym(">") {
                    return self.err("expected type after ',' but got '>'");
                }
            } else {
                break;
            }
        }
        self.expect_sym(">")?;
        Ok(GenericsWithDefaults { types, packs })
    }
}

fn new_parser(
    src: &str,
    mode: Mode,
    opts: ParseOptions,
    shebang: bool,
    max_depth: usize,
) -> Result<(Parser, Vec<Comment>, Option<String>), SynError> {
    let out = if shebang { lex(src, mode)? } else { lex_no_shebang(src, mode)? };
    let p = Parser {
        mode,
        opts,
        toks: out.tokens,
        i: 0,
        type_spans: Vec::new(),
        type_depth: 0,
        funcs: vec![FuncState { vararg: true, loop_depth: 0 }],
        depth: 0,
        max_depth,
        hit_depth_limit: false,
        c: 0,
        ambiguous_calls: Vec::new(),
    };
    Ok((p, out.comments, out.shebang))
}

/// Outcome of one parsing attempt: `Err(None)` = the attempt's depth limit was hit (retry with a
/// larger one), `Err(Some(e))` = a genuine error.
type Attempt<T> = Result<T, Option<SynError>>;

fn attempt_chunk(src: &str, mode: Mode, opts: ParseOptions, max_depth: usize) -> Attempt<ParseOutput> {
    let (mut p, comments, shebang) = new_parser(src, mode, opts, true, max_depth).map_err(Some)?;
    let r = p.parse_block().and_then(|block| {
        if p.cur().kind != TokKind::Eof {
            return p.err_expected("<eof>");
        }
        Ok(block)
    });
    match r {
        Ok(block) => {
            debug_assert_eq!(p.type_depth, 0);
            debug_assert_eq!(p.depth, 0);
            let mut type_spans = p.type_spans;
            type_spans.sort();
            Ok(ParseOutput { block, tokens: p.toks, comments, type_spans, shebang, ambiguous_calls: p.ambiguous_calls })
        }
        Err(e) => {
            if p.hit_depth_limit && max_depth < MAX_DEPTH {
                Err(None)
            } else {
                Err(Some(e))
            }
        }
    }
}

fn attempt_expr(src: &str, mode: Mode, max_depth: usize) -> Attempt<Expr> {
    let (mut p, _, _) = new_parser(src, mode, ParseOptions::default(), false, max_depth).map_err(Some)?;
    let r = p.parse_expr().and_then(|e| {
        if p.cur().kind != TokKind::Eof {
            return p.err_expected("<eof>");
        }
        Ok(e)
    });
    r.map_err(|e| if p.hit_depth_limit && max_depth < MAX_DEPTH { None } else { Some(e) })
}

/// Runs `f(TIER1_DEPTH)` on this thread; if the depth limit was hit, `f(MAX_DEPTH)` on a thread
/// with a large stack.
fn two_tier<T: Send>(f: impl Fn(usize) -> Attempt<T> + Sync) -> Result<T, SynError> {
    match f(TIER1_DEPTH.min(MAX_DEPTH)) {
        Ok(v) => return Ok(v),
        Err(Some(e)) => return Err(e),
        Err(None) => {}
    }
    let r = std::thread::scope(|s| {
        let h = std::thread::Builder::new()
            .name("luasyn-deep-parse".to_string())
            .stack_size(TIER2_STACK_BYTES)
            .spawn_scoped(s, || f(MAX_DEPTH));
        match h {
            Ok(h) => match h.join() {
                Ok(r) => r,
                Err(panic) => std::panic::resume_unwind(panic),
            },
            Err(e) => Err(Some(SynError {
                msg: format!("input is deeply nested and no parser thread could be spawned: {}", e),
                pos: 0,
                line: 1,
            })),
        }
    });
    match r {
        Ok(v) => Ok(v),
        Err(Some(e)) => Err(e),
        Err(None) => unreachable!("the second attempt never reports a soft depth limit"),
    }
}

pub fn parse(src: &str, mode: Mode) -> Result<ParseOutput, SynError> {
    parse_with_options(src, mode, ParseOptions::default())
}

pub fn parse_with_options(src: &str, mode: Mode, opts: ParseOptions) -> Result<ParseOutput, SynError> {
    two_tier(|d| attempt_chunk(src, mode, opts, d))
}

/// The whole input must be exactly one expression.  (No shebang line is recognised here, so an
/// expression may start with the length operator `#`.)
pub fn parse_expr(src: &str, mode: Mode) -> Result<Expr, SynError> {
    two_tier(|d| attempt_expr(src, mode, d))
}

#[cfg(test)]
mod smoke {
    use super::*;
    use std::path::{Path, PathBuf};

    fn walk(dir: &Path, out: &mut Vec<PathBuf>) {
        let rd = match std::fs::read_dir(dir) {
            Ok(r) => r,
            Err(_) => return,
        };
        let mut entries: Vec<PathBuf> = rd.filter_map(|e| e.ok().map(|e| e.path())).collect();
        entries.sort();
        for p in entries {
            if p.is_dir() {
                walk(&p, out);
            } else if matches!(p.extension().and_then(|e| e.to_str()), Some("lua") | Some("luau")) {
                out.push(p);
            }
        }
    }

    /// Parses every Lua file of the darklua repository (if present) in Luau mode on a thread
    /// with the default test stack; prints failures.  Known-invalid inputs are listed below.
    #[test]
    fn repo_files_parse() {
        let mut files = Vec::new();
        for d in ["/repo/tests", "/repo/bench_content", "/repo/site", "/repo/src"] {
            walk(Path::new(d), &mut files);
        }
        let mut failures = Vec::new();
        let mut ok = 0;
        for f in &files {
            let bytes = std::fs::read(f).unwrap();
            let src = match String::from_utf8(bytes) {
                Ok(s) => s,
                Err(_) => {
                    failures.push(format!("{}: not UTF-8", f.display()));
                    continue;
                }
            };
            match parse(&src, Mode::Luau) {
                Ok(out) => {
                    ok += 1;
                    // invariants
                    for w in out.type_spans.windows(2) {
                        assert!(w[0].1 <= w[1].0, "overlapping type spans in {}", f.display());
                    }
                    let _ = crate::luasyn::census::census(&out.block);
                    let _ = crate::luasyn::resolve::resolve(&out.block);
                }
                Err(e) => failures.push(format!("{}: {}", f.display(), e)),
            }
        }
        println!("parsed {} of {} files", ok, files.len());
        for f in &failures {
            println!("FAIL {}", f);
        }
        // Known invalid input: a fuzzed case with a top-level `continue` outside any loop (the
        // reference Luau parser rejects it as well); it parses once the context check is relaxed.
        let known = "/repo/tests/fuzzed_test_cases/a.lua";
        for f in &failures {
            assert!(f.starts_with(known), "unexpected parse failure: {}", f);
        }
        if let Ok(src) = std::fs::read_to_string(known) {
            let loose = ParseOptions { check_loop_context: false, ..Default::default() };
            assert!(parse_with_options(&src, Mode::Luau, loose).is_ok());
        }
    }
}

/// Compact, unambiguous rendering of trees; used by the tests to assert tree shapes.
#[cfg(test)]
pub(crate) mod dump {
    use crate::luasyn::ast::*;

    fn bytes(b: &[u8]) -> String {
        let mut s = String::from("\"");
        for &c in b {
            match c {
                b'"' => s.push_str("\\\""),
                b'\\' => s.push_str("\\\\"),
                b'\n' => s.push_str("\\n"),
                0x20..=0x7e => s.push(c as char),
                _ => s.push_str(&format!("\\x{:02X}", c)),
            }
        }
        s.push('"');
        s
    }

    fn join<T>(v: &[T], f: impl Fn(&T) -> String) -> String {
        v.iter().map(f).collect::<Vec<_>>().join(", ")
    }

    pub fn num(v: f64) -> String {
        if v == v.trunc() && v.abs() < 1e15 {
            if v == 0.0 && v.is_sign_negative() {
                "-0".to_string()
            } else {
                format!("{}", v as i64)
            }
        } else {
            format!("{:?}", v)
        }
    }

    pub fn expr(e: &Expr) -> String {
        match e {
            Expr::Nil => "nil".into(),
            Expr::True => "true".into(),
            Expr::False => "false".into(),
            Expr::Vararg => "...".into(),
            Expr::Number { value, .. } => num(*value),
            Expr::Str { value, .. } => bytes(value),
            Expr::Interp(segs) => format!(
                "interp[{}]",
                join(segs, |s| match s {
                    InterpSeg::Str(b) => bytes(b),
                    InterpSeg::Expr(e) => expr(e),
                })
            ),
            Expr::Name(n) => n.clone(),
            Expr::Index { obj, key } => format!("{}[{}]", expr(obj), expr(key)),
            Expr::Field { obj, name } => format!("{}.{}", expr(obj), name),
            Expr::Call { f, args, sugar } => format!("{}{}", expr(f), call_args(args, *sugar)),
            Expr::MethodCall { obj, name, types, args, sugar } => {
                format!("{}:{}{}{}", expr(obj), name, types.as_ref().map(|t| format!("<<{}>>", join(t, type_arg))).unwrap_or_default(), call_args(args, *sugar))
            }
            Expr::Function { attrs, func } => format!("{}function{}", attributes(attrs), func_body(func)),
            Expr::Paren(x) => format!("P[{}]", expr(x)),
            Expr::Unary(op, x) => match op {
                UnOp::Not => format!("(not {})", expr(x)),
                _ => format!("({}{})", op.symbol(), expr(x)),
            },
            Expr::Binary(op, a, b) => format!("({} {} {})", expr(a), op.symbol(), expr(b)),
            Expr::Table(items) => format!(
                "{{{}}}",
                join(items, |it| match it {
                    TableItem::Pos(v) => expr(v),
                    TableItem::Named(n, v) => format!("{}={}", n, expr(v)),
                    TableItem::Keyed(k, v) => format!("[{}]={}", expr(k), expr(v)),
                })
            ),
            Expr::IfExpr { clauses, else_ } => format!(
                "if({}; else {})",
                clauses.iter().map(|(c, v)| format!("{} -> {}", expr(c), expr(v))).collect::<Vec<_>>().join("; "),
                expr(else_)
            ),
            Expr::Cast { expr: x, ty: t } => format!("({} :: {})", expr(x), ty(t)),
            Expr::Instantiate { expr: x, types } => format!("{}<<{}>>", expr(x), join(types, type_arg)),
        }
    }

    fn call_args(args: &[Expr], sugar: CallSugar) -> String {
        let mark = match sugar {
            CallSugar::Parens => "",
            CallSugar::Str => "!s",
            CallSugar::Table => "!t",
        };
        format!("{}({})", mark, join(args, expr))
    }

    pub fn attributes(attrs: &[Attribute]) -> String {
        let mut s = String::new();
        for a in attrs {
            match a {
                Attribute::Name(n) => s.push_str(&format!("@{} ", n)),
                Attribute::Group(elems) => s.push_str(&format!(
                    "@[{}] ",
                    join(elems, |e| match &e.args {
                        None => e.name.clone(),
                        Some(AttributeArgs::Tuple(v)) => format!("{}({})", e.name, join(v, expr)),
                        Some(AttributeArgs::Str(b)) => format!("{} {}", e.name, bytes(b)),
                        Some(AttributeArgs::Table(t)) => format!("{} {}", e.name, expr(t)),
                    })
                )),
            }
        }
        s
    }

    fn binding(b: &Binding) -> String {
        match &b.ty {
            Some(t) => format!("{}: {}", b.name, ty(t)),
            None => b.name.clone(),
        }
    }

    fn generics(g: &Option<Generics>) -> String {
        match g {
            None => String::new(),
            Some(g) => {
                let mut v: Vec<String> = g.types.clone();
                v.extend(g.packs.iter().map(|p| format!("{}...", p)));
                format!("<{}>", v.join(", "))
            }
        }
    }

    pub fn func_body(f: &FuncBody) -> String {
        let mut ps: Vec<String> = f.params.iter().map(binding).collect();
        if f.vararg {
            ps.push(match &f.vararg_ty {
                None => "...".to_string(),
                Some(v) => match &**v {
                    VariadicAnnotation::Type(t) => format!("...: {}", ty(t)),
                    VariadicAnnotation::GenericPack(n) => format!("...: {}...", n),
                },
            });
        } else {
            assert!(f.vararg_ty.is_none());
        }
        let ret = match &f.ret_ty {
            None => String::new(),
            Some(r) => format!(": {}", ret_ty(r)),
        };
        format!("{}({}){} {{{}}}", generics(&f.generics), ps.join(", "), ret, block(&f.body))
    }

    pub fn block(b: &Block) -> String {
        b.stmts.iter().map(stmt).collect::<Vec<_>>().join("; ")
    }

    pub fn stmt(s: &Stmt) -> String {
        match s {
            Stmt::Local { is_const, names, values } => {
                let kw = if *is_const { "const" } else { "local" };
                if values.is_empty() {
                    format!("{} {}", kw, join(names, binding))
                } else {
                    format!("{} {} = {}", kw, join(names, binding), join(values, expr))
                }
            }
            Stmt::Assign { targets, values } => format!("{} = {}", join(targets, expr), join(values, expr)),
            Stmt::CompoundAssign { target, op, value } => format!("{} {}= {}", expr(target), op.symbol(), expr(value)),
            Stmt::Call(e) => format!("call {}", expr(e)),
            Stmt::Do(b) => format!("do {{{}}}", block(b)),
            Stmt::While { cond, body } => format!("while {} {{{}}}", expr(cond), block(body)),
            Stmt::Repeat { body, cond } => format!("repeat {{{}}} until {}", block(body), expr(cond)),
            Stmt::If { clauses, else_ } => {
                let mut s = String::new();
                for (i, (c, b)) in clauses.iter().enumerate() {
                    s.push_str(&format!("{} {} {{{}}}", if i == 0 { "if" } else { " elseif" }, expr(c), block(b)));
                }
                if let Some(b) = else_ {
                    s.push_str(&format!(" else {{{}}}", block(b)));
                }
                s
            }
            Stmt::NumFor { var, start, limit, step, body } => format!(
                "for {} = {}, {}{} {{{}}}",
                binding(var),
                expr(start),
                expr(limit),
                step.as_ref().map(|s| format!(", {}", expr(s))).unwrap_or_default(),
                block(body)
            ),
            Stmt::GenFor { vars, exprs, body } => {
                format!("for {} in {} {{{}}}", join(vars, binding), join(exprs, expr), block(body))
            }
            Stmt::Function { attrs, name, func } => {
                let mut n = name.base.clone();
                for f in &name.fields {
                    n.push('.');
                    n.push_str(f);
                }
                if let Some(m) = &name.method {
                    n.push(':');
                    n.push_str(m);
                }
                format!("{}function {}{}", attributes(attrs), n, func_body(func))
            }
            Stmt::LocalFunction { attrs, is_const, name, func } => format!(
                "{}{} function {}{}",
                attributes(attrs),
                if *is_const { "const" } else { "local" },
                name,
                func_body(func)
            ),
            Stmt::Return(v) => format!("return {}", join(v, expr)).trim_end().to_string(),
            Stmt::Break => "break".into(),
            Stmt::Continue => "continue".into(),
            Stmt::TypeDecl { export, name, generics, ty: t } => {
                let g = match generics {
                    None => String::new(),
                    Some(g) => {
                        let mut v: Vec<String> = g
                            .types
                            .iter()
                            .map(|(n, d)| match d {
                                None => n.clone(),
                                Some(d) => format!("{} = {}", n, ty(d)),
                            })
                            .collect();
                        v.extend(g.packs.iter().map(|(n, d)| match d {
                            None => format!("{}...", n),
                            Some(GenericPackDefault::Pack(p)) => format!("{}... = {}", n, pack(p)),
                            Some(GenericPackDefault::Variadic(t)) => format!("{}... = ...{}", n, ty(t)),
                            Some(GenericPackDefault::GenericPack(g)) => format!("{}... = {}...", n, g),
                        }));
                        format!("<{}>", v.join(", "))
                    }
                };
                format!("{}type {}{} = {}", if *export { "export " } else { "" }, name, g, ty(t))
            }
            Stmt::TypeFunction { export, name, func } => {
                format!("{}type function {}{}", if *export { "export " } else { "" }, name, func_body(func))
            }
        }
    }

    fn type_name(n: &TypeName) -> String {
        match &n.params {
            None => n.name.clone(),
            Some(ps) => format!("{}<{}>", n.name, join(ps, type_arg)),
        }
    }

    pub fn type_arg(a: &TypeArg) -> String {
        match a {
            TypeArg::Type(t) => ty(t),
            TypeArg::Pack(p) => pack(p),
            TypeArg::Variadic(t) => format!("...{}", ty(t)),
            TypeArg::GenericPack(n) => format!("{}...", n),
        }
    }

    fn tail(t: &VariadicAnnotationPack) -> String {
        match t {
            VariadicAnnotationPack::Variadic(t) => format!("...{}", ty(t)),
            VariadicAnnotationPack::GenericPack(n) => format!("{}...", n),
        }
    }

    pub fn pack(p: &TypePack) -> String {
        let mut v: Vec<String> = p.types.iter().map(ty).collect();
        if let Some(t) = &p.tail {
            v.push(tail(t));
        }
        format!("pack({})", v.join(", "))
    }

    pub fn ret_ty(r: &ReturnType) -> String {
        match r {
            ReturnType::Type(t) => ty(t),
            ReturnType::Pack(p) => pack(p),
            ReturnType::GenericPack(n) => format!("{}...", n),
            ReturnType::Variadic(t) => format!("...{}", ty(t)),
        }
    }

    fn access(a: &Option<Access>) -> &'static str {
        match a {
            None => "",
            Some(Access::Read) => "read ",
            Some(Access::Write) => "write ",
        }
    }

    pub fn ty(t: &Type) -> String {
        match t {
            Type::Name(n) => type_name(n),
            Type::Qualified { namespace, name } => format!("{}.{}", namespace, type_name(name)),
            Type::True => "true".into(),
            Type::False => "false".into(),
            Type::Nil => "nil".into(),
            Type::Str(b) => bytes(b),
            Type::Array(t) => format!("{{{}}}", ty(t)),
            Type::Table(items) => format!(
                "{{{}}}",
                join(items, |it| match it {
                    TableTypeItem::Prop { access: a, name, ty: t } => format!("{}{}: {}", access(a), name, ty(t)),
                    TableTypeItem::StrProp { access: a, key, ty: t } => format!("{}[{}]: {}", access(a), bytes(key), ty(t)),
                    TableTypeItem::Indexer { access: a, key, value } =>
                        format!("{}[{}]: {}", access(a), ty(key), ty(value)),
                })
            ),
            Type::Typeof(e) => format!("typeof({})", expr(e)),
            Type::Paren(t) => format!("P[{}]", ty(t)),
            Type::Function(f) => {
                let mut ps: Vec<String> = f
                    .params
                    .iter()
                    .map(|(n, t)| match n {
                        Some(n) => format!("{}: {}", n, ty(t)),
                        None => ty(t),
                    })
                    .collect();
                if let Some(v) = &f.variadic {
                    ps.push(tail(v));
                }
                format!("fn{}({}) -> {}", generics(&f.generics), ps.join(", "), ret_ty(&f.ret))
            }
            Type::Optional(t) => format!("{}?", ty(t)),
            Type::Union { leading, types } => {
                format!("({}{})", if *leading { "| " } else { "" }, types.iter().map(ty).collect::<Vec<_>>().join(" | "))
            }
            Type::Intersection { leading, types } => {
                format!("({}{})", if *leading { "& " } else { "" }, types.iter().map(ty).collect::<Vec<_>>().join(" & "))
            }
        }
    }
}

#[cfg(test)]
mod tests {
    use super::dump;
    use super::*;

    fn pe(src: &str) -> String {
        match parse_expr(src, Mode::Luau) {
            Ok(e) => dump::expr(&e),
            Err(e) => panic!("Luau parse_expr failed on {:?}: {}", src, e),
        }
    }

    fn pe51(src: &str) -> String {
        match parse_expr(src, Mode::Lua51) {
            Ok(e) => dump::expr(&e),
            Err(e) => panic!("5.1 parse_expr failed on {:?}: {}", src, e),
        }
    }

    /// parses in Luau mode
    fn ps(src: &str) -> String {
        match parse(src, Mode::Luau) {
            Ok(o) => dump::block(&o.block),
            Err(e) => panic!("Luau parse failed on {:?}: {}", src, e),
        }
    }

    /// parses in both modes, the trees must be equal
    fn ps_both(src: &str) -> String {
        let a = parse(src, Mode::Luau).unwrap_or_else(|e| panic!("Luau parse failed on {:?}: {}", src, e));
        let b = parse(src, Mode::Lua51).unwrap_or_else(|e| panic!("5.1 parse failed on {:?}: {}", src, e));
        assert_eq!(a.block, b.block, "{:?}", src);
        assert!(a.type_spans.is_empty());
        dump::block(&a.block)
    }

    fn bad(src: &str) {
        assert!(parse(src, Mode::Luau).is_err(), "Luau should reject {:?}", src);
    }

    fn bad51(src: &str) {
        assert!(parse(src, Mode::Lua51).is_err(), "5.1 should reject {:?}", src);
    }

    fn bad_both(src: &str) {
        bad(src);
        bad51(src);
    }

    // --------------------------------------------------------------------------- expressions

    /// independent precedence table: (level, right-associative)
    fn level(op: BinOp) -> (u8, bool) {
        match op {
            BinOp::Or => (1, false),
            BinOp::And => (2, false),
            BinOp::Lt | BinOp::Gt | BinOp::Le | BinOp::Ge | BinOp::Ne | BinOp::Eq => (3, false),
            BinOp::Concat => (4, true),
            BinOp::Add | BinOp::Sub => (5, false),
            BinOp::Mul | BinOp::Div | BinOp::IDiv | BinOp::Mod => (6, false),
            BinOp::Pow => (8, true),
        }
    }

    #[test]
    fn precedence_table_all_pairs() {
        for op1 in BinOp::ALL {
            for op2 in BinOp::ALL {
                let src = format!("a {} b {} c", op1.symbol(), op2.symbol());
                let (l1, r1) = level(op1);
                let (l2, _) = level(op2);
                let left_first = l1 > l2 || (l1 == l2 && !r1);
                let expect = if left_first {
                    format!("((a {} b) {} c)", op1.symbol(), op2.symbol())
                } else {
                    format!("(a {} (b {} c))", op1.symbol(), op2.symbol())
                };
                assert_eq!(pe(&src), expect, "{}", src);
                if op1 != BinOp::IDiv && op2 != BinOp::IDiv {
                    assert_eq!(pe51(&src), expect, "5.1: {}", src);
                }
            }
        }
    }

    #[test]
    fn precedence_three_operators() {
        assert_eq!(pe("a or b and c < d .. e + f * g ^ h"), "(a or (b and (c < (d .. (e + (f * (g ^ h)))))))");
        assert_eq!(pe("a ^ b * c + d .. e < f and g or h"), "(((((((a ^ b) * c) + d) .. e) < f) and g) or h)");
        assert_eq!(pe("a .. b .. c .. d"), "(a .. (b .. (c .. d)))");
        assert_eq!(pe("a ^ b ^ c ^ d"), "(a ^ (b ^ (c ^ d)))");
        assert_eq!(pe("a - b - c - d"), "(((a - b) - c) - d)");
        assert_eq!(pe("a + b .. c + d .. e"), "((a + b) .. ((c + d) .. e))");
        assert_eq!(pe("a .. b .. c == d .. e"), "((a .. (b .. c)) == (d .. e))");
        assert_eq!(pe("a .. b ^ c .. -d .. e or f .. g"), "((a .. ((b ^ c) .. ((-d) .. e))) or (f .. g))");
        assert_eq!(pe("a .. b and c .. d .. e"), "((a .. b) and (c .. (d .. e)))");
        assert_eq!(pe("-a .. b"), "((-a) .. b)");
        assert_eq!(pe("2 ^ a .. b"), "((2 ^ a) .. b)");
        assert_eq!(pe("a .. b :: T .. c"), "(a .. ((b :: T) .. c))");
        assert_eq!(pe("a == b ~= c"), "((a == b) ~= c)");
        assert_eq!(pe("a // b / c % d"), "(((a // b) / c) % d)");
        assert_eq!(pe("1 + 2 * 3 - 4 / 5"), "((1 + (2 * 3)) - (4 / 5))");
    }

    #[test]
    fn unary_operators() {
        assert_eq!(pe("-x^2"), "(-(x ^ 2))");
        assert_eq!(pe("2^-3"), "(2 ^ (-3))");
        assert_eq!(pe("2^-3^4"), "(2 ^ (-(3 ^ 4)))");
        assert_eq!(pe("-a^-b^c"), "(-(a ^ (-(b ^ c))))");
        assert_eq!(pe("not a == b"), "((not a) == b)");
        assert_eq!(pe("not a and b"), "((not a) and b)");
        assert_eq!(pe("#a .. b"), "((#a) .. b)");
        assert_eq!(pe("-a * b"), "((-a) * b)");
        assert_eq!(pe("a * -b"), "(a * (-b))");
        assert_eq!(pe("- - a"), "(-(-a))");
        assert_eq!(pe("not not a"), "(not (not a))");
        assert_eq!(pe("-#not a"), "(-(#(not a)))");
        assert_eq!(pe("#t[1]"), "(#t[1])");
        assert_eq!(pe("-f(x).y"), "(-f(x).y)");
        assert_eq!(pe("a - -b"), "(a - (-b))");
        assert_eq!(pe("-2 ^ 2"), "(-(2 ^ 2))");
        assert_eq!(pe("not a ^ b"), "(not (a ^ b))");
        assert_eq!(pe("#a ^ b"), "(#(a ^ b))");
        // unary binds tighter than every binary operator except ^
        for op in BinOp::ALL {
            for (u, us) in [("-", "-"), ("not ", "not "), ("#", "#")] {
                let src = format!("{}a {} b", u, op.symbol());
                let expect = if op == BinOp::Pow {
                    format!("({}(a ^ b))", us)
                } else {
                    format!("(({}a) {} b)", us, op.symbol())
                };
                assert_eq!(pe(&src), expect, "{}", src);
                let src = format!("a {} {}b", op.symbol(), u);
                assert_eq!(pe(&src), format!("(a {} ({}b))", op.symbol(), us), "{}", src);
            }
        }
        // numbers are not folded with the sign
        assert_eq!(pe("-1"), "(-1)");
        assert_eq!(pe("- 0"), "(-0)");
        match parse_expr("-0", Mode::Luau).unwrap() {
            Expr::Unary(UnOp::Neg, x) => assert_eq!(*x, Expr::num(0.0)),
            other => panic!("{:?}", other),
        }
    }

    #[test]
    fn literals() {
        assert_eq!(pe("nil"), "nil");
        assert_eq!(pe("true"), "true");
        assert_eq!(pe("false"), "false");
        assert_eq!(pe("..."), "...");
        assert_eq!(pe("0x10"), "16");
        assert_eq!(pe("1e2"), "100");
        assert_eq!(pe(".5"), "0.5");
        assert_eq!(pe("3."), "3");
        assert_eq!(pe("0b11"), "3");
        assert_eq!(pe("1_000"), "1000");
        assert_eq!(pe(r#""a\n\65""#), "\"a\\nA\"");
        assert_eq!(pe("'x'"), "\"x\"");
        assert_eq!(pe("[[x]]"), "\"x\"");
        assert_eq!(pe("[==[\nx]]]==]"), "\"x]]\"");
        assert_eq!(pe(r#""\x41\u{42}\z   C""#), "\"ABC\"");
        match parse_expr("0x1F", Mode::Lua51).unwrap() {
            Expr::Number { raw, value } => {
                assert_eq!(raw, "0x1F");
                assert_eq!(value, 31.0);
            }
            other => panic!("{:?}", other),
        }
        match parse_expr("'a\\tb'", Mode::Lua51).unwrap() {
            Expr::Str { raw, value } => {
                assert_eq!(raw, "'a\\tb'");
                assert_eq!(value, b"a\tb".to_vec());
            }
            other => panic!("{:?}", other),
        }
    }

    #[test]
    fn suffixed_expressions() {
        assert_eq!(pe("a.b.c"), "a.b.c");
        assert_eq!(pe("a[b][c]"), "a[b][c]");
        assert_eq!(pe("a.b[c].d"), "a.b[c].d");
        assert_eq!(pe("f()"), "f()");
        assert_eq!(pe("f(a, b)(c)"), "f(a, b)(c)");
        assert_eq!(pe("f'x'"), "f!s(\"x\")");
        assert_eq!(pe("f\"x\""), "f!s(\"x\")");
        assert_eq!(pe("f[[x]]"), "f!s(\"x\")");
        assert_eq!(pe("f{1, 2}"), "f!t({1, 2})");
        assert_eq!(pe("f{}{}"), "f!t({})!t({})");
        assert_eq!(pe("a:b()"), "a:b()");
        assert_eq!(pe("a:b(1):c'x':d{}"), "a:b(1):c!s(\"x\"):d!t({})");
        assert_eq!(pe("a.b:c(d).e"), "a.b:c(d).e");
        assert_eq!(pe("(a)"), "P[a]");
        assert_eq!(pe("((a))"), "P[P[a]]");
        assert_eq!(pe("(a).b"), "P[a].b");
        assert_eq!(pe("(f())"), "P[f()]");
        assert_eq!(pe("(...)"), "P[...]");
        assert_eq!(pe("(a + b) * c"), "(P[(a + b)] * c)");
        assert_eq!(pe("('x'):rep(3)"), "P[\"x\"]:rep(3)");
        assert_eq!(pe("(function() end)()"), "P[function() {}]()");
        assert_eq!(pe("a.b.c + d[e]"), "(a.b.c + d[e])");
        assert_eq!(pe("f(...)"), "f(...)");
        assert_eq!(pe("f(function() end, {})"), "f(function() {}, {})");
        // only Name and ( expr ) can be suffixed
        for s in ["'x':rep(3)", "1.x", "{}.x", "nil()", "function() end()", "#a.b.c.()", "a.'x'", "a:b", "a:b.c", "a.", "a[", "a[]", "f(", "f(a,)", "(a", "()", "a.end", "a:1()"] {
            assert!(parse_expr(s, Mode::Luau).is_err(), "{:?}", s);
            assert!(parse_expr(s, Mode::Lua51).is_err(), "{:?}", s);
        }
    }

    #[test]
    fn table_constructors() {
        assert_eq!(pe("{}"), "{}");
        assert_eq!(pe("{1, 2; 3}"), "{1, 2, 3}");
        assert_eq!(pe("{1, 2,}"), "{1, 2}");
        assert_eq!(pe("{1;}"), "{1}");
        assert_eq!(pe("{a = 1, [b] = 2, c}"), "{a=1, [b]=2, c}");
        assert_eq!(pe("{a == 1}"), "{(a == 1)}");
        assert_eq!(pe("{[1] = {x = {}}}"), "{[1]={x={}}}");
        assert_eq!(pe("{f(), ...}"), "{f(), ...}");
        assert_eq!(pe("{[ [[k]] ] = v}"), "{[\"k\"]=v}");
        assert_eq!(pe("{a.b, a = b.c}"), "{a.b, a=b.c}");
        assert_eq!(pe("{type = 1, continue = 2}"), "{type=1, continue=2}");
        for s in ["{,}", "{;}", "{1,,2}", "{a = }", "{[a] 1}", "{[a]}", "{1 2}", "{", "{1", "{end = 1}", "{a = 1 = 2}"] {
            assert!(parse_expr(s, Mode::Luau).is_err(), "{:?}", s);
            assert!(parse_expr(s, Mode::Lua51).is_err(), "{:?}", s);
        }
    }

    #[test]
    fn function_expressions() {
        assert_eq!(pe("function() end"), "function() {}");
        assert_eq!(pe("function(a, b, ...) return a end"), "function(a, b, ...) {return a}");
        assert_eq!(pe("function(...) return ... end"), "function(...) {return ...}");
        assert_eq!(pe51("function(a) local b = a; return b end"), "function(a) {local b = a; return b}");
        assert_eq!(
            pe("function<T, U...>(a: T, ...: U...): (T, U...) end"),
            "function<T, U...>(a: T, ...: U...): pack(T, U...) {}"
        );
        assert_eq!(pe("function(...: number): ...number end"), "function(...: number): ...number {}");
        assert_eq!(pe("function(): () end"), "function(): pack() {}");
        assert_eq!(pe("function(): T... end"), "function(): T... {}");
        assert_eq!(pe("@native function() end"), "@native function() {}");
        assert_eq!(pe("@a @b function() end"), "@a @b function() {}");
        assert_eq!(
            pe("@[a, b(1, 'x'), c 's', d {k = 1}] function() end"),
            "@[a, b(1, \"x\"), c \"s\", d {k=1}] function() {}"
        );
        for s in [
            "function(a,) end",
            "function(..., a) end",
            "function(a b) end",
            "function() ",
            "function end",
            "function(1) end",
            "function f() end",
            "function(a.b) end",
            "@ native function() end",
            "@native 1",
            "@[] function() end",
            "@native",
        ] {
            assert!(parse_expr(s, Mode::Luau).is_err(), "{:?}", s);
        }
        // `...` only inside vararg functions
        assert!(parse_expr("function() return ... end", Mode::Luau).is_err());
        assert!(parse_expr("function() return ... end", Mode::Lua51).is_err());
        assert!(parse_expr("function(...) return function() return ... end end", Mode::Luau).is_err());
        assert!(parse_expr("function(...) return function(...) return ... end end", Mode::Luau).is_ok());
        assert!(parse("return ...", Mode::Lua51).is_ok());
        let loose = ParseOptions { check_vararg_context: false, ..Default::default() };
        assert!(parse_with_options("function f() return ... end", Mode::Luau, loose).is_ok());
    }

    #[test]
    fn luau_expressions() {
        assert_eq!(pe("if a then b else c"), "if(a -> b; else c)");
        assert_eq!(pe("if a then b elseif c then d elseif e then f else g"), "if(a -> b; c -> d; e -> f; else g)");
        assert_eq!(pe("if a then b else c + 1"), "if(a -> b; else (c + 1))");
        assert_eq!(pe("1 + if a then b else c"), "(1 + if(a -> b; else c))");
        assert_eq!(pe("if a then if b then c else d else e"), "if(a -> if(b -> c; else d); else e)");
        assert_eq!(pe("if a then b else if c then d else e"), "if(a -> b; else if(c -> d; else e))");
        assert_eq!(pe("f(if a then b else c, d)"), "f(if(a -> b; else c), d)");
        assert_eq!(pe("(if a then b else c).x"), "P[if(a -> b; else c)].x");
        for s in ["if a then b", "if a then b end", "if a then b else c end", "if a b else c", "if then a else b", "if a then b elseif c else d"] {
            assert!(parse_expr(s, Mode::Luau).is_err(), "{:?}", s);
        }
        // casts
        assert_eq!(pe("a :: T"), "(a :: T)");
        assert_eq!(pe("-x :: T"), "(-(x :: T))");
        assert_eq!(pe("a ^ b :: T"), "(a ^ (b :: T))");
        assert_eq!(pe("a :: T ^ b"), "((a :: T) ^ b)");
        assert_eq!(pe("a + b :: T"), "(a + (b :: T))");
        assert_eq!(pe("(a + b) :: T"), "(P[(a + b)] :: T)");
        assert_eq!(pe("a.b.c :: T"), "(a.b.c :: T)");
        assert_eq!(pe("f() :: T"), "(f() :: T)");
        assert_eq!(pe("a :: T | U"), "(a :: (T | U))");
        assert_eq!(pe("a :: T?"), "(a :: T?)");
        assert_eq!(pe("a :: T == b"), "((a :: T) == b)");
        assert_eq!(pe("a :: T and b :: U"), "((a :: T) and (b :: U))");
        assert_eq!(pe("{} :: {number}"), "({} :: {number})");
        assert_eq!(pe("nil :: any"), "(nil :: any)");
        assert_eq!(pe("1 :: any"), "(1 :: any)");
        assert_eq!(pe("(a :: any) :: T"), "(P[(a :: any)] :: T)");
        assert_eq!(pe("if a then b else c :: T"), "if(a -> b; else (c :: T))");
        assert_eq!(pe("function() end :: T"), "(function() {} :: T)");
        // only one cast per simple expression, as in the reference parser
        assert!(parse_expr("a :: T :: U", Mode::Luau).is_err());
        assert!(parse_expr("a ::", Mode::Luau).is_err());
        // instantiation
        assert_eq!(pe("f<<T>>()"), "f<<T>>()");
        assert_eq!(pe("f<<T, U>>(a)"), "f<<T, U>>(a)");
        assert_eq!(pe("f<<>>()"), "f<<>>()");
        assert_eq!(pe("a.b<<T>>(c).d"), "a.b<<T>>(c).d");
        assert_eq!(pe("f<<Foo<Bar>>>()"), "f<<Foo<Bar>>>()");
        assert_eq!(pe("f<<Foo<Bar<Baz>>>>()"), "f<<Foo<Bar<Baz>>>>()");
        assert_eq!(pe("f<<T..., ...number, (A, B), (A) -> B>>()"), "f<<T..., ...number, pack(A, B), fn(A) -> B>>()");
        assert_eq!(pe("f<<T>>"), "f<<T>>");
        assert_eq!(pe("f<<T>>.x<<U>>'s'"), "f<<T>>.x<<U>>!s(\"s\")");
        assert_eq!(pe("f < < T > > ()"), "f<<T>>()");
        assert_eq!(pe("a < b"), "(a < b)");
        assert_eq!(pe("a < b > c"), "((a < b) > c)");
        assert!(parse_expr("f<<T>()", Mode::Luau).is_err());
        assert!(parse_expr("f<<T", Mode::Luau).is_err());
        assert!(parse_expr("a:b<<T>>()", Mode::Luau).is_err()); // not representable in ast.rs
    }

    #[test]
    fn interpolated_strings() {
        assert_eq!(pe("``"), "interp[]");
        assert_eq!(pe("`abc`"), "interp[\"abc\"]");
        assert_eq!(pe("`a{b}c`"), "interp[\"a\", b, \"c\"]");
        assert_eq!(pe("`{b}`"), "interp[b]");
        assert_eq!(pe("`{a}{b}`"), "interp[a, b]");
        assert_eq!(pe("`{a} {b}`"), "interp[a, \" \", b]");
        assert_eq!(pe("`x{1 + 2}y{f()}`"), "interp[\"x\", (1 + 2), \"y\", f()]");
        assert_eq!(pe("`a{ {1, 2} }b`"), "interp[\"a\", {1, 2}, \"b\"]");
        assert_eq!(pe("`a{`b{c}d`}e`"), "interp[\"a\", interp[\"b\", c, \"d\"], \"e\"]");
        assert_eq!(pe(r"`\{\`\n\x41\u{42}`"), "interp[\"{`\\nAB\"]");
        assert_eq!(pe("`a` .. `b`"), "(interp[\"a\"] .. interp[\"b\"])");
        assert_eq!(pe("f(`a`)"), "f(interp[\"a\"])");
        assert_eq!(pe("`{if a then b else c}`"), "interp[if(a -> b; else c)]");
        assert_eq!(pe("`{function() return `{1}` end}`"), "interp[function() {return interp[1]}]");
        assert_eq!(pe("`{a :: T}`"), "interp[(a :: T)]");
        for s in ["`{}`", "`a{}b`", "`{a b}`", "`{a}{}`", "f`a`", "`a`.x", "`a`:f()", "`{a,b}`"] {
            assert!(parse_expr(s, Mode::Luau).is_err(), "{:?}", s);
        }
        assert!(parse("f`a`", Mode::Luau).is_err());
    }

    // ---------------------------------------------------------------------------- statements

    #[test]
    fn statements_lua51_and_luau() {
        assert_eq!(ps_both(""), "");
        assert_eq!(ps_both("  \n -- nothing\n"), "");
        assert_eq!(ps_both("local a"), "local a");
        assert_eq!(ps_both("local a, b, c"), "local a, b, c");
        assert_eq!(ps_both("local a = 1"), "local a = 1");
        assert_eq!(ps_both("local a, b = f()"), "local a, b = f()");
        assert_eq!(ps_both("local a = 1, 2, 3"), "local a = 1, 2, 3");
        assert_eq!(ps_both("a = 1"), "a = 1");
        assert_eq!(ps_both("a, b.c, d[e] = 1, 2"), "a, b.c, d[e] = 1, 2");
        assert_eq!(ps_both("a.b.c = d"), "a.b.c = d");
        assert_eq!(ps_both("f().x = 1"), "f().x = 1");
        assert_eq!(ps_both("(a).x = 1"), "P[a].x = 1");
        assert_eq!(ps_both("a:b().c = 1"), "a:b().c = 1");
        assert_eq!(ps_both("f()"), "call f()");
        assert_eq!(ps_both("a.b:c(1)"), "call a.b:c(1)");
        assert_eq!(ps_both("f 'x'"), "call f!s(\"x\")");
        assert_eq!(ps_both("f{}"), "call f!t({})");
        assert_eq!(ps_both("(f)()"), "call P[f]()");
        assert_eq!(ps_both("f()()"), "call f()()");
        assert_eq!(ps_both("do end"), "do {}");
        assert_eq!(ps_both("do local a; a = 1 end"), "do {local a; a = 1}");
        assert_eq!(ps_both("while a do b() end"), "while a {call b()}");
        assert_eq!(ps_both("repeat a() until b"), "repeat {call a()} until b");
        assert_eq!(ps_both("repeat local x = 1 until x == 1"), "repeat {local x = 1} until (x == 1)");
        assert_eq!(ps_both("if a then end"), "if a {}");
        assert_eq!(ps_both("if a then b() else c() end"), "if a {call b()} else {call c()}");
        assert_eq!(
            ps_both("if a then b() elseif c then d() elseif e then else f() end"),
            "if a {call b()} elseif c {call d()} elseif e {} else {call f()}"
        );
        assert_eq!(ps_both("if a then if b then end end"), "if a {if b {}}");
        assert_eq!(ps_both("if a then else if b then end end"), "if a {} else {if b {}}");
        assert_eq!(ps_both("for i = 1, 2 do end"), "for i = 1, 2 {}");
        assert_eq!(ps_both("for i = a, b, c do f(i) end"), "for i = a, b, c {call f(i)}");
        assert_eq!(ps_both("for k in t do end"), "for k in t {}");
        assert_eq!(ps_both("for k, v in pairs(t) do end"), "for k, v in pairs(t) {}");
        assert_eq!(ps_both("for a, b, c in f, s, i do end"), "for a, b, c in f, s, i {}");
        assert_eq!(ps_both("function f() end"), "function f() {}");
        assert_eq!(ps_both("function a.b.c(x) end"), "function a.b.c(x) {}");
        assert_eq!(ps_both("function a.b:c(x, ...) end"), "function a.b:c(x, ...) {}");
        assert_eq!(ps_both("function a:c() return self end"), "function a:c() {return self}");
        assert_eq!(ps_both("local function f(a) return f end"), "local function f(a) {return f}");
        assert_eq!(ps_both("return"), "return");
        assert_eq!(ps_both("return;"), "return");
        assert_eq!(ps_both("return 1"), "return 1");
        assert_eq!(ps_both("return 1, 2;"), "return 1, 2");
        assert_eq!(ps_both("return f()"), "return f()");
        assert_eq!(ps_both("return (f())"), "return P[f()]");
        assert_eq!(ps_both("while true do break end"), "while true {break}");
        assert_eq!(ps_both("while true do break; end"), "while true {break}");
        assert_eq!(ps_both("repeat if a then break end until b"), "repeat {if a {break}} until b");
        assert_eq!(ps_both("for i = 1, 2 do do break end end"), "for i = 1, 2 {do {break}}");
        assert_eq!(ps_both("a = 1; b = 2;c = 3"), "a = 1; b = 2; c = 3");
        assert_eq!(ps_both("a = 1 b = 2"), "a = 1; b = 2");
        assert_eq!(ps_both("local a = b c = d"), "local a = b; c = d");
        assert_eq!(ps_both("f() g()"), "call f(); call g()");
    }

    #[test]
    fn statement_errors_both_modes() {
        for s in [
            ";",
            ";;",
            "a = 1;;",
            "do ; end",
            "return 1 a = 2",
            "return; a = 2",
            "return return",
            "do return end a = 1 end",
            "while true do break a = 1 end",
            "break",
            "function f() break end",
            "while true do function f() break end end",
            "local",
            "local 1",
            "local a =",
            "local a, = 1",
            "local a.b = 1",
            "local function a.b() end",
            "local function() end",
            "a",
            "a.b",
            "a +",
            "a + b",
            "(a)",
            "a, b",
            "a, b()",
            "a = ",
            "f() = 1",
            "a:b() = 1",
            "(a) = 1",
            "a, f() = 1, 2",
            "a.b:c = 1",
            "1 = a",
            "'x' = a",
            "nil = a",
            "do",
            "do end end",
            "end",
            "if a then",
            "if a end",
            "if a then else else end",
            "if a then elseif end",
            "if a then else elseif b then end",
            "while a end",
            "while do end",
            "while a do",
            "repeat until",
            "repeat",
            "for do end",
            "for i do end",
            "for i = 1 do end",
            "for i = 1, 2, 3, 4 do end",
            "for i, j = 1, 2 do end",
            "for i in do end",
            "for 1 in x do end",
            "for a.b in x do end",
            "for i = 1, 2 end",
            "function() end",
            "function f",
            "function f(",
            "function f() ",
            "function f.() end",
            "function f:a.b() end",
            "function f:a:b() end",
            "function f[1]() end",
            "function (f)() end",
            "until a",
            "else",
            "elseif a then",
            "then",
            "in",
            "and",
            "not",
            "x = = 1",
            "x = 1 +",
            "x = (1",
            "x = 1)",
            "x = }",
            "x = ]",
            "x = 1 2",
            "goto = ",
            "return 1,",
            "f(,)",
            "x = a b c",
            "x = function",
        ] {
            bad_both(s);
        }
        // relaxed loop-context check
        let loose = ParseOptions { check_loop_context: false, ..Default::default() };
        assert!(parse_with_options("break", Mode::Lua51, loose).is_ok());
        assert!(parse_with_options("continue", Mode::Luau, loose).is_ok());
        assert!(parse_with_options("continue", Mode::Lua51, loose).is_err());
    }

    #[test]
    fn error_positions() {
        let e = parse("local a = 1\nlocal b = = 2", Mode::Lua51).unwrap_err();
        assert_eq!((e.line, e.pos), (2, 22));
        let e = parse("x = 1\n\n  ?", Mode::Lua51).unwrap_err();
        assert_eq!((e.line, e.pos), (3, 9));
        let e = parse("if a then", Mode::Luau).unwrap_err();
        assert_eq!((e.line, e.pos), (1, 9));
        assert!(e.msg.contains("end"), "{}", e.msg);
        let e = parse("x = \"abc", Mode::Luau).unwrap_err();
        assert_eq!((e.line, e.pos), (1, 4));
    }

    #[test]
    fn luau_statements() {
        assert_eq!(ps("a += 1"), "a += 1");
        assert_eq!(ps("a.b -= c"), "a.b -= c");
        assert_eq!(ps("a[i] *= 2"), "a[i] *= 2");
        assert_eq!(ps("a /= 2 a //= 2 a %= 2 a ^= 2 a ..= 'x'"), "a /= 2; a //= 2; a %= 2; a ^= 2; a ..= \"x\"");
        assert_eq!(ps("a += b + c"), "a += (b + c)");
        assert_eq!(ps("f().x += 1"), "f().x += 1");
        for s in ["a, b += 1", "f() += 1", "(a) += 1", "a += 1, 2", "a +=", "a + = 1", "local a += 1", "a =+ 1 +"] {
            bad(s);
        }
        assert_eq!(ps("while a do continue end"), "while a {continue}");
        assert_eq!(ps("while a do continue; end"), "while a {continue}");
        assert_eq!(ps("for i = 1, 2 do if i then continue end f() end"), "for i = 1, 2 {if i {continue}; call f()}");
        assert_eq!(ps("repeat continue until a"), "repeat {continue} until a");
        assert_eq!(ps("for k in t do do continue end end"), "for k in t {do {continue}}");
        bad("continue");
        bad("function f() continue end");
        bad("while a do function f() continue end end");
        bad("while a do continue f() end");
        bad("while a do continue; f() end");
        // typed locals and loops
        assert_eq!(ps("local a: number = 1"), "local a: number = 1");
        assert_eq!(ps("local a: number, b: string? = 1"), "local a: number, b: string? = 1");
        assert_eq!(ps("local a: number"), "local a: number");
        assert_eq!(ps("for i: number = 1, 2 do end"), "for i: number = 1, 2 {}");
        assert_eq!(ps("for k: string, v: {number} in t do end"), "for k: string, v: {number} in t {}");
        assert_eq!(
            ps("function f<T>(a: T, b: number?, ...: T): T? end"),
            "function f<T>(a: T, b: number?, ...: T): T? {}"
        );
        assert_eq!(ps("function a.b:c<T...>(...: T...): ...T end"), "function a.b:c<T...>(...: T...): ...T {}");
        assert_eq!(ps("local function f<A, B>(a: A): (A, B) end"), "local function f<A, B>(a: A): pack(A, B) {}");
        // attributes
        assert_eq!(ps("@native function f() end"), "@native function f() {}");
        assert_eq!(ps("@native @checked local function f() end"), "@native @checked local function f() {}");
        assert_eq!(ps("@[deprecated {use = 'g'}]\nfunction f() end"), "@[deprecated {use=\"g\"}] function f() {}");
        assert_eq!(ps("@native\nfunction a.b:c() end"), "@native function a.b:c() {}");
        assert_eq!(ps("local f = @native function() end"), "local f = @native function() {}");
        bad("@native local x = 1");
        bad("@native x = 1");
        bad("@native return");
        bad("@native");
        // const
        assert_eq!(ps("const a = 1"), "const a = 1");
        assert_eq!(ps("const a: number, b = 1, 2"), "const a: number, b = 1, 2");
        assert_eq!(ps("const function f(a) return a end"), "const function f(a) {return a}");
        bad("const a");
        bad("const a.b = 1");
        bad("const 1 = 1");
        // type declarations
        assert_eq!(ps("type A = number"), "type A = number");
        assert_eq!(ps("export type A = number"), "export type A = number");
        assert_eq!(ps("type A<T> = {T}"), "type A<T> = {T}");
        assert_eq!(
            ps("type A<T, U = string, V... = ...number> = (T, U) -> V..."),
            "type A<T, U = string, V... = ...number> = fn(T, U) -> V..."
        );
        assert_eq!(ps("type A<T... = (number, string)> = B<T...>"), "type A<T... = pack(number, string)> = B<T...>");
        assert_eq!(ps("type A<T... = ()> = B"), "type A<T... = pack()> = B");
        assert_eq!(ps("type A<T..., U... = T...> = B"), "type A<T..., U... = T...> = B");
        assert_eq!(ps("type A = B type C = D"), "type A = B; type C = D");
        assert_eq!(ps("type A = B\nlocal x = 1"), "type A = B; local x = 1");
        assert_eq!(ps("type function f(a) return a end"), "type function f(a) {return a}");
        assert_eq!(ps("export type function f(...) return ... end"), "export type function f(...) {return ...}");
        assert_eq!(ps("type\nA\n=\nnumber"), "type A = number");
        for s in [
            "type A",
            "type A =",
            "type = number =",
            "type A<> = B",
            "type A<T,> = B",
            "type A<T = number, U> = B",
            "type A<T..., U> = B",
            "type A<T... = number> = B",
            "type A<T = ...number> = B",
            "type A<T... = ...number, U...> = B",
            "export A = B",
            "export type",
            "export function f() end",
            "export local x = 1",
            "type A.B = C",
            "type 'a' = B",
            "type function() end",
            "type function f end",
            "function f<T = number>() end",
        ] {
            bad(s);
        }
    }

    #[test]
    fn contextual_keywords_are_plain_identifiers() {
        let src = "local type = 1; type = 2; continue = 3; export = 1";
        assert_eq!(ps_both(src), "local type = 1; type = 2; continue = 3; export = 1");
        assert_eq!(ps_both("type(x)"), "call type(x)");
        assert_eq!(ps_both("continue()"), "call continue()");
        assert_eq!(ps_both("local t = type(x) == 'string'"), "local t = (type(x) == \"string\")");
        assert_eq!(ps_both("type.x = 1 export.y = 2 const.z = 3"), "type.x = 1; export.y = 2; const.z = 3");
        assert_eq!(ps_both("continue.x = 1"), "continue.x = 1");
        assert_eq!(ps_both("continue:f()"), "call continue:f()");
        assert_eq!(ps_both("continue 'x'"), "call continue!s(\"x\")");
        assert_eq!(ps_both("continue{}"), "call continue!t({})");
        assert_eq!(ps_both("continue[1] = 2"), "continue[1] = 2");
        assert_eq!(ps_both("continue, type = 1, 2"), "continue, type = 1, 2");
        assert_eq!(ps_both("local continue, export, const, typeof, read, write"), "local continue, export, const, typeof, read, write");
        assert_eq!(ps_both("const = 1 const()"), "const = 1; call const()");
        assert_eq!(ps_both("typeof(x)"), "call typeof(x)");
        assert_eq!(ps_both("local function type() end function export() end"), "local function type() {}; function export() {}");
        assert_eq!(ps_both("function type.continue:export(const) end"), "function type.continue:export(const) {}");
        assert_eq!(ps_both("for type, continue in export do end"), "for type, continue in export {}");
        assert_eq!(ps_both("x = {type = type, export = continue}"), "x = {type=type, export=continue}");
        assert_eq!(ps("continue += 1 type ..= 'x'"), "continue += 1; type ..= \"x\"");
        assert_eq!(ps("while true do continue = 1 end"), "while true {continue = 1}");
        // a call on the next line wins over the statement reading, as in the reference parser
        assert_eq!(ps("while true do continue\n(f)() end"), "while true {call continue(f)()}");
        assert_eq!(ps("type T = typeof(type)"), "type T = typeof(type)");
        assert_eq!(ps("type type = type"), "type type = type");
        assert_eq!(ps("type export = number export type type = export"), "type export = number; export type type = export");
        assert_eq!(ps("type continue = {read: number, write: string}"), "type continue = {read: number, write: string}");
        bad("local x: typeof = 1"); // `typeof` in a type must be followed by `(`
    }
}

#[cfg(test)]
mod tests_types {
    use super::dump;
    use super::*;

    /// parses `type X = <src>` and dumps the type
    fn pt(src: &str) -> String {
        let full = format!("type X = {}", src);
        match parse(&full, Mode::Luau) {
            Ok(o) => match &o.block.stmts[..] {
                [Stmt::TypeDecl { ty, .. }] => dump::ty(ty),
                other => panic!("{:?} parsed to {:?}", full, other),
            },
            Err(e) => panic!("parse failed on {:?}: {}", full, e),
        }
    }

    fn bad_type(src: &str) {
        let full = format!("type X = {}", src);
        assert!(parse(&full, Mode::Luau).is_err(), "should reject {:?}", full);
    }

    fn ps(src: &str) -> String {
        match parse(src, Mode::Luau) {
            Ok(o) => dump::block(&o.block),
            Err(e) => panic!("Luau parse failed on {:?}: {}", src, e),
        }
    }

    #[test]
    fn simple_types() {
        assert_eq!(pt("number"), "number");
        assert_eq!(pt("nil"), "nil");
        assert_eq!(pt("true"), "true");
        assert_eq!(pt("false"), "false");
        assert_eq!(pt("'a'"), "\"a\"");
        assert_eq!(pt("\"a\\n\""), "\"a\\n\"");
        assert_eq!(pt("[[a]]"), "\"a\"");
        assert_eq!(pt("ns.T"), "ns.T");
        assert_eq!(pt("ns.T<number>"), "ns.T<number>");
        assert_eq!(pt("T<number>"), "T<number>");
        assert_eq!(pt("T<>"), "T<>");
        assert_eq!(pt("T<A, B, C>"), "T<A, B, C>");
        assert_eq!(pt("T<A<B<C>>>"), "T<A<B<C>>>");
        assert_eq!(pt("T<A<B>, C<D>>"), "T<A<B>, C<D>>");
        assert_eq!(pt("T<...number>"), "T<...number>");
        assert_eq!(pt("T<U...>"), "T<U...>");
        assert_eq!(pt("T<(A, B)>"), "T<pack(A, B)>");
        assert_eq!(pt("T<()>"), "T<pack()>");
        assert_eq!(pt("T<(A, ...B)>"), "T<pack(A, ...B)>");
        assert_eq!(pt("T<(A, B...)>"), "T<pack(A, B...)>");
        assert_eq!(pt("T<(...A)>"), "T<pack(...A)>");
        assert_eq!(pt("T<(A)>"), "T<pack(A)>"); // single-element pack, as in the reference parser
        assert_eq!(pt("T<(A)?>"), "T<P[A]?>");
        assert_eq!(pt("T<(A) | B>"), "T<(P[A] | B)>");
        assert_eq!(pt("T<(A) -> B>"), "T<fn(A) -> B>");
        assert_eq!(pt("T<(A) -> B, C>"), "T<fn(A) -> B, C>");
        assert_eq!(pt("T<() -> ()>"), "T<fn() -> pack()>");
        assert_eq!(pt("T<A | B, C?>"), "T<(A | B), C?>");
        assert_eq!(pt("T<{A}, {a: B}>"), "T<{A}, {a: B}>");
        assert_eq!(pt("T<'s', true, nil>"), "T<\"s\", true, nil>");
        assert_eq!(pt("typeof(x)"), "typeof(x)");
        assert_eq!(pt("typeof(a.b + 1)"), "typeof((a.b + 1))");
        assert_eq!(pt("typeof(f(function(a: number) end))"), "typeof(f(function(a: number) {}))");
        assert_eq!(pt("typeof({})"), "typeof({})");
        assert_eq!(pt("typeof.T"), "typeof.T");
        assert_eq!(pt("(A)"), "P[A]");
        assert_eq!(pt("((A))"), "P[P[A]]");
        assert_eq!(pt("(A | B)"), "P[(A | B)]");
        for s in [
            "", "1", "a.b.c", "ns.", "T<", "T<A", "T<A,>", "T<,>", "typeof", "typeof x", "typeof()", "typeof(x", "()", "(A, B)", "(A",
            "function", "function() end", "...", "...T", "T...", "`a`", "-1", "not T", "end", "(...A)", "ns.'x'", "T<A>>", "#T",
        ] {
            bad_type(s);
        }
    }

    #[test]
    fn table_types() {
        assert_eq!(pt("{}"), "{}");
        assert_eq!(pt("{number}"), "{number}");
        assert_eq!(pt("{ {number} }"), "{{number}}");
        assert_eq!(pt("{number?}"), "{number?}");
        assert_eq!(pt("{A | B}"), "{(A | B)}");
        assert_eq!(pt("{(A) -> B}"), "{fn(A) -> B}");
        assert_eq!(pt("{T<U>}"), "{T<U>}");
        assert_eq!(pt("{ns.T}"), "{ns.T}");
        assert_eq!(pt("{'lit'}"), "{\"lit\"}");
        assert_eq!(pt("{a: number}"), "{a: number}");
        assert_eq!(pt("{a: number,}"), "{a: number}");
        assert_eq!(pt("{a: number;}"), "{a: number}");
        assert_eq!(pt("{a: number, b: string; c: {d: nil}}"), "{a: number, b: string, c: {d: nil}}");
        assert_eq!(pt("{[string]: number}"), "{[string]: number}");
        assert_eq!(pt("{[number]: A | B}"), "{[number]: (A | B)}");
        assert_eq!(pt("{[A | B]: C}"), "{[(A | B)]: C}");
        assert_eq!(pt("{['key']: number}"), "{[\"key\"]: number}");
        assert_eq!(pt("{[\"a b\"]: number, c: string, [number]: boolean}"), "{[\"a b\"]: number, c: string, [number]: boolean}");
        assert_eq!(pt("{['a' | 'b']: number}"), "{[(\"a\" | \"b\")]: number}"); // a type, not a string key
        assert_eq!(pt("{read a: number, write b: string}"), "{read a: number, write b: string}");
        assert_eq!(pt("{read [string]: number}"), "{read [string]: number}");
        assert_eq!(pt("{write ['k']: number}"), "{write [\"k\"]: number}");
        assert_eq!(pt("{read: number, write: string}"), "{read: number, write: string}");
        assert_eq!(pt("{read read: number}"), "{read read: number}");
        assert_eq!(pt("{read}"), "{read}");
        assert_eq!(pt("{type: number, export: string, continue: nil, typeof: T}"), "{type: number, export: string, continue: nil, typeof: T}");
        assert_eq!(pt("{f: (a: number) -> (), g: () -> ()}"), "{f: fn(a: number) -> pack(), g: fn() -> pack()}");
        for s in [
            "{", "{a:}", "{a: number", "{a: number b: string}", "{a: number,,}", "{,}", "{number,}", "{number, string}", "{a: number, string}",
            "{[string]}", "{[string]: }", "{[]: number}", "{['k'] = number}", "{a = number}", "{1: number}", "{end: number}", "{read a}", "{readd a: number}",
            "{read write a: number}",
        ] {
            bad_type(s);
        }
    }

    #[test]
    fn function_types() {
        assert_eq!(pt("() -> ()"), "fn() -> pack()");
        assert_eq!(pt("(A) -> B"), "fn(A) -> B");
        assert_eq!(pt("(A, B) -> C"), "fn(A, B) -> C");
        assert_eq!(pt("(a: A, b: B) -> C"), "fn(a: A, b: B) -> C");
        assert_eq!(pt("(a: A, B) -> C"), "fn(a: A, B) -> C");
        assert_eq!(pt("(A, b: B) -> C"), "fn(A, b: B) -> C");
        assert_eq!(pt("(...A) -> B"), "fn(...A) -> B");
        assert_eq!(pt("(A, ...B) -> C"), "fn(A, ...B) -> C");
        assert_eq!(pt("(T...) -> U..."), "fn(T...) -> U...");
        assert_eq!(pt("(A, T...) -> ...B"), "fn(A, T...) -> ...B");
        assert_eq!(pt("(A) -> (B, C)"), "fn(A) -> pack(B, C)");
        assert_eq!(pt("(A) -> (B)"), "fn(A) -> pack(B)");
        assert_eq!(pt("(A) -> (B)?"), "fn(A) -> P[B]?");
        assert_eq!(pt("(A) -> (B) | C"), "fn(A) -> (P[B] | C)");
        // after a multi-element return pack the `|` applies to the whole function type
        assert_eq!(pt("(A) -> (B, C) | D"), "(fn(A) -> pack(B, C) | D)");
        assert_eq!(pt("(A) -> () | D"), "(fn(A) -> pack() | D)");
        assert_eq!(pt("(A) -> (B, C)?"), "fn(A) -> pack(B, C)?");
        assert_eq!(pt("(A) -> (B, ...C)"), "fn(A) -> pack(B, ...C)");
        assert_eq!(pt("(A) -> (B, C...)"), "fn(A) -> pack(B, C...)");
        assert_eq!(pt("(A) -> (...C)"), "fn(A) -> pack(...C)");
        assert_eq!(pt("(A) -> B?"), "fn(A) -> B?");
        assert_eq!(pt("(A) -> B | C"), "fn(A) -> (B | C)");
        assert_eq!(pt("(A) -> (B) -> C"), "fn(A) -> fn(B) -> C");
        assert_eq!(pt("(A) -> (B) -> (C) -> ()"), "fn(A) -> fn(B) -> fn(C) -> pack()");
        assert_eq!(pt("(A) -> (b: B) -> C"), "fn(A) -> fn(b: B) -> C");
        assert_eq!(pt("((A) -> B)?"), "P[fn(A) -> B]?");
        assert_eq!(pt("((A) -> B) | C"), "(P[fn(A) -> B] | C)");
        assert_eq!(pt("<T>(T) -> T"), "fn<T>(T) -> T");
        assert_eq!(pt("<T, U...>(T, U...) -> ()"), "fn<T, U...>(T, U...) -> pack()");
        assert_eq!(pt("<T...>() -> T..."), "fn<T...>() -> T...");
        assert_eq!(pt("(A) -> <T>(T) -> T"), "fn(A) -> fn<T>(T) -> T");
        assert_eq!(pt("(typeof(x), {A}) -> ns.T<B>"), "fn(typeof(x), {A}) -> ns.T<B>");
        assert_eq!(pt("(type: A, export: B) -> ()"), "fn(type: A, export: B) -> pack()");
        for s in [
            "() ->", "(A) -> ", "(A, B)", "() ", "(A,) -> B", "(,) -> B", "(A) : B", "(a: A)", "<T>(T)", "<T> T", "<>(T) -> T", "<T,>() -> ()",
            "(...A, B) -> C", "(T..., U) -> ()", "(a: A) -> (b: B)", "(A) => B", "(A) - > B", "<T = A>() -> ()", "(1) -> A",
        ] {
            bad_type(s);
        }
    }

    #[test]
    fn unions_intersections_optionals() {
        assert_eq!(pt("A?"), "A?");
        assert_eq!(pt("A??"), "A??");
        assert_eq!(pt("A | B"), "(A | B)");
        assert_eq!(pt("A | B | C"), "(A | B | C)");
        assert_eq!(pt("A & B"), "(A & B)");
        assert_eq!(pt("A & B & C"), "(A & B & C)");
        assert_eq!(pt("| A"), "(| A)");
        assert_eq!(pt("| A | B"), "(| A | B)");
        assert_eq!(pt("& A"), "(& A)");
        assert_eq!(pt("& A & B"), "(& A & B)");
        assert_eq!(pt("A? | B"), "(A? | B)");
        assert_eq!(pt("A | B?"), "(A | B?)");
        assert_eq!(pt("A | B? | C"), "(A | B? | C)");
        assert_eq!(pt("| A?"), "(| A?)");
        assert_eq!(pt("(A & B) | C"), "(P[(A & B)] | C)");
        assert_eq!(pt("A & (B | C)"), "(A & P[(B | C)])");
        assert_eq!(pt("(A & B)?"), "P[(A & B)]?");
        assert_eq!(pt("{A}? | 'x' | nil"), "({A}? | \"x\" | nil)");
        assert_eq!(pt("'a' | 'b' | 'c'"), "(\"a\" | \"b\" | \"c\")");
        assert_eq!(pt("T<A>? | ns.U"), "(T<A>? | ns.U)");
        assert_eq!(pt("typeof(x)?"), "typeof(x)?");
        assert_eq!(pt("\n| A\n| B"), "(| A | B)");
        // mixing without parentheses is rejected, as in the reference parser
        for s in ["A | B & C", "A & B | C", "A & B?", "A? & B", "| A & B", "& A | B", "& A?", "A |", "A &", "| ", "A | | B", "?A", "A | ?"] {
            bad_type(s);
        }
    }

    #[test]
    fn annotations_in_context() {
        assert_eq!(ps("local a: A | B, c: C? = 1"), "local a: (A | B), c: C? = 1");
        assert_eq!(ps("local f: (A) -> B = g"), "local f: fn(A) -> B = g");
        assert_eq!(ps("local f: (A) -> (B, C) = g"), "local f: fn(A) -> pack(B, C) = g");
        assert_eq!(ps("local t: {[string]: number} = {}"), "local t: {[string]: number} = {}");
        assert_eq!(ps("function f(): (A) -> B end"), "function f(): fn(A) -> B {}");
        assert_eq!(ps("function f(): (A, B) end"), "function f(): pack(A, B) {}");
        assert_eq!(ps("function f(): (A) end"), "function f(): pack(A) {}");
        assert_eq!(ps("function f(): (A)? end"), "function f(): P[A]? {}");
        assert_eq!(ps("function f(): A | B end"), "function f(): (A | B) {}");
        assert_eq!(ps("function f(): ...A end"), "function f(): ...A {}");
        assert_eq!(ps("function f(): () end"), "function f(): pack() {}");
        assert_eq!(ps("function f(): typeof(x) return x end"), "function f(): typeof(x) {return x}");
        assert_eq!(ps("function f(a: A): A return a end"), "function f(a: A): A {return a}");
        // the return annotation ends where a statement begins
        assert_eq!(ps("function f(): A g() end"), "function f(): A {call g()}");
        assert_eq!(ps("local x: A y = 1"), "local x: A; y = 1");
        // `x :: T < b` is read as generic arguments, as in the reference parser
        assert!(parse("local c = a :: T < b", Mode::Luau).is_err());
        assert_eq!(ps("local c = (a :: T) < b"), "local c = (P[(a :: T)] < b)");
        // `>=` is one token
        assert!(parse("local x: T<A>= 1", Mode::Luau).is_err());
        assert_eq!(ps("local x: T<A> = 1"), "local x: T<A> = 1");
        for s in [
            "local a: = 1",
            "local a: 1 = 1",
            "local a: (A, B) = 1",
            "local a: T... = 1",
            "local a: ...T = 1",
            "function f(a: ) end",
            "function f(): end",
            "function f(): A, B end",
            "function f() -> A end",
            "function f(...: ) end",
            "function f(... : T..., a) end",
            "for i: = 1, 2 do end",
            "function f<>() end",
            "function f<T>.g() end",
            "local x = f<T>()",
            "a.b: T = 1",
            "x = 1 :: ",
            "local function f(a: A = 1) end",
        ] {
            assert!(parse(s, Mode::Luau).is_err(), "should reject {:?}", s);
        }
    }

    #[test]
    fn lua51_rejects_every_luau_construct() {
        let cases = [
            "local a: number = 1",
            "local a: number",
            "function f(a: number) end",
            "function f(): number end",
            "function f<T>() end",
            "function f(...: number) end",
            "for i: number = 1, 2 do end",
            "for k: string in t do end",
            "local x = y :: T",
            "type A = number",
            "export type A = number",
            "type function f() end",
            "local x = f<<T>>()",
            "a += 1",
            "a -= 1",
            "a *= 1",
            "a /= 1",
            "a //= 1",
            "a %= 1",
            "a ^= 1",
            "a ..= 'x'",
            "while true do continue end",
            "local x = if a then b else c",
            "local x = `abc`",
            "local x = `a{b}c`",
            "local x = a // b",
            "@native function f() end",
            "@[native] function f() end",
            "local f = @native function() end",
            "const a = 1",
            "const function f() end",
            "local x = 0b101",
            "local x = 1_000",
            "local x = 0x_ff",
            "local x = '\\x41'",
            "local x = '\\z  a'",
            "local x = '\\u{41}'",
            "f '\\x41'",
            "x = {['\\x41'] = 1}",
        ];
        for s in cases {
            assert!(parse(s, Mode::Luau).is_ok(), "Luau should accept {:?}: {:?}", s, parse(s, Mode::Luau).err());
            assert!(parse(s, Mode::Lua51).is_err(), "5.1 should reject {:?}", s);
        }
        // the 5.1 counterparts are fine
        for s in ["local x = '\\\\x41'", "local x = 0xff", "local x = a / b", "local x = [[\\x41]]", "continue = 1", "continue()"] {
            assert!(parse(s, Mode::Lua51).is_ok(), "{:?}", s);
        }
    }

    #[test]
    fn ambiguous_call_rule() {
        let amb = ["f\n(g)()", "local a = f\n(g).x = 1", "a.b\n(c)", "f()\n(g)()", "f 'x'\n(g)()", "f [[a\nb]]\n(g)()", "a = b -- c\n(d)()", "a:b\n(c)"];
        for s in amb {
            assert!(parse(s, Mode::Lua51).is_err(), "5.1 should reject {:?}", s);
        }
        // Luau mode parses them as calls and records the offsets
        let o = parse("f\n(g)()", Mode::Luau).unwrap();
        assert_eq!(dump::block(&o.block), "call f(g)()");
        assert_eq!(o.ambiguous_calls, vec![2]);
        let o = parse("a = b\n(c)()", Mode::Luau).unwrap();
        assert_eq!(dump::block(&o.block), "a = b(c)()");
        assert_eq!(o.ambiguous_calls, vec![6]);
        // not ambiguous
        for s in [
            "f(g)()",
            "f(\ng\n)(\n)",
            "f\n{g}",
            "f\n'x'",
            "f [[a\nb]] (g)",
            "a = b;\n(c)()",
            "local a = f\nlocal b = (g)",
            "f\n.x()",
            "f(\n)",
            "f(function()\nend)(g)",
            "do end\n(f)()",
            "a = {\n}\n;(f)()",
        ] {
            let o51 = parse(s, Mode::Lua51).unwrap_or_else(|e| panic!("{:?}: {}", s, e));
            let o = parse(s, Mode::Luau).unwrap();
            assert_eq!(o.block, o51.block);
            assert!(o.ambiguous_calls.is_empty(), "{:?}", s);
        }
    }

    fn spans(src: &str) -> Vec<&str> {
        let o = parse(src, Mode::Luau).unwrap_or_else(|e| panic!("{:?}: {}", src, e));
        for w in o.type_spans.windows(2) {
            assert!(w[0].1 <= w[1].0);
        }
        o.type_spans.iter().map(|&(a, b)| &src[a..b]).collect()
    }

    #[test]
    fn type_spans() {
        assert_eq!(spans("local a = 1"), Vec::<&str>::new());
        assert_eq!(spans("local a: number = 1"), vec![": number"]);
        assert_eq!(spans("local a : number , b:string?=1"), vec![": number", ":string?"]);
        assert_eq!(spans("local a --[[c]] : --[[d]] number --[[e]] = 1"), vec![": --[[d]] number"]);
        assert_eq!(
            spans("function f<T>(a: T, ...: T): (T, T) return a :: T end"),
            vec!["<T>", ": T", ": T", ": (T, T)", ":: T"]
        );
        assert_eq!(spans("local function f < T , U... > () end"), vec!["< T , U... >"]);
        assert_eq!(spans("local f = function<T>(): T end"), vec!["<T>", ": T"]);
        assert_eq!(spans("for i: number = 1, 2 do end for k: K, v: V in t do end"), vec![": number", ": K", ": V"]);
        assert_eq!(spans("x = f<<A, B<C>>>(1)"), vec!["<<A, B<C>>>"]);
        assert_eq!(spans("x = f < < A > > (1)"), vec!["< < A > >"]);
        assert_eq!(spans("x = (y :: A) :: B | C"), vec![":: A", ":: B | C"]);
        assert_eq!(spans("type A = number\nlocal x = 1"), vec!["type A = number"]);
        assert_eq!(spans("x = 1 export type A<T = number> = {T} x = 2"), vec!["export type A<T = number> = {T}"]);
        assert_eq!(spans("export  --[[c]]  type A = B"), vec!["export  --[[c]]  type A = B"]);
        assert_eq!(
            spans("type function f(a: number): number return a :: any end x = 1"),
            vec!["type function f(a: number): number return a :: any end"]
        );
        // nested type syntax is part of the outer span
        assert_eq!(
            spans("local x: typeof(function(a: number): string return a :: any end) = 1"),
            vec![": typeof(function(a: number): string return a :: any end)"]
        );
        assert_eq!(spans("local f: <T>(a: T) -> T = g"), vec![": <T>(a: T) -> T"]);
        assert_eq!(spans("const a: number = 1"), vec![": number"]);
        assert_eq!(spans("function f(...: T...) end"), vec![": T..."]);
        // a function body inside a cast's operand is outside the span of the cast
        assert_eq!(spans("x = (function(a: A) end) :: F"), vec![": A", ":: F"]);
        // removing the spans leaves valid untyped code
        let src = "local function f<T>(a: T, b: number?): (T, number)\n  local c: T = a :: T\n  return c, b :: number\nend\ntype X = number\nfor i: number = 1, 2 do end";
        let o = parse(src, Mode::Luau).unwrap();
        let mut stripped = String::new();
        let mut at = 0;
        for &(a, b) in &o.type_spans {
            stripped.push_str(&src[at..a]);
            at = b;
        }
        stripped.push_str(&src[at..]);
        let o2 = parse(&stripped, Mode::Lua51).unwrap_or_else(|e| panic!("{:?}: {}", stripped, e));
        assert_eq!(dump::block(&o2.block), "local function f(a, b) {local c = a; return c, b}; for i = 1, 2 {}");
    }

    #[test]
    fn parse_output_carries_tokens_and_comments() {
        let src = "#!shebang\n-- c1\nlocal a = 1 --[[c2]] return a";
        let o = parse(src, Mode::Lua51).unwrap();
        assert_eq!(o.shebang.as_deref(), Some("#!shebang"));
        let texts: Vec<&str> = o.tokens.iter().map(|t| t.text.as_str()).collect();
        assert_eq!(texts, vec!["local", "a", "=", "1", "return", "a", ""]);
        assert_eq!(o.tokens.last().unwrap().kind, TokKind::Eof);
        let cs: Vec<&str> = o.comments.iter().map(|c| c.text.as_str()).collect();
        assert_eq!(cs, vec!["-- c1", "--[[c2]]"]);
    }

    /// The first attempt (on the caller's stack) must be frugal: everything that parses within
    /// `TIER1_DEPTH` levels fits in 512 KiB, deeper inputs move to the parser's own thread.
    #[test]
    fn small_caller_stack_is_enough() {
        let h = std::thread::Builder::new()
            .stack_size(512 << 10)
            .spawn(|| {
                for n in [TIER1_DEPTH - 2, TIER1_DEPTH + 50, MAX_DEPTH - 10, 5000] {
                    let ok = n < MAX_DEPTH - 5;
                    let srcs = [
                        format!("x = {}1{}", "f(".repeat(n), ")".repeat(n)),
                        format!("x = {}1{}", "(".repeat(n), ")".repeat(n)),
                        format!("x = {}1{}", "a[".repeat(n), "]".repeat(n)),
                        format!("x = {}{}", "{".repeat(n), "}".repeat(n)),
                        format!("{}{}", "if a then ".repeat(n), "end ".repeat(n)),
                        format!("{}{}", "do ".repeat(n), "end ".repeat(n)),
                        format!("x = {}1", "if a then b else ".repeat(n)),
                        format!("x = {}1{}", "`{".repeat(n), "}`".repeat(n)),
                        format!("x = {}{}", "function() return ".repeat(n / 2), " end".repeat(n / 2)),
                        format!("type X = {}A{}", "{".repeat(n / 2), "}".repeat(n / 2)),
                        format!("x = {}1", "a ^ ".repeat(n)),
                        format!("x = {}1", "- ".repeat(n)),
                    ];
                    for s in &srcs {
                        assert_eq!(parse(s, Mode::Luau).is_ok(), ok, "n = {}: {:.60}", n, s);
                    }
                }
            })
            .unwrap();
        h.join().unwrap();
    }

    #[test]
    fn nesting_limits() {
        // recursion depth: MAX_DEPTH levels are fine on a default 2 MiB test thread, more is an error
        let deep = |n: usize| format!("x = {}1{}", "(".repeat(n), ")".repeat(n));
        assert!(parse(&deep(MAX_DEPTH - 5), Mode::Luau).is_ok());
        assert!(parse(&deep(MAX_DEPTH + 5), Mode::Luau).is_err());
        assert!(parse(&deep(100_000), Mode::Luau).is_err());
        let deep_tbl = |n: usize| format!("x = {}{}", "{".repeat(n), "}".repeat(n));
        assert!(parse(&deep_tbl(MAX_DEPTH - 5), Mode::Lua51).is_ok());
        assert!(parse(&deep_tbl(100_000), Mode::Lua51).is_err());
        let deep_blocks = |n: usize| format!("{}{}", "do ".repeat(n), "end ".repeat(n));
        assert!(parse(&deep_blocks(MAX_DEPTH - 5), Mode::Lua51).is_ok());
        assert!(parse(&deep_blocks(100_000), Mode::Lua51).is_err());
        let deep_fn = |n: usize| format!("x = {}{}", "function() return ".repeat(n), " end".repeat(n));
        assert!(parse(&deep_fn(60), Mode::Lua51).is_ok());
        assert!(parse(&deep_fn(100_000), Mode::Lua51).is_err());
        let deep_unary = |n: usize| format!("x = {}1", "- ".repeat(n));
        assert!(parse(&deep_unary(MAX_DEPTH - 5), Mode::Lua51).is_ok());
        assert!(parse(&deep_unary(100_000), Mode::Lua51).is_err());
        // `..` chains are folded iteratively: they count as a chain, not as nesting levels
        let deep_concat = |n: usize| format!("x = {}1", "a .. ".repeat(n));
        assert!(parse(&deep_concat(MAX_DEPTH + 100), Mode::Lua51).is_ok());
        let o = parse(&deep_concat(MAX_CHAIN), Mode::Lua51).unwrap();
        assert_eq!(crate::luasyn::census::census(&o.block).max_nesting, 2 + MAX_CHAIN + 1);
        assert!(parse(&deep_concat(MAX_CHAIN + 1), Mode::Lua51).is_err());
        assert!(parse(&deep_concat(100_000), Mode::Lua51).is_err());
        let deep_pow = |n: usize| format!("x = {}1", "a ^ ".repeat(n));
        assert!(parse(&deep_pow(MAX_DEPTH - 5), Mode::Lua51).is_ok());
        assert!(parse(&deep_pow(100_000), Mode::Lua51).is_err());
        let deep_type = |n: usize| format!("type X = {}A{}", "{".repeat(n), "}".repeat(n));
        assert!(parse(&deep_type(50), Mode::Luau).is_ok());
        assert!(parse(&deep_type(100_000), Mode::Luau).is_err());
        let deep_fn_type = |n: usize| format!("type X = {}A", "() -> ".repeat(n));
        assert!(parse(&deep_fn_type(50), Mode::Luau).is_ok());
        assert!(parse(&deep_fn_type(100_000), Mode::Luau).is_err());
        let deep_interp = |n: usize| format!("x = {}1{}", "`{".repeat(n), "}`".repeat(n));
        assert!(parse(&deep_interp(50), Mode::Luau).is_ok());
        assert!(parse(&deep_interp(100_000), Mode::Luau).is_err());
        let deep_if = |n: usize| format!("x = {}1", "if a then b else ".repeat(n));
        assert!(parse(&deep_if(50), Mode::Luau).is_ok());
        assert!(parse(&deep_if(100_000), Mode::Luau).is_err());
        // left-nesting chains: bounded by MAX_CHAIN
        let chain = |n: usize| format!("x = 1{}", " + 1".repeat(n));
        assert!(parse(&chain(MAX_CHAIN - 1), Mode::Lua51).is_ok());
        assert!(parse(&chain(100_000), Mode::Lua51).is_err());
        let calls = |n: usize| format!("f{}", "()".repeat(n));
        assert!(parse(&calls(MAX_CHAIN - 1), Mode::Lua51).is_ok());
        assert!(parse(&calls(100_000), Mode::Lua51).is_err());
        let fields = |n: usize| format!("x = a{}", ".b".repeat(n));
        assert!(parse(&fields(MAX_CHAIN - 1), Mode::Lua51).is_ok());
        assert!(parse(&fields(100_000), Mode::Lua51).is_err());
        let opt = |n: usize| format!("type X = A{}", "?".repeat(n));
        assert!(parse(&opt(MAX_CHAIN - 1), Mode::Luau).is_ok());
        assert!(parse(&opt(100_000), Mode::Luau).is_err());
        // long flat lists are fine
        let many = "x = 1\n".repeat(20_000);
        assert_eq!(parse(&many, Mode::Lua51).unwrap().block.stmts.len(), 20_000);
        let wide = format!("x = {{{}}}", "1,".repeat(50_000));
        assert!(parse(&wide, Mode::Lua51).is_ok());
        let union = format!("type X = A{}", " | A".repeat(5000));
        assert!(parse(&union, Mode::Luau).is_ok());
        // chains inside chains add up along a path ...
        let nested = |n: usize| format!("x = (1{}){}", " + 1".repeat(n), " + 1".repeat(n));
        assert!(parse(&nested(600), Mode::Lua51).is_err());
        assert!(parse(&nested(400), Mode::Lua51).is_ok());
        let nested = |n: usize| format!("x = f(1{}){}", " + 1".repeat(n), ".a".repeat(n));
        assert!(parse(&nested(600), Mode::Lua51).is_err());
        assert!(parse(&nested(400), Mode::Lua51).is_ok());
        let nested = |n: usize| format!("x = a[1{}]{}{}", " .. 1".repeat(150), "()".repeat(n), " + 1".repeat(n));
        assert!(parse(&nested(500), Mode::Lua51).is_err());
        assert!(parse(&nested(400), Mode::Lua51).is_ok());
        // (an operand in the middle of a chain only counts with the part of the chain above it)
        let middle = format!("x = 1{} + (1{}){}", " + 1".repeat(400), " + 1".repeat(400), " + 1".repeat(400));
        assert!(parse(&middle, Mode::Lua51).is_ok());
        // ... but not across siblings
        let siblings = format!("x = {{{}}}", format!("1{},", " + 1".repeat(900)).repeat(20));
        assert!(parse(&siblings, Mode::Lua51).is_ok());
        let siblings = format!("{}", format!("x = a{}
", ".b".repeat(900)).repeat(20));
        assert!(parse(&siblings, Mode::Lua51).is_ok());
        // the census reports the depth actually reached
        let o = parse(&chain(MAX_CHAIN - 1), Mode::Lua51).unwrap();
        assert_eq!(crate::luasyn::census::census(&o.block).max_nesting, 2 + MAX_CHAIN);
    }
}

#[cfg(test)]
mod robustness {
    use super::*;

    struct Rng(u64);
    impl Rng {
        fn next(&mut self) -> u64 {
            self.0 = self.0.wrapping_mul(6364136223846793005).wrapping_add(1442695040888963407);
            self.0 >> 33
        }
        fn below(&mut self, n: usize) -> usize {
            (self.next() % n as u64) as usize
        }
    }

    const VOCAB: &[&str] = &[
        "a", "b", "f", "type", "export", "continue", "const", "typeof", "read", "write", "self", "T", "number", "and", "break", "do", "else",
        "elseif", "end", "false", "for", "function", "if", "in", "local", "nil", "not", "or", "repeat", "return", "then", "true", "until",
        "while", "1", "0x1F", "0b1", "1_0", ".5", "1e3", "'s'", "\"\\x41\"", "[[x]]", "[=[y]=]", "`a`", "`a{", "}b{", "}c`", "...", "..", "..=",
        "==", "~=", "<=", ">=", "::", "->", "+=", "-=", "*=", "/=", "//", "//=", "%=", "^=", "+", "-", "*", "/", "%", "^", "#", "<", ">", "=",
        "(", ")", "{", "}", "[", "]", ";", ":", ",", ".", "?", "|", "&", "@", "\n", "-- c\n", "--[[ c ]]", "@native", "<<", ">>",
    ];

    /// The parser must never panic, loop or overflow, whatever the token sequence.
    #[test]
    fn random_token_soup_never_panics() {
        let mut rng = Rng(0x1234_5678_9abc_def0);
        let mut accepted = 0;
        for _ in 0..30_000 {
            let n = 1 + rng.below(24);
            let mut src = String::new();
            for _ in 0..n {
                src.push_str(VOCAB[rng.below(VOCAB.len())]);
                src.push(' ');
            }
            for mode in [Mode::Luau, Mode::Lua51] {
                if let Ok(o) = parse(&src, mode) {
                    accepted += 1;
                    let _ = crate::luasyn::census::census(&o.block);
                    let _ = crate::luasyn::resolve::resolve(&o.block);
                    for w in o.type_spans.windows(2) {
                        assert!(w[0].1 <= w[1].0, "{:?}", src);
                    }
                    // whatever 5.1 mode accepts, Luau mode accepts with the same tree
                    if mode == Mode::Lua51 {
                        let l = parse(&src, Mode::Luau).unwrap_or_else(|e| panic!("5.1 ok, Luau not: {:?}: {}", src, e));
                        assert_eq!(l.block, o.block, "{:?}", src);
                        assert!(l.type_spans.is_empty());
                        assert!(!crate::luasyn::census::census(&l.block).any_luau(), "{:?}", src);
                    }
                }
                let _ = parse_expr(&src, mode);
            }
        }
        assert!(accepted > 100, "only {} random programs were accepted", accepted);
    }

    /// Token-level mutations of valid programs: delete / duplicate / swap tokens.
    #[test]
    fn mutated_programs_never_panic() {
        let seeds = [
            "local function f<T>(a: T, ...: T): (T, T) if a then return a :: T, a else for i = 1, 2 do continue end end return a, a end",
            "type A<T, U... = ...number> = { read x: T, [string]: (T, U...) -> () } | nil export type B = typeof(f(`a{1}b`))",
            "local t = { a = 1, [2] = function(...) return ... end, f'x', g{}, h:m(1)[2].z } t.a.b, c = 1, 2 x += y // 2",
            "repeat local x = if a then b elseif c then d else e until x while true do break end @native function a.b:c() end",
            "const x: number = 0b1_0 const function g() end f<<T, (A, B)>>(1) local s = `x{ {1} }y{`z{2}`}`",
        ];
        let mut rng = Rng(42);
        for seed in seeds {
            assert!(parse(seed, Mode::Luau).is_ok(), "{:?}: {:?}", seed, parse(seed, Mode::Luau).err());
            let toks: Vec<String> = lex(seed, Mode::Luau).unwrap().tokens.iter().map(|t| t.text.clone()).collect();
            for _ in 0..4000 {
                let mut v = toks.clone();
                for _ in 0..1 + rng.below(3) {
                    if v.is_empty() {
                        break;
                    }
                    let i = rng.below(v.len());
                    match rng.below(4) {
                        0 => {
                            v.remove(i);
                        }
                        1 => {
                            let t = v[i].clone();
                            v.insert(i, t);
                        }
                        2 => {
                            let j = rng.below(v.len());
                            v.swap(i, j);
                        }
                        _ => v[i] = VOCAB[rng.below(VOCAB.len())].to_string(),
                    }
                }
                let src = v.join(" ");
                for mode in [Mode::Luau, Mode::Lua51] {
                    let _ = parse(&src, mode);
                }
            }
        }
    }

    /// Arbitrary bytes (valid UTF-8) through the lexer and parser.
    #[test]
    fn random_characters_never_panic() {
        let alphabet: Vec<char> = "ab1 \n\r\t\"'`[]={}()\\-.<>:/|&?@#%^*+~,;_xzu0é\u{feff}\0".chars().collect();
        let mut rng = Rng(7);
        for _ in 0..30_000 {
            let n = rng.below(16);
            let src: String = (0..n).map(|_| alphabet[rng.below(alphabet.len())]).collect();
            for mode in [Mode::Luau, Mode::Lua51] {
                if let Ok(o) = lex(&src, mode) {
                    for t in &o.tokens {
                        assert_eq!(&src[t.start..t.end], t.text);
                    }
                    for c in &o.comments {
                        assert_eq!(&src[c.start..c.end], c.text);
                    }
                }
                let _ = parse(&src, mode);
            }
        }
    }
}
