//! Hand-written recursive-descent parser for Lua 5.1 and Luau producing `ast.rs` trees.
//! Independent of darklua / full_moon.
//!
//! Grammar sources: Lua 5.1 reference manual §8 and `lparser.c` behaviour (ambiguous call rule,
//! `return`/`break` last in block, `...` only in vararg functions, `break` only in loops, 200
//! nesting levels); Luau grammar (luau.org/grammar) and the behaviour of the reference Luau parser.

use crate::luasyn::ast::*;
use crate::luasyn::lex::{lex, Comment, TokKind, Token};
use crate::luasyn::literal;
use crate::luasyn::{Mode, SynError};

/// Maximum syntactic nesting (recursion) depth, as in Lua 5.1 (`LUAI_MAXCCALLS`).
pub const MAX_DEPTH: usize = 200;
/// Maximum length of a non-recursive chain that nests the tree to the left (binary operator
/// chains, call/index suffix chains, `T???`); keeps tree depth bounded for recursive consumers.
pub const MAX_CHAIN: usize = 1000;

#[derive(Clone, Debug)]
pub struct ParseOutput {
    pub block: Block,
    pub tokens: Vec<Token>,
    pub comments: Vec<Comment>,
    /// byte spans `[start, end)` of every maximal piece of type syntax in the source: `: T`
    /// annotations (from the colon), `: R` return annotations, generic parameter lists `<T>` on
    /// functions, the `:: T` of a cast, `<<T>>` instantiations, and whole `type` / `export type` /
    /// `type function` statements.  Sorted, non-overlapping.
    pub type_spans: Vec<(usize, usize)>,
    pub shebang: Option<String>,
    /// Luau mode only: byte offsets of every `(` that starts call arguments on a different line
    /// than the end of the callee (Lua 5.1 mode rejects these; the reference Luau parser reports
    /// "ambiguous syntax" for them too, but here they are parsed as calls).
    pub ambiguous_calls: Vec<usize>,
}

/// Context checks that the reference implementations perform while parsing.  All enabled by
/// default (`parse`); `parse_with_options` can relax them.
#[derive(Clone, Copy, Debug, PartialEq, Eq)]
pub struct ParseOptions {
    /// `break` (both modes) and `continue` (Luau) must be inside a loop of the same function
    pub check_loop_context: bool,
    /// `...` may only be used inside a vararg function (or the main chunk)
    pub check_vararg_context: bool,
}

impl Default for ParseOptions {
    fn default() -> Self {
        ParseOptions { check_loop_context: true, check_vararg_context: true }
    }
}

struct FuncState {
    vararg: bool,
    loop_depth: usize,
}

enum TypeOrPack {
    Type(Type),
    Pack(TypePack),
}

struct Parser {
    mode: Mode,
    opts: ParseOptions,
    toks: Vec<Token>,
    i: usize,
    type_spans: Vec<(usize, usize)>,
    type_depth: usize,
    funcs: Vec<FuncState>,
    depth: usize,
    ambiguous_calls: Vec<usize>,
}

type PResult<T> = Result<T, SynError>;

fn compound_op(text: &str) -> Option<BinOp> {
    Some(match text {
        "+=" => BinOp::Add,
        "-=" => BinOp::Sub,
        "*=" => BinOp::Mul,
        "/=" => BinOp::Div,
        "//=" => BinOp::IDiv,
        "%=" => BinOp::Mod,
        "^=" => BinOp::Pow,
        "..=" => BinOp::Concat,
        _ => return None,
    })
}

impl Parser {
    // ------------------------------------------------------------------------- token helpers

    fn luau(&self) -> bool {
        self.mode == Mode::Luau
    }

    fn cur(&self) -> &Token {
        &self.toks[self.i]
    }

    fn peek(&self, n: usize) -> &Token {
        let k = (self.i + n).min(self.toks.len() - 1);
        &self.toks[k]
    }

    fn prev_end(&self) -> usize {
        if self.i == 0 {
            0
        } else {
            self.toks[self.i - 1].end
        }
    }

    fn advance(&mut self) {
        if self.i + 1 < self.toks.len() {
            self.i += 1;
        }
    }

    fn is_sym(t: &Token, s: &str) -> bool {
        t.kind == TokKind::Symbol && t.text == s
    }

    fn is_kw(t: &Token, s: &str) -> bool {
        t.kind == TokKind::Keyword && t.text == s
    }

    fn check_sym(&self, s: &str) -> bool {
        Self::is_sym(self.cur(), s)
    }

    fn check_kw(&self, s: &str) -> bool {
        Self::is_kw(self.cur(), s)
    }

    /// current token is the (contextual) name `s`
    fn check_name(&self, s: &str) -> bool {
        self.cur().kind == TokKind::Name && self.cur().text == s
    }

    fn accept_sym(&mut self, s: &str) -> bool {
        if self.check_sym(s) {
            self.advance();
            true
        } else {
            false
        }
    }

    fn accept_kw(&mut self, s: &str) -> bool {
        if self.check_kw(s) {
            self.advance();
            true
        } else {
            false
        }
    }

    fn describe(t: &Token) -> String {
        match t.kind {
            TokKind::Eof => "<eof>".to_string(),
            _ => {
                let mut s: String = t.text.chars().take(40).collect();
                if s.len() < t.text.len() {
                    s.push_str("...");
                }
                format!("'{}'", s)
            }
        }
    }

    fn err<T>(&self, msg: impl Into<String>) -> PResult<T> {
        let t = self.cur();
        Err(SynError { msg: msg.into(), pos: t.start, line: t.line })
    }

    fn err_expected<T>(&self, what: &str) -> PResult<T> {
        self.err(format!("expected {} near {}", what, Self::describe(self.cur())))
    }

    fn expect_sym(&mut self, s: &str) -> PResult<()> {
        if self.accept_sym(s) {
            Ok(())
        } else {
            self.err_expected(&format!("'{}'", s))
        }
    }

    fn expect_kw(&mut self, s: &str) -> PResult<()> {
        if self.accept_kw(s) {
            Ok(())
        } else {
            self.err_expected(&format!("'{}'", s))
        }
    }

    /// `expect` for a closing keyword/symbol, mentioning the opener like the reference parsers
    fn expect_kw_match(&mut self, what: &str, opener: &str, open_line: u32) -> PResult<()> {
        if self.accept_kw(what) {
            Ok(())
        } else {
            self.err(format!(
                "expected '{}' (to close '{}' at line {}) near {}",
                what,
                opener,
                open_line,
                Self::describe(self.cur())
            ))
        }
    }

    fn expect_name(&mut self, what: &str) -> PResult<String> {
        if self.cur().kind == TokKind::Name {
            let s = self.cur().text.clone();
            self.advance();
            Ok(s)
        } else {
            self.err_expected(what)
        }
    }

    fn enter(&mut self) -> PResult<()> {
        self.depth += 1;
        if self.depth > MAX_DEPTH {
            return self.err(format!("chunk has too many syntax levels (limit {})", MAX_DEPTH));
        }
        Ok(())
    }

    fn leave(&mut self) {
        self.depth -= 1;
    }

    fn chain_tick(&self, n: &mut usize) -> PResult<()> {
        *n += 1;
        if *n > MAX_CHAIN {
            return self.err(format!("expression chain too long (limit {})", MAX_CHAIN));
        }
        Ok(())
    }

    // ------------------------------------------------------------------------- type spans

    /// Starts a piece of type syntax at byte offset `start`.
    fn span_begin(&mut self, start: usize) -> Option<usize> {
        self.type_depth += 1;
        if self.type_depth == 1 {
            Some(start)
        } else {
            None
        }
    }

    fn span_end(&mut self, token: Option<usize>) {
        self.type_depth -= 1;
        if let Some(start) = token {
            debug_assert_eq!(self.type_depth, 0);
            let end = self.prev_end();
            self.type_spans.push((start, end));
        }
    }

    // ------------------------------------------------------------------------- blocks

    fn block_follow(&self) -> bool {
        let t = self.cur();
        match t.kind {
            TokKind::Eof => true,
            TokKind::Keyword => matches!(t.text.as_str(), "else" | "elseif" | "end" | "until"),
            _ => false,
        }
    }

    fn parse_block(&mut self) -> PResult<Block> {
        let mut stmts = Vec::new();
        while !self.block_follow() {
            if self.check_kw("return") {
                self.advance();
                let mut exprs = Vec::new();
                if !self.block_follow() && !self.check_sym(";") {
                    exprs = self.parse_expr_list()?;
                }
                self.accept_sym(";");
                stmts.push(Stmt::Return(exprs));
                break;
            }
            let stmt = self.parse_stat()?;
            self.accept_sym(";");
            let last = matches!(stmt, Stmt::Break | Stmt::Continue);
            stmts.push(stmt);
            if last {
                break;
            }
        }
        Ok(Block { stmts })
    }

    fn parse_loop_body(&mut self) -> PResult<Block> {
        self.funcs.last_mut().unwrap().loop_depth += 1;
        let b = self.parse_block()?;
        self.funcs.last_mut().unwrap().loop_depth -= 1;
        Ok(b)
    }

    // ------------------------------------------------------------------------- statements

    fn parse_stat(&mut self) -> PResult<Stmt> {
        self.enter()?;
        let r = self.parse_stat_inner()?;
        self.leave();
        Ok(r)
    }

    fn parse_stat_inner(&mut self) -> PResult<Stmt> {
        let t = self.cur();
        let line = t.line;
        if t.kind == TokKind::Keyword {
            match t.text.as_str() {
                "if" => return self.parse_if(),
                "while" => {
                    self.advance();
                    let cond = self.parse_expr()?;
                    self.expect_kw("do")?;
                    let body = self.parse_loop_body()?;
                    self.expect_kw_match("end", "while", line)?;
                    return Ok(Stmt::While { cond, body });
                }
                "do" => {
                    self.advance();
                    let body = self.parse_block()?;
                    self.expect_kw_match("end", "do", line)?;
                    return Ok(Stmt::Do(body));
                }
                "for" => return self.parse_for(),
                "repeat" => {
                    self.advance();
                    let body = self.parse_loop_body()?;
                    self.expect_kw_match("until", "repeat", line)?;
                    let cond = self.parse_expr()?;
                    return Ok(Stmt::Repeat { body, cond });
                }
                "function" => {
                    self.advance();
                    return self.parse_function_stat(Vec::new());
                }
                "local" => {
                    self.advance();
                    return self.parse_local(Vec::new());
                }
                "break" => {
                    if self.opts.check_loop_context && self.funcs.last().unwrap().loop_depth == 0 {
                        return self.err("no loop to break");
                    }
                    self.advance();
                    return Ok(Stmt::Break);
                }
                "return" => unreachable!("handled by parse_block"),
                _ => return self.err_expected("statement"),
            }
        }
        if self.luau() && self.check_sym("@") {
            let attrs = self.parse_attributes()?;
            if self.accept_kw("function") {
                return self.parse_function_stat(attrs);
            }
            if self.accept_kw("local") {
                if !self.check_kw("function") {
                    return self.err_expected("'function' after local declaration with attribute");
                }
                return self.parse_local(attrs);
            }
            return self.err_expected("'function' or 'local function' after attribute");
        }
        self.parse_expr_stat()
    }

    fn parse_if(&mut self) -> PResult<Stmt> {
        let line = self.cur().line;
        self.advance(); // if
        let mut clauses = Vec::new();
        let cond = self.parse_expr()?;
        self.expect_kw("then")?;
        let body = self.parse_block()?;
        clauses.push((cond, body));
        let mut else_ = None;
        loop {
            if self.accept_kw("elseif") {
                let cond = self.parse_expr()?;
                self.expect_kw("then")?;
                let body = self.parse_block()?;
                clauses.push((cond, body));
            } else if self.accept_kw("else") {
                else_ = Some(self.parse_block()?);
                self.expect_kw_match("end", "if", line)?;
                break;
            } else {
                self.expect_kw_match("end", "if", line)?;
                break;
            }
        }
        Ok(Stmt::If { clauses, else_ })
    }

    fn parse_binding(&mut self) -> PResult<Binding> {
        let name = self.expect_name("name")?;
        let ty = self.parse_opt_annotation()?;
        Ok(Binding { name, ty })
    }

    /// optional `: T`
    fn parse_opt_annotation(&mut self) -> PResult<Option<Type>> {
        if self.luau() && self.check_sym(":") {
            let sp = self.span_begin(self.cur().start);
            self.advance();
            let ty = self.parse_type()?;
            self.span_end(sp);
            Ok(Some(ty))
        } else {
            Ok(None)
        }
    }

    fn parse_for(&mut self) -> PResult<Stmt> {
        let line = self.cur().line;
        self.advance(); // for
        let first = self.parse_binding()?;
        if self.accept_sym("=") {
            let start = self.parse_expr()?;
            self.expect_sym(",")?;
            let limit = self.parse_expr()?;
            let step = if self.accept_sym(",") { Some(self.parse_expr()?) } else { None };
            self.expect_kw("do")?;
            let body = self.parse_loop_body()?;
            self.expect_kw_match("end", "for", line)?;
            return Ok(Stmt::NumFor { var: first, start, limit, step, body });
        }
        let mut vars = vec![first];
        while self.accept_sym(",") {
            vars.push(self.parse_binding()?);
        }
        if !self.check_kw("in") {
            return self.err_expected("'=' or 'in'");
        }
        self.advance();
        let exprs = self.parse_expr_list()?;
        self.expect_kw("do")?;
        let body = self.parse_loop_body()?;
        self.expect_kw_match("end", "for", line)?;
        Ok(Stmt::GenFor { vars, exprs, body })
    }

    /// after `function`
    fn parse_function_stat(&mut self, attrs: Vec<Attribute>) -> PResult<Stmt> {
        let base = self.expect_name("function name")?;
        let mut fields = Vec::new();
        let mut method = None;
        loop {
            if self.check_sym(".") {
                self.advance();
                fields.push(self.expect_name("field name")?);
            } else if self.check_sym(":") {
                self.advance();
                method = Some(self.expect_name("method name")?);
                break;
            } else {
                break;
            }
        }
        let func = self.parse_func_body()?;
        Ok(Stmt::Function { attrs, name: FuncName { base, fields, method }, func })
    }

    /// after `local`
    fn parse_local(&mut self, attrs: Vec<Attribute>) -> PResult<Stmt> {
        if self.accept_kw("function") {
            let name = self.expect_name("function name")?;
            let func = self.parse_func_body()?;
            return Ok(Stmt::LocalFunction { attrs, is_const: false, name, func });
        }
        debug_assert!(attrs.is_empty());
        let mut names = vec![self.parse_binding()?];
        while self.accept_sym(",") {
            names.push(self.parse_binding()?);
        }
        let values = if self.accept_sym("=") { self.parse_expr_list()? } else { Vec::new() };
        Ok(Stmt::Local { is_const: false, names, values })
    }

    fn is_assignable(e: &Expr) -> bool {
        matches!(e, Expr::Name(_) | Expr::Index { .. } | Expr::Field { .. })
    }

    fn parse_expr_stat(&mut self) -> PResult<Stmt> {
        let start_tok = self.cur().clone();
        if !(start_tok.kind == TokKind::Name || Self::is_sym(&start_tok, "(")) {
            return self.err_expected("statement");
        }
        let expr = self.parse_primary_expr()?;
        if matches!(expr, Expr::Call { .. } | Expr::MethodCall { .. }) {
            return Ok(Stmt::Call(expr));
        }
        if self.check_sym(",") || self.check_sym("=") {
            let mut targets = vec![expr];
            while self.accept_sym(",") {
                targets.push(self.parse_primary_expr()?);
            }
            for t in &targets {
                if !Self::is_assignable(t) {
                    return self.err("syntax error: cannot assign to this expression");
                }
            }
            self.expect_sym("=")?;
            let values = self.parse_expr_list()?;
            return Ok(Stmt::Assign { targets, values });
        }
        if self.luau() && self.cur().kind == TokKind::Symbol {
            if let Some(op) = compound_op(&self.cur().text) {
                if !Self::is_assignable(&expr) {
                    return self.err("syntax error: cannot assign to this expression");
                }
                self.advance();
                let value = self.parse_expr()?;
                return Ok(Stmt::CompoundAssign { target: expr, op, value });
            }
        }
        if self.luau() {
            if let Expr::Name(n) = &expr {
                match n.as_str() {
                    "type" => return self.parse_type_alias(false, start_tok.start),
                    "export" if self.check_name("type") => {
                        self.advance();
                        return self.parse_type_alias(true, start_tok.start);
                    }
                    "continue" => {
                        if self.opts.check_loop_context && self.funcs.last().unwrap().loop_depth == 0 {
                            return Err(SynError {
                                msg: "continue statement must be inside a loop".to_string(),
                                pos: start_tok.start,
                                line: start_tok.line,
                            });
                        }
                        return Ok(Stmt::Continue);
                    }
                    "const" if self.cur().kind == TokKind::Name => {
                        let mut names = vec![self.parse_binding()?];
                        while self.accept_sym(",") {
                            names.push(self.parse_binding()?);
                        }
                        if !self.accept_sym("=") {
                            return self.err_expected("'=' (const declarations must be initialized)");
                        }
                        let values = self.parse_expr_list()?;
                        return Ok(Stmt::Local { is_const: true, names, values });
                    }
                    "const" if self.check_kw("function") => {
                        self.advance();
                        let name = self.expect_name("function name")?;
                        let func = self.parse_func_body()?;
                        return Ok(Stmt::LocalFunction { attrs: Vec::new(), is_const: true, name, func });
                    }
                    _ => {}
                }
            }
        }
        self.err(format!(
            "incomplete statement: expected assignment or a function call near {}",
            Self::describe(self.cur())
        ))
    }

    /// after the contextual `type` (and `export`); `start` = byte offset of the statement
    fn parse_type_alias(&mut self, export: bool, start: usize) -> PResult<Stmt> {
        let sp = self.span_begin(start);
        if self.accept_kw("function") {
            let name = self.expect_name("type function name")?;
            let func = self.parse_func_body()?;
            self.span_end(sp);
            return Ok(Stmt::TypeFunction { export, name, func });
        }
        let name = self.expect_name("type name")?;
        let generics = if self.check_sym("<") { Some(self.parse_generics_with_defaults()?) } else { None };
        self.expect_sym("=")?;
        let ty = self.parse_type()?;
        self.span_end(sp);
        Ok(Stmt::TypeDecl { export, name, generics, ty })
    }

    // ------------------------------------------------------------------------- attributes

    fn parse_attributes(&mut self) -> PResult<Vec<Attribute>> {
        let mut attrs = Vec::new();
        while self.check_sym("@") {
            let at_end = self.cur().end;
            self.advance();
            if self.cur().start != at_end {
                return self.err("attribute name must follow '@' immediately");
            }
            if self.cur().kind == TokKind::Name {
                attrs.push(Attribute::Name(self.cur().text.clone()));
                self.advance();
            } else if self.accept_sym("[") {
                let mut elems = Vec::new();
                loop {
                    let name = self.expect_name("attribute name")?;
                    let args = if self.accept_sym("(") {
                        let mut v = Vec::new();
                        if !self.check_sym(")") {
                            v = self.parse_expr_list()?;
                        }
                        self.expect_sym(")")?;
                        Some(AttributeArgs::Tuple(v))
                    } else if self.cur().kind == TokKind::Str {
                        let (_, value) = self.parse_string_token()?;
                        Some(AttributeArgs::Str(value))
                    } else if self.check_sym("{") {
                        Some(AttributeArgs::Table(self.parse_table()?))
                    } else {
                        None
                    };
                    elems.push(AttributeElement { name, args });
                    if !self.accept_sym(",") {
                        break;
                    }
                }
                self.expect_sym("]")?;
                attrs.push(Attribute::Group(elems));
            } else {
                return self.err_expected("attribute name or '[' after '@'");
            }
        }
        Ok(attrs)
    }

    // ------------------------------------------------------------------------- functions

    /// generics, parameters, return annotation, body, `end`
    fn parse_func_body(&mut self) -> PResult<FuncBody> {
        let line = self.cur().line;
        let generics = if self.luau() && self.check_sym("<") {
            let sp = self.span_begin(self.cur().start);
            let g = self.parse_generics_with_defaults_opt(false)?;
            self.span_end(sp);
            Some(Generics {
                types: g.types.into_iter().map(|(n, _)| n).collect(),
                packs: g.packs.into_iter().map(|(n, _)| n).collect(),
            })
        } else {
            None
        };
        self.expect_sym("(")?;
        let mut params = Vec::new();
        let mut vararg = false;
        let mut vararg_ty = None;
        if !self.check_sym(")") {
            loop {
                if self.check_sym("...") {
                    self.advance();
                    vararg = true;
                    if self.luau() && self.check_sym(":") {
                        let sp = self.span_begin(self.cur().start);
                        self.advance();
                        let ann = if self.cur().kind == TokKind::Name && Self::is_sym(self.peek(1), "...") {
                            let n = self.cur().text.clone();
                            self.advance();
                            self.advance();
                            VariadicAnnotation::GenericPack(n)
                        } else {
                            VariadicAnnotation::Type(self.parse_type()?)
                        };
                        self.span_end(sp);
                        vararg_ty = Some(Box::new(ann));
                    }
                    break;
                }
                params.push(self.parse_binding()?);
                if !self.accept_sym(",") {
                    break;
                }
            }
        }
        self.expect_sym(")")?;
        let ret_ty = if self.luau() && self.check_sym(":") {
            let sp = self.span_begin(self.cur().start);
            self.advance();
            let r = self.parse_return_type()?;
            self.span_end(sp);
            Some(Box::new(r))
        } else {
            None
        };
        self.funcs.push(FuncState { vararg, loop_depth: 0 });
        let body = self.parse_block()?;
        self.funcs.pop();
        self.expect_kw_match("end", "function", line)?;
        Ok(FuncBody { generics, params, vararg, vararg_ty, ret_ty, body })
    }

    // ------------------------------------------------------------------------- expressions

    fn parse_expr_list(&mut self) -> PResult<Vec<Expr>> {
        let mut v = vec![self.parse_expr()?];
        while self.accept_sym(",") {
            v.push(self.parse_expr()?);
        }
        Ok(v)
    }

    fn parse_expr(&mut self) -> PResult<Expr> {
        self.parse_subexpr(0)
    }

    fn cur_unop(&self) -> Option<UnOp> {
        let t = self.cur();
        match t.kind {
            TokKind::Keyword if t.text == "not" => Some(UnOp::Not),
            TokKind::Symbol if t.text == "-" => Some(UnOp::Neg),
            TokKind::Symbol if t.text == "#" => Some(UnOp::Len),
            _ => None,
        }
    }

    fn cur_binop(&self) -> Option<BinOp> {
        let t = self.cur();
        match t.kind {
            TokKind::Keyword => match t.text.as_str() {
                "and" => Some(BinOp::And),
                "or" => Some(BinOp::Or),
                _ => None,
            },
            TokKind::Symbol => Some(match t.text.as_str() {
                "+" => BinOp::Add,
                "-" => BinOp::Sub,
                "*" => BinOp::Mul,
                "/" => BinOp::Div,
                "//" => BinOp::IDiv,
                "%" => BinOp::Mod,
                "^" => BinOp::Pow,
                ".." => BinOp::Concat,
                "==" => BinOp::Eq,
                "~=" => BinOp::Ne,
                "<" => BinOp::Lt,
                "<=" => BinOp::Le,
                ">" => BinOp::Gt,
                ">=" => BinOp::Ge,
                _ => return None,
            }),
            _ => None,
        }
    }

    fn parse_subexpr(&mut self, limit: u8) -> PResult<Expr> {
        self.enter()?;
        let mut left = if let Some(op) = self.cur_unop() {
            self.advance();
            let operand = self.parse_subexpr(UNARY_PRIORITY)?;
            Expr::Unary(op, Box::new(operand))
        } else {
            self.parse_assertion_expr()?
        };
        let mut chain = 0;
        while let Some(op) = self.cur_binop() {
            let (l, r) = op.binding_power();
            if l <= limit {
                break;
            }
            self.chain_tick(&mut chain)?;
            self.advance();
            let right = self.parse_subexpr(r)?;
            left = Expr::Binary(op, Box::new(left), Box::new(right));
        }
        self.leave();
        Ok(left)
    }

    /// simple expression with an optional `:: T`
    fn parse_assertion_expr(&mut self) -> PResult<Expr> {
        let e = self.parse_simple_expr()?;
        if self.luau() && self.check_sym("::") {
            let sp = self.span_begin(self.cur().start);
            self.advance();
            let ty = self.parse_type()?;
            self.span_end(sp);
            return Ok(Expr::Cast { expr: Box::new(e), ty: Box::new(ty) });
        }
        Ok(e)
    }

    /// consumes a `Str` token, returning (raw, decoded)
    fn parse_string_token(&mut self) -> PResult<(String, Vec<u8>)> {
        debug_assert_eq!(self.cur().kind, TokKind::Str);
        let raw = self.cur().text.clone();
        if self.mode == Mode::Lua51 && literal::uses_luau_only_escape(&raw) {
            return self.err("string uses an escape sequence (\\x, \\z, \\u) that Lua 5.1 does not have");
        }
        let value = match literal::decode_string(&raw, self.mode) {
            Ok(v) => v,
            Err(m) => return self.err(format!("malformed string: {}", m)),
        };
        self.advance();
        Ok((raw, value))
    }

    fn parse_simple_expr(&mut self) -> PResult<Expr> {
        let t = self.cur();
        match t.kind {
            TokKind::Number => {
                let raw = t.text.clone();
                let value = match literal::decode_number(&raw, self.mode) {
                    Ok(v) => v,
                    Err(m) => return self.err(m),
                };
                self.advance();
                Ok(Expr::Number { raw, value })
            }
            TokKind::Str => {
                let (raw, value) = self.parse_string_token()?;
                Ok(Expr::Str { raw, value })
            }
            TokKind::InterpSimple | TokKind::InterpBegin => self.parse_interp(),
            TokKind::InterpMid | TokKind::InterpEnd => self.err_expected("expression"),
            TokKind::Keyword => match t.text.as_str() {
                "nil" => {
                    self.advance();
                    Ok(Expr::Nil)
                }
                "true" => {
                    self.advance();
                    Ok(Expr::True)
                }
                "false" => {
                    self.advance();
                    Ok(Expr::False)
                }
                "function" => {
                    self.advance();
                    let func = self.parse_func_body()?;
                    Ok(Expr::Function { attrs: Vec::new(), func: Box::new(func) })
                }
                "if" if self.luau() => self.parse_if_expr(),
                _ => self.err_expected("expression"),
            },
            TokKind::Symbol => match t.text.as_str() {
                "..." => {
                    if self.opts.check_vararg_context && !self.funcs.last().unwrap().vararg {
                        return self.err("cannot use '...' outside a vararg function");
                    }
                    self.advance();
                    Ok(Expr::Vararg)
                }
                "{" => self.parse_table(),
                "@" if self.luau() => {
                    let attrs = self.parse_attributes()?;
                    if !self.accept_kw("function") {
                        return self.err_expected("'function' after attribute");
                    }
                    let func = self.parse_func_body()?;
                    Ok(Expr::Function { attrs, func: Box::new(func) })
                }
                "(" => self.parse_primary_expr(),
                _ => self.err_expected("expression"),
            },
            TokKind::Name => self.parse_primary_expr(),
            TokKind::Eof => self.err_expected("expression"),
        }
    }

    fn parse_interp(&mut self) -> PResult<Expr> {
        let mut segs = Vec::new();
        let push_piece = |p: &Parser, segs: &mut Vec<InterpSeg>, text: &str| -> PResult<()> {
            let inner = &text[1..text.len() - 1];
            match literal::decode_interp_segment(inner) {
                Ok(v) => {
                    if !v.is_empty() {
                        segs.push(InterpSeg::Str(v));
                    }
                    Ok(())
                }
                Err(m) => p.err(format!("malformed interpolated string: {}", m)),
            }
        };
        let t = self.cur().clone();
        push_piece(self, &mut segs, &t.text)?;
        self.advance();
        if t.kind == TokKind::InterpSimple {
            return Ok(Expr::Interp(segs));
        }
        loop {
            if matches!(self.cur().kind, TokKind::InterpMid | TokKind::InterpEnd) {
                return self.err("malformed interpolated string: expected expression inside '{}'");
            }
            let e = self.parse_expr()?;
            segs.push(InterpSeg::Expr(e));
            let t = self.cur().clone();
            match t.kind {
                TokKind::InterpMid => {
                    push_piece(self, &mut segs, &t.text)?;
                    self.advance();
                }
                TokKind::InterpEnd => {
                    push_piece(self, &mut segs, &t.text)?;
                    self.advance();
                    return Ok(Expr::Interp(segs));
                }
                _ => return self.err_expected("'}' to close the interpolated expression"),
            }
        }
    }

    fn parse_if_expr(&mut self) -> PResult<Expr> {
        self.advance(); // if
        let mut clauses = Vec::new();
        let cond = self.parse_expr()?;
        self.expect_kw("then")?;
        let value = self.parse_expr()?;
        clauses.push((cond, value));
        loop {
            if self.accept_kw("elseif") {
                let cond = self.parse_expr()?;
                self.expect_kw("then")?;
                let value = self.parse_expr()?;
                clauses.push((cond, value));
            } else {
                self.expect_kw("else")?;
                let else_ = self.parse_expr()?;
                return Ok(Expr::IfExpr { clauses, else_: Box::new(else_) });
            }
        }
    }

    fn parse_table(&mut self) -> PResult<Expr> {
        let line = self.cur().line;
        self.expect_sym("{")?;
        let mut items = Vec::new();
        while !self.check_sym("}") {
            if self.check_sym("[") {
                self.advance();
                let k = self.parse_expr()?;
                self.expect_sym("]")?;
                self.expect_sym("=")?;
                let v = self.parse_expr()?;
                items.push(TableItem::Keyed(k, v));
            } else if self.cur().kind == TokKind::Name && Self::is_sym(self.peek(1), "=") {
                let name = self.cur().text.clone();
                self.advance();
                self.advance();
                let v = self.parse_expr()?;
                items.push(TableItem::Named(name, v));
            } else {
                items.push(TableItem::Pos(self.parse_expr()?));
            }
            if !(self.accept_sym(",") || self.accept_sym(";")) {
                break;
            }
        }
        if !self.accept_sym("}") {
            return self.err(format!(
                "expected '}}' (to close '{{' at line {}) near {}",
                line,
                Self::describe(self.cur())
            ));
        }
        Ok(Expr::Table(items))
    }

    /// prefix expression with its suffixes: `Name | (expr)` then `.n`, `[e]`, `:n args`, args
    fn parse_primary_expr(&mut self) -> PResult<Expr> {
        let mut e = if self.cur().kind == TokKind::Name {
            let n = self.cur().text.clone();
            self.advance();
            Expr::Name(n)
        } else if self.check_sym("(") {
            let line = self.cur().line;
            self.advance();
            let inner = self.parse_expr()?;
            if !self.accept_sym(")") {
                return self.err(format!(
                    "expected ')' (to close '(' at line {}) near {}",
                    line,
                    Self::describe(self.cur())
                ));
            }
            Expr::Paren(Box::new(inner))
        } else {
            return self.err_expected("expression");
        };
        let mut chain = 0;
        loop {
            let t = self.cur();
            match t.kind {
                TokKind::Symbol => match t.text.as_str() {
                    "." => {
                        self.chain_tick(&mut chain)?;
                        self.advance();
                        let name = self.expect_name("field name")?;
                        e = Expr::Field { obj: Box::new(e), name };
                    }
                    "[" => {
                        self.chain_tick(&mut chain)?;
                        self.advance();
                        let key = self.parse_expr()?;
                        self.expect_sym("]")?;
                        e = Expr::Index { obj: Box::new(e), key: Box::new(key) };
                    }
                    ":" => {
                        self.chain_tick(&mut chain)?;
                        self.advance();
                        let name = self.expect_name("method name")?;
                        if self.luau() && self.at_instantiation() {
                            return self
                                .err("explicit type instantiation on a method call is not supported by this parser");
                        }
                        let (args, sugar) = self.parse_call_args()?;
                        e = Expr::MethodCall { obj: Box::new(e), name, args, sugar };
                    }
                    "(" | "{" => {
                        self.chain_tick(&mut chain)?;
                        let (args, sugar) = self.parse_call_args()?;
                        e = Expr::Call { f: Box::new(e), args, sugar };
                    }
                    "<" if self.luau() && self.at_instantiation() => {
                        self.chain_tick(&mut chain)?;
                        let sp = self.span_begin(self.cur().start);
                        self.advance();
                        self.advance();
                        let types = self.parse_type_args_until_close()?;
                        // `>` `>` (like `<` `<`, not necessarily adjacent: trivia may separate them)
                        if !(self.check_sym(">") && Self::is_sym(self.peek(1), ">")) {
                            return self.err_expected("'>>' to close the type instantiation");
                        }
                        self.advance();
                        self.advance();
                        self.span_end(sp);
                        e = Expr::Instantiate { expr: Box::new(e), types };
                    }
                    _ => break,
                },
                TokKind::Str => {
                    self.chain_tick(&mut chain)?;
                    let (args, sugar) = self.parse_call_args()?;
                    e = Expr::Call { f: Box::new(e), args, sugar };
                }
                _ => break,
            }
        }
        Ok(e)
    }

    /// current token is `<` followed by another `<` (whitespace / comments may separate them:
    /// `f < < T > > ()` is accepted, as `< <` can never occur in an expression otherwise)
    fn at_instantiation(&self) -> bool {
        self.check_sym("<") && Self::is_sym(self.peek(1), "<")
    }

    fn parse_call_args(&mut self) -> PResult<(Vec<Expr>, CallSugar)> {
        let t = self.cur();
        if t.kind == TokKind::Str {
            let (raw, value) = self.parse_string_token()?;
            return Ok((vec![Expr::Str { raw, value }], CallSugar::Str));
        }
        if Self::is_sym(t, "{") {
            let tbl = self.parse_table()?;
            return Ok((vec![tbl], CallSugar::Table));
        }
        if Self::is_sym(t, "(") {
            let (line, start) = (t.line, t.start);
            if self.i > 0 && self.toks[self.i - 1].end_line != line {
                match self.mode {
                    Mode::Lua51 => {
                        return self.err("ambiguous syntax (function call x new statement)");
                    }
                    Mode::Luau => self.ambiguous_calls.push(start),
                }
            }
            self.advance();
            let mut args = Vec::new();
            if !self.check_sym(")") {
                args = self.parse_expr_list()?;
            }
            if !self.accept_sym(")") {
                return self.err(format!(
                    "expected ')' (to close '(' at line {}) near {}",
                    line,
                    Self::describe(self.cur())
                ));
            }
            return Ok((args, CallSugar::Parens));
        }
        self.err_expected("function arguments")
    }

    // ------------------------------------------------------------------------- types

    /// `...` or `Name ...` ahead
    fn at_type_pack(&self) -> bool {
        self.check_sym("...") || (self.cur().kind == TokKind::Name && Self::is_sym(self.peek(1), "..."))
    }

    /// `...T` or `Name...`
    fn parse_pack_tail(&mut self) -> PResult<VariadicAnnotationPack> {
        if self.accept_sym("...") {
            Ok(VariadicAnnotationPack::Variadic(self.parse_type()?))
        } else {
            let n = self.expect_name("generic pack name")?;
            self.expect_sym("...")?;
            Ok(VariadicAnnotationPack::GenericPack(n))
        }
    }

    fn type_follow(&self) -> bool {
        self.check_sym("|") || self.check_sym("&") || self.check_sym("?")
    }

    /// Callers that start a piece of type syntax wrap this in `span_begin` / `span_end`.
    fn parse_type(&mut self) -> PResult<Type> {
        debug_assert!(self.type_depth > 0);
        self.enter()?;
        let r = if self.check_sym("|") || self.check_sym("&") {
            let inter = self.check_sym("&");
            self.advance();
            let first = self.parse_simple_type_only()?;
            self.parse_type_suffix(first, Some(inter))?
        } else {
            let first = self.parse_simple_type_only()?;
            self.parse_type_suffix(first, None)?
        };
        self.leave();
        Ok(r)
    }

    fn parse_simple_type_only(&mut self) -> PResult<Type> {
        match self.parse_simple_type(false)? {
            TypeOrPack::Type(t) => Ok(t),
            TypeOrPack::Pack(_) => self.err("type pack is not allowed in this context"),
        }
    }

    /// `first (| T)* `, `first (& T)*`, postfix `?`; `leading` = Some(is_intersection)
    fn parse_type_suffix(&mut self, first: Type, leading: Option<bool>) -> PResult<Type> {
        let mut parts = vec![first];
        let mut is_union = leading == Some(false);
        let mut is_inter = leading == Some(true);
        let mut chain = 0;
        loop {
            if self.check_sym("|") {
                self.chain_tick(&mut chain)?;
                is_union = true;
                if is_inter {
                    break;
                }
                self.advance();
                parts.push(self.parse_simple_type_only()?);
            } else if self.check_sym("&") {
                self.chain_tick(&mut chain)?;
                is_inter = true;
                if is_union {
                    break;
                }
                self.advance();
                parts.push(self.parse_simple_type_only()?);
            } else if self.check_sym("?") {
                self.chain_tick(&mut chain)?;
                is_union = true;
                if is_inter {
                    break;
                }
                self.advance();
                let last = parts.pop().unwrap();
                parts.push(Type::Optional(Box::new(last)));
            } else {
                break;
            }
        }
        if is_union && is_inter {
            return self.err("mixing union and intersection types is not allowed; consider wrapping in parentheses");
        }
        if parts.len() == 1 && leading.is_none() {
            return Ok(parts.pop().unwrap());
        }
        if is_inter {
            Ok(Type::Intersection { leading: leading.is_some(), types: parts })
        } else {
            Ok(Type::Union { leading: leading.is_some(), types: parts })
        }
    }

    fn parse_simple_type(&mut self, allow_pack: bool) -> PResult<TypeOrPack> {
        self.enter()?;
        let r = self.parse_simple_type_inner(allow_pack)?;
        self.leave();
        Ok(r)
    }

    fn parse_simple_type_inner(&mut self, allow_pack: bool) -> PResult<TypeOrPack> {
        let t = self.cur();
        match t.kind {
            TokKind::Keyword => {
                let ty = match t.text.as_str() {
                    "nil" => Type::Nil,
                    "true" => Type::True,
                    "false" => Type::False,
                    "function" => {
                        return self.err(
                            "using 'function' as a type annotation is not supported, use a function type such as '(...any) -> ...any'",
                        )
                    }
                    _ => return self.err_expected("type"),
                };
                self.advance();
                Ok(TypeOrPack::Type(ty))
            }
            TokKind::Str => {
                let (_, value) = self.parse_string_token()?;
                Ok(TypeOrPack::Type(Type::Str(value)))
            }
            TokKind::Name => {
                let name = t.text.clone();
                self.advance();
                if self.check_sym(".") {
                    self.advance();
                    let inner = self.expect_name("type name after '.'")?;
                    let params = self.parse_opt_type_params()?;
                    return Ok(TypeOrPack::Type(Type::Qualified {
                        namespace: name,
                        name: TypeName { name: inner, params },
                    }));
                }
                if self.check_sym("...") {
                    return self.err("unexpected '...' after type name; type pack is not allowed in this context");
                }
                if name == "typeof" {
                    self.expect_sym("(")?;
                    let e = self.parse_expr()?;
                    self.expect_sym(")")?;
                    return Ok(TypeOrPack::Type(Type::Typeof(Box::new(e))));
                }
                let params = self.parse_opt_type_params()?;
                Ok(TypeOrPack::Type(Type::Name(TypeName { name, params })))
            }
            TokKind::Symbol => match t.text.as_str() {
                "{" => Ok(TypeOrPack::Type(self.parse_table_type()?)),
                "(" | "<" => self.parse_function_type(allow_pack),
                _ => self.err_expected("type"),
            },
            _ => self.err_expected("type"),
        }
    }

    fn parse_opt_type_params(&mut self) -> PResult<Option<Vec<TypeArg>>> {
        if !self.check_sym("<") {
            return Ok(None);
        }
        self.advance();
        let args = self.parse_type_args_until_close()?;
        self.expect_sym(">")?;
        Ok(Some(args))
    }

    /// type arguments after `<`; stops before the closing `>`
    fn parse_type_args_until_close(&mut self) -> PResult<Vec<TypeArg>> {
        let mut args = Vec::new();
        loop {
            if self.at_type_pack() {
                match self.parse_pack_tail()? {
                    VariadicAnnotationPack::Variadic(t) => args.push(TypeArg::Variadic(Box::new(t))),
                    VariadicAnnotationPack::GenericPack(n) => args.push(TypeArg::GenericPack(n)),
                }
            } else if self.check_sym("(") {
                match self.parse_simple_type(true)? {
                    TypeOrPack::Pack(mut p) => {
                        if p.types.len() == 1 && p.tail.is_none() && self.type_follow() {
                            let inner = p.types.pop().unwrap();
                            let t = self.parse_type_suffix(Type::Paren(Box::new(inner)), None)?;
                            args.push(TypeArg::Type(t));
                        } else {
                            args.push(TypeArg::Pack(p));
                        }
                    }
                    TypeOrPack::Type(t) => {
                        let t = self.parse_type_suffix(t, None)?;
                        args.push(TypeArg::Type(t));
                    }
                }
            } else if self.check_sym(">") && args.is_empty() {
                break;
            } else {
                args.push(TypeArg::Type(self.parse_type()?));
            }
            if !self.accept_sym(",") {
                break;
            }
        }
        Ok(args)
    }

    fn parse_table_type(&mut self) -> PResult<Type> {
        let line = self.cur().line;
        self.expect_sym("{")?;
        let mut items = Vec::new();
        let mut array: Option<Type> = None;
        while !self.check_sym("}") {
            let mut access = None;
            if self.cur().kind == TokKind::Name
                && (self.cur().text == "read" || self.cur().text == "write")
                && (self.peek(1).kind == TokKind::Name || Self::is_sym(self.peek(1), "["))
            {
                access = Some(if self.cur().text == "read" { Access::Read } else { Access::Write });
                self.advance();
            }
            if self.check_sym("[") {
                self.advance();
                if self.cur().kind == TokKind::Str && Self::is_sym(self.peek(1), "]") {
                    let (_, key) = self.parse_string_token()?;
                    self.expect_sym("]")?;
                    self.expect_sym(":")?;
                    let ty = self.parse_type()?;
                    items.push(TableTypeItem::StrProp { access, key, ty });
                } else {
                    let key = self.parse_type()?;
                    self.expect_sym("]")?;
                    self.expect_sym(":")?;
                    let value = self.parse_type()?;
                    items.push(TableTypeItem::Indexer { access, key, value });
                }
            } else if items.is_empty()
                && access.is_none()
                && !(self.cur().kind == TokKind::Name && Self::is_sym(self.peek(1), ":"))
            {
                array = Some(self.parse_type()?);
                break;
            } else {
                let name = self.expect_name("table field name")?;
                self.expect_sym(":")?;
                let ty = self.parse_type()?;
                items.push(TableTypeItem::Prop { access, name, ty });
            }
            if !(self.accept_sym(",") || self.accept_sym(";")) {
                break;
            }
        }
        if !self.accept_sym("}") {
            return self.err(format!(
                "expected '}}' (to close '{{' at line {}) near {}",
                line,
                Self::describe(self.cur())
            ));
        }
        match array {
            Some(t) => Ok(Type::Array(Box::new(t))),
            None => Ok(Type::Table(items)),
        }
    }

    /// `(` type list `)`: entries may be `name: T`; an optional `...T` / `T...` tail
    #[allow(clippy::type_complexity)]
    fn parse_paren_type_list(
        &mut self,
    ) -> PResult<(Vec<(Option<String>, Type)>, Option<Box<VariadicAnnotationPack>>)> {
        self.expect_sym("(")?;
        let mut params = Vec::new();
        let mut tail = None;
        if !self.check_sym(")") {
            loop {
                if self.at_type_pack() {
                    tail = Some(Box::new(self.parse_pack_tail()?));
                    break;
                }
                let name = if self.cur().kind == TokKind::Name && Self::is_sym(self.peek(1), ":") {
                    let n = self.cur().text.clone();
                    self.advance();
                    self.advance();
                    Some(n)
                } else {
                    None
                };
                let ty = self.parse_type()?;
                params.push((name, ty));
                if !self.accept_sym(",") {
                    break;
                }
                if self.check_sym(")") {
                    return self.err("expected type after ',' but got ')'");
                }
            }
        }
        self.expect_sym(")")?;
        Ok((params, tail))
    }

    /// `[<G>] ( ... ) [-> R]`: function type, parenthesised type, or (if allowed) a type pack
    fn parse_function_type(&mut self, allow_pack: bool) -> PResult<TypeOrPack> {
        let generics = if self.check_sym("<") {
            let g = self.parse_generics_with_defaults_opt(false)?;
            Some(Generics {
                types: g.types.into_iter().map(|(n, _)| n).collect(),
                packs: g.packs.into_iter().map(|(n, _)| n).collect(),
            })
        } else {
            None
        };
        let (mut params, tail) = self.parse_paren_type_list()?;
        let has_names = params.iter().any(|(n, _)| n.is_some());
        let force = generics.is_some() || has_names;
        let arrow = self.check_sym("->");
        if !force && !arrow {
            if params.len() == 1 && tail.is_none() {
                let (_, t) = params.pop().unwrap();
                return Ok(if allow_pack {
                    TypeOrPack::Pack(TypePack { types: vec![t], tail: None })
                } else {
                    TypeOrPack::Type(Type::Paren(Box::new(t)))
                });
            }
            if allow_pack {
                return Ok(TypeOrPack::Pack(TypePack { types: params.into_iter().map(|(_, t)| t).collect(), tail }));
            }
            if self.check_sym(":") {
                return self.err("return types in function type annotations are written after '->' instead of ':'");
            }
            return self.err_expected("'->' when parsing function type");
        }
        if !arrow {
            if self.check_sym(":") {
                return self.err("return types in function type annotations are written after '->' instead of ':'");
            }
            return self.err_expected("'->' when parsing function type");
        }
        self.advance(); // ->
        let ret = self.parse_return_type()?;
        Ok(TypeOrPack::Type(Type::Function(Box::new(FunctionType {
            generics,
            params,
            variadic: tail,
            ret: Box::new(ret),
        }))))
    }

    fn parse_return_type(&mut self) -> PResult<ReturnType> {
        self.enter()?;
        let r = self.parse_return_type_inner()?;
        self.leave();
        Ok(r)
    }

    fn parse_return_type_inner(&mut self) -> PResult<ReturnType> {
        if !self.check_sym("(") {
            if self.at_type_pack() {
                return Ok(match self.parse_pack_tail()? {
                    VariadicAnnotationPack::Variadic(t) => ReturnType::Variadic(t),
                    VariadicAnnotationPack::GenericPack(n) => ReturnType::GenericPack(n),
                });
            }
            return Ok(ReturnType::Type(self.parse_type()?));
        }
        let (mut params, tail) = self.parse_paren_type_list()?;
        let has_names = params.iter().any(|(n, _)| n.is_some());
        if !self.check_sym("->") && !has_names {
            if params.len() == 1 && tail.is_none() {
                let (_, t) = params.pop().unwrap();
                if self.type_follow() {
                    let t = self.parse_type_suffix(Type::Paren(Box::new(t)), None)?;
                    return Ok(ReturnType::Type(t));
                }
                return Ok(ReturnType::Pack(TypePack { types: vec![t], tail: None }));
            }
            return Ok(ReturnType::Pack(TypePack { types: params.into_iter().map(|(_, t)| t).collect(), tail }));
        }
        if !self.check_sym("->") {
            if self.check_sym(":") {
                return self.err("return types in function type annotations are written after '->' instead of ':'");
            }
            return self.err_expected("'->' when parsing function type");
        }
        self.advance();
        let ret = self.parse_return_type()?;
        let f = Type::Function(Box::new(FunctionType { generics: None, params, variadic: tail, ret: Box::new(ret) }));
        Ok(ReturnType::Type(self.parse_type_suffix(f, None)?))
    }

    fn parse_generics_with_defaults(&mut self) -> PResult<GenericsWithDefaults> {
        self.parse_generics_with_defaults_opt(true)
    }

    /// `<T, U = X, V..., W... = ...X>`; defaults only if `with_defaults`
    fn parse_generics_with_defaults_opt(&mut self, with_defaults: bool) -> PResult<GenericsWithDefaults> {
        self.expect_sym("<")?;
        let mut types: Vec<(String, Option<Type>)> = Vec::new();
        let mut packs: Vec<(String, Option<GenericPackDefault>)> = Vec::new();
        let mut seen_pack = false;
        let mut seen_default = false;
        loop {
            let name = self.expect_name("generic type name")?;
            if self.check_sym("...") || seen_pack {
                seen_pack = true;
                if !self.accept_sym("...") {
                    return self.err("generic types come before generic type packs");
                }
                if with_defaults && self.check_sym("=") {
                    seen_default = true;
                    self.advance();
                    let d = if self.at_type_pack() {
                        match self.parse_pack_tail()? {
                            VariadicAnnotationPack::Variadic(t) => GenericPackDefault::Variadic(t),
                            VariadicAnnotationPack::GenericPack(n) => GenericPackDefault::GenericPack(n),
                        }
                    } else if self.check_sym("(") {
                        match self.parse_simple_type(true)? {
                            TypeOrPack::Pack(p) => GenericPackDefault::Pack(p),
                            TypeOrPack::Type(_) => return self.err("expected type pack after '=', got type"),
                        }
                    } else {
                        return self.err_expected("type pack after '='");
                    };
                    packs.push((name, Some(d)));
                } else {
                    if seen_default {
                        return self.err("expected default type pack after type pack name");
                    }
                    packs.push((name, None));
                }
            } else if with_defaults && self.check_sym("=") {
                seen_default = true;
                self.advance();
                let t = self.parse_type()?;
                types.push((name, Some(t)));
            } else {
                if seen_default {
                    return self.err("expected default type after type name");
                }
                types.push((name, None));
            }
            if self.accept_sym(",") {
                if self.check_sym(">") {
                    return self.err("expected type after ',' but got '>'");
                }
            } else {
                break;
            }
        }
        self.expect_sym(">")?;
        Ok(GenericsWithDefaults { types, packs })
    }
}

fn new_parser(src: &str, mode: Mode, opts: ParseOptions) -> Result<(Parser, Vec<Comment>, Option<String>), SynError> {
    let out = lex(src, mode)?;
    let p = Parser {
        mode,
        opts,
        toks: out.tokens,
        i: 0,
        type_spans: Vec::new(),
        type_depth: 0,
        funcs: vec![FuncState { vararg: true, loop_depth: 0 }],
        depth: 0,
        ambiguous_calls: Vec::new(),
    };
    Ok((p, out.comments, out.shebang))
}

pub fn parse(src: &str, mode: Mode) -> Result<ParseOutput, SynError> {
    parse_with_options(src, mode, ParseOptions::default())
}

pub fn parse_with_options(src: &str, mode: Mode, opts: ParseOptions) -> Result<ParseOutput, SynError> {
    let (mut p, comments, shebang) = new_parser(src, mode, opts)?;
    let block = p.parse_block()?;
    if p.cur().kind != TokKind::Eof {
        return p.err_expected("<eof>");
    }
    debug_assert_eq!(p.type_depth, 0);
    debug_assert_eq!(p.depth, 0);
    let mut type_spans = p.type_spans;
    type_spans.sort();
    Ok(ParseOutput { block, tokens: p.toks, comments, type_spans, shebang, ambiguous_calls: p.ambiguous_calls })
}

/// The whole input must be exactly one expression.
pub fn parse_expr(src: &str, mode: Mode) -> Result<Expr, SynError> {
    let (mut p, _, _) = new_parser(src, mode, ParseOptions::default())?;
    let e = p.parse_expr()?;
    if p.cur().kind != TokKind::Eof {
        return p.err_expected("<eof>");
    }
    Ok(e)
}

#[cfg(test)]
mod smoke {
    use super::*;
    use std::path::{Path, PathBuf};

    fn walk(dir: &Path, out: &mut Vec<PathBuf>) {
        let rd = match std::fs::read_dir(dir) {
            Ok(r) => r,
            Err(_) => return,
        };
        let mut entries: Vec<PathBuf> = rd.filter_map(|e| e.ok().map(|e| e.path())).collect();
        entries.sort();
        for p in entries {
            if p.is_dir() {
                walk(&p, out);
            } else if matches!(p.extension().and_then(|e| e.to_str()), Some("lua") | Some("luau")) {
                out.push(p);
            }
        }
    }

    /// Parses every Lua file of the darklua repository (if present) in Luau mode on a thread
    /// with the default test stack; prints failures.  Known-invalid inputs are listed below.
    #[test]
    fn repo_files_parse() {
        let mut files = Vec::new();
        for d in ["/repo/tests", "/repo/bench_content", "/repo/site", "/repo/src"] {
            walk(Path::new(d), &mut files);
        }
        let mut failures = Vec::new();
        let mut ok = 0;
        for f in &files {
            let bytes = std::fs::read(f).unwrap();
            let src = match String::from_utf8(bytes) {
                Ok(s) => s,
                Err(_) => {
                    failures.push(format!("{}: not UTF-8", f.display()));
                    continue;
                }
            };
            match parse(&src, Mode::Luau) {
                Ok(out) => {
                    ok += 1;
                    // invariants
                    for w in out.type_spans.windows(2) {
                        assert!(w[0].1 <= w[1].0, "overlapping type spans in {}", f.display());
                    }
                    let _ = crate::luasyn::census::census(&out.block);
                    let _ = crate::luasyn::resolve::resolve(&out.block);
                }
                Err(e) => failures.push(format!("{}: {}", f.display(), e)),
            }
        }
        println!("parsed {} of {} files", ok, files.len());
        for f in &failures {
            println!("FAIL {}", f);
        }
    }
}
