//! Binding resolver: maps every variable identifier occurrence to its local declaration or to
//! "global", using Lua's scoping rules.
//!
//! Occurrences are listed in source order of the identifier tokens that are *variables* (not field
//! names, method names, type names, table keys `{a = 1}`, attribute names, generic names).
//!
//! Rules:
//! * `local a, b = e1, e2`: order a, b, e1, e2; the names become visible after the statement
//!   (`local x = x` refers to the outer `x`); `typeof(e)` inside the annotations of the names is
//!   resolved before the names are visible.
//! * `local function f`: `f` is visible inside its own body.
//! * `for` variables are scoped to the body; start/limit/step and the iterator list are outside.
//! * `repeat ... until c`: `c` sees the body's locals.
//! * functions: parameters are declared in order, each visible to the `typeof` expressions of the
//!   annotations that follow it (later parameters, `...` annotation, return annotation) and to the
//!   body; `function a:b()` declares an `ImplicitSelf` occurrence `self` right before the
//!   parameters.
//! * assignment: targets (bare names are `AssignTarget`, names inside `a.b` / `a[i]` targets are
//!   `Use`) then values.

use crate::luasyn::ast::*;

#[derive(Clone, Debug, PartialEq, Eq)]
pub enum Role {
    LocalDecl,
    Param,
    ForVar,
    LocalFuncName,
    /// read of a variable
    Use,
    /// assignment target that is a bare name
    AssignTarget,
    /// `function a.b.c()` base name
    FuncStmtBase,
    ImplicitSelf,
}

impl Role {
    /// true for the roles that create a new local declaration
    pub fn is_decl(&self) -> bool {
        matches!(self, Role::LocalDecl | Role::Param | Role::ForVar | Role::LocalFuncName | Role::ImplicitSelf)
    }
}

#[derive(Clone, Debug)]
pub struct Occurrence {
    pub name: String,
    pub role: Role,
    /// Some(id) = index of the local declaration this occurrence refers to / creates; None = global
    pub decl: Option<usize>,
}

#[derive(Clone, Debug)]
pub struct Resolution {
    pub occurrences: Vec<Occurrence>,
    pub decl_count: usize,
    /// declarations made with `const` (Luau refuses to compile an assignment to one of them)
    pub const_decls: Vec<usize>,
}

impl Resolution {
    /// names of `const` variables that are assigned (plain or compound assignment, `function name()`)
    pub fn assigned_constants(&self) -> Vec<String> {
        self.occurrences
            .iter()
            .filter(|o| matches!(o.role, Role::AssignTarget | Role::FuncStmtBase))
            .filter(|o| o.decl.map(|d| self.const_decls.contains(&d)).unwrap_or(false))
            .map(|o| o.name.clone())
            .collect()
    }
}

struct Resolver {
    occ: Vec<Occurrence>,
    decls: usize,
    scopes: Vec<Vec<(String, usize)>>,
    consts: Vec<usize>,
}

impl Resolver {
    fn push_scope(&mut self) {
        self.scopes.push(Vec::new());
    }

    fn pop_scope(&mut self) {
        self.scopes.pop();
    }

    fn lookup(&self, name: &str) -> Option<usize> {
        for scope in self.scopes.iter().rev() {
            for (n, id) in scope.iter().rev() {
                if n == name {
                    return Some(*id);
                }
            }
        }
        None
    }

    /// records a declaring occurrence; the name is NOT yet visible
    fn declare_occ(&mut self, name: &str, role: Role) -> usize {
        let id = self.decls;
        self.decls += 1;
        self.occ.push(Occurrence { name: name.to_string(), role, decl: Some(id) });
        id
    }

    fn bind(&mut self, name: &str, id: usize) {
        self.scopes.last_mut().unwrap().push((name.to_string(), id));
    }

    fn reference(&mut self, name: &str, role: Role) {
        let decl = self.lookup(name);
        self.occ.push(Occurrence { name: name.to_string(), role, decl });
    }

    fn block(&mut self, b: &Block) {
        self.push_scope();
        self.block_noscope(b);
        self.pop_scope();
    }

    fn block_noscope(&mut self, b: &Block) {
        for s in &b.stmts {
            self.stmt(s);
        }
    }

    fn opt_ty(&mut self, t: &Option<Type>) {
        if let Some(t) = t {
            self.ty(t);
        }
    }

    fn attrs(&mut self, attrs: &[Attribute]) {
        for a in attrs {
            if let Attribute::Group(elems) = a {
                for e in elems {
                    match &e.args {
                        Some(AttributeArgs::Tuple(v)) => {
                            for x in v {
                                self.expr(x);
                            }
                        }
                        Some(AttributeArgs::Table(t)) => self.expr(t),
                        Some(AttributeArgs::Str(_)) | None => {}
                    }
                }
            }
        }
    }

    fn func(&mut self, f: &FuncBody, implicit_self: bool) {
        self.push_scope();
        if implicit_self {
            let id = self.declare_occ("self", Role::ImplicitSelf);
            self.bind("self", id);
        }
        for p in &f.params {
            let id = self.declare_occ(&p.name, Role::Param);
            self.opt_ty(&p.ty);
            self.bind(&p.name, id);
        }
        if let Some(v) = &f.vararg_ty {
            if let VariadicAnnotation::Type(t) = &**v {
                self.ty(t);
            }
        }
        if let Some(r) = &f.ret_ty {
            self.ret(r);
        }
        // the body shares the parameter scope (a body-level `local x` shadows parameter `x`)
        self.block_noscope(&f.body);
        self.pop_scope();
    }

    fn stmt(&mut self, s: &Stmt) {
        match s {
            Stmt::Local { is_const, names, values } => {
                let mut ids = Vec::with_capacity(names.len());
                for n in names {
                    ids.push(self.declare_occ(&n.name, Role::LocalDecl));
                    if *is_const {
                        self.consts.push(*ids.last().unwrap());
                    }
                    self.opt_ty(&n.ty);
                }
                for v in values {
                    self.expr(v);
                }
                for (n, id) in names.iter().zip(ids) {
                    self.bind(&n.name, id);
                }
            }
            Stmt::Assign { targets, values } => {
                for t in targets {
                    self.target(t);
                }
                for v in values {
                    self.expr(v);
                }
            }
            Stmt::CompoundAssign { target, op: _, value } => {
                self.target(target);
                self.expr(value);
            }
            Stmt::Call(e) => self.expr(e),
            Stmt::Do(b) => self.block(b),
            Stmt::While { cond, body } => {
                self.expr(cond);
                self.block(body);
            }
            Stmt::Repeat { body, cond } => {
                self.push_scope();
                self.block_noscope(body);
                self.expr(cond);
                self.pop_scope();
            }
            Stmt::If { clauses, else_ } => {
                for (c, b) in clauses {
                    self.expr(c);
                    self.block(b);
                }
                if let Some(b) = else_ {
                    self.block(b);
                }
            }
            Stmt::NumFor { var, start, limit, step, body } => {
                let id = self.declare_occ(&var.name, Role::ForVar);
                self.opt_ty(&var.ty);
                self.expr(start);
                self.expr(limit);
                if let Some(s) = step {
                    self.expr(s);
                }
                self.push_scope();
                self.bind(&var.name, id);
                self.block_noscope(body);
                self.pop_scope();
            }
            Stmt::GenFor { vars, exprs, body } => {
                let mut ids = Vec::with_capacity(vars.len());
                for v in vars {
                    ids.push(self.declare_occ(&v.name, Role::ForVar));
                    self.opt_ty(&v.ty);
                }
                for e in exprs {
                    self.expr(e);
                }
                self.push_scope();
                for (v, id) in vars.iter().zip(ids) {
                    self.bind(&v.name, id);
                }
                self.block_noscope(body);
                self.pop_scope();
            }
            Stmt::Function { attrs, name, func } => {
                self.attrs(attrs);
                self.reference(&name.base, Role::FuncStmtBase);
                self.func(func, name.method.is_some());
            }
            Stmt::LocalFunction { attrs, is_const, name, func } => {
                self.attrs(attrs);
                let id = self.declare_occ(name, Role::LocalFuncName);
                if *is_const {
                    self.consts.push(id);
                }
                self.bind(name, id);
                self.func(func, false);
            }
            Stmt::Return(v) => {
                for e in v {
                    self.expr(e);
                }
            }
            Stmt::Break | Stmt::Continue => {}
            Stmt::TypeDecl { export: _, name: _, generics, ty } => {
                if let Some(g) = generics {
                    for (_, d) in &g.types {
                        self.opt_ty(d);
                    }
                    for (_, d) in &g.packs {
                        match d {
                            Some(GenericPackDefault::Pack(p)) => self.pack(p),
                            Some(GenericPackDefault::Variadic(t)) => self.ty(t),
                            Some(GenericPackDefault::GenericPack(_)) | None => {}
                        }
                    }
                }
                self.ty(ty);
            }
            Stmt::TypeFunction { export: _, name: _, func } => self.func(func, false),
        }
    }

    fn target(&mut self, t: &Expr) {
        match t {
            Expr::Name(n) => self.reference(n, Role::AssignTarget),
            other => self.expr(other),
        }
    }

    fn expr(&mut self, e: &Expr) {
        match e {
            Expr::Nil | Expr::True | Expr::False | Expr::Vararg | Expr::Number { .. } | Expr::Str { .. } => {}
            Expr::Name(n) => self.reference(n, Role::Use),
            Expr::Interp(segs) => {
                for s in segs {
                    if let InterpSeg::Expr(x) = s {
                        self.expr(x);
                    }
                }
            }
            Expr::Index { obj, key } => {
                self.expr(obj);
                self.expr(key);
            }
            Expr::Field { obj, .. } => self.expr(obj),
            Expr::Call { f, args, .. } => {
                self.expr(f);
                for a in args {
                    self.expr(a);
                }
            }
            Expr::MethodCall { obj, types, args, .. } => {
                self.expr(obj);
                for t in types.iter().flatten() {
                    self.type_arg(t);
                }
                for a in args {
                    self.expr(a);
                }
            }
            Expr::Function { attrs, func } => {
                self.attrs(attrs);
                self.func(func, false);
            }
            Expr::Paren(x) | Expr::Unary(_, x) => self.expr(x),
            Expr::Binary(_, a, b) => {
                self.expr(a);
                self.expr(b);
            }
            Expr::Table(items) => {
                for it in items {
                    match it {
                        TableItem::Pos(v) | TableItem::Named(_, v) => self.expr(v),
                        TableItem::Keyed(k, v) => {
                            self.expr(k);
                            self.expr(v);
                        }
                    }
                }
            }
            Expr::IfExpr { clauses, else_ } => {
                for (c, v) in clauses {
                    self.expr(c);
                    self.expr(v);
                }
                self.expr(else_);
            }
            Expr::Cast { expr, ty } => {
                self.expr(expr);
                self.ty(ty);
            }
            Expr::Instantiate { expr, types } => {
                self.expr(expr);
                for t in types {
                    self.type_arg(t);
                }
            }
        }
    }

    // types: only `typeof(e)` matters

    fn type_arg(&mut self, a: &TypeArg) {
        match a {
            TypeArg::Type(t) => self.ty(t),
            TypeArg::Pack(p) => self.pack(p),
            TypeArg::Variadic(t) => self.ty(t),
            TypeArg::GenericPack(_) => {}
        }
    }

    fn tail(&mut self, t: &Option<Box<VariadicAnnotationPack>>) {
        if let Some(t) = t {
            if let VariadicAnnotationPack::Variadic(t) = &**t {
                self.ty(t);
            }
        }
    }

    fn pack(&mut self, p: &TypePack) {
        for t in &p.types {
            self.ty(t);
        }
        self.tail(&p.tail);
    }

    fn ret(&mut self, r: &ReturnType) {
        match r {
            ReturnType::Type(t) | ReturnType::Variadic(t) => self.ty(t),
            ReturnType::Pack(p) => self.pack(p),
            ReturnType::GenericPack(_) => {}
        }
    }

    fn type_name(&mut self, n: &TypeName) {
        if let Some(ps) = &n.params {
            for p in ps {
                self.type_arg(p);
            }
        }
    }

    fn ty(&mut self, t: &Type) {
        match t {
            Type::Name(n) => self.type_name(n),
            Type::Qualified { name, .. } => self.type_name(name),
            Type::True | Type::False | Type::Nil | Type::Str(_) => {}
            Type::Array(t) | Type::Paren(t) | Type::Optional(t) => self.ty(t),
            Type::Table(items) => {
                for it in items {
                    match it {
                        TableTypeItem::Prop { ty, .. } | TableTypeItem::StrProp { ty, .. } => self.ty(ty),
                        TableTypeItem::Indexer { key, value, .. } => {
                            self.ty(key);
                            self.ty(value);
                        }
                    }
                }
            }
            Type::Typeof(e) => self.expr(e),
            Type::Function(f) => {
                for (_, t) in &f.params {
                    self.ty(t);
                }
                self.tail(&f.variadic);
                self.ret(&f.ret);
            }
            Type::Union { types, .. } | Type::Intersection { types, .. } => {
                for t in types {
                    self.ty(t);
                }
            }
        }
    }
}

pub fn resolve(block: &Block) -> Resolution {
    let mut r = Resolver { occ: Vec::new(), decls: 0, scopes: Vec::new(), consts: Vec::new() };
    r.block(block);
    Resolution { occurrences: r.occ, decl_count: r.decls, const_decls: r.consts }
}

#[cfg(test)]
mod tests {
    use super::*;
    use crate::luasyn::parse::parse;
    use crate::luasyn::Mode;

    /// compact rendering: `name:Role:decl` with `g` for global
    fn rs(src: &str) -> Vec<String> {
        let out = parse(src, Mode::Luau).unwrap_or_else(|e| panic!("{}: {}", src, e));
        let r = resolve(&out.block);
        let n_decl = r.occurrences.iter().filter(|o| o.role.is_decl()).count();
        assert_eq!(n_decl, r.decl_count);
        r.occurrences
            .iter()
            .map(|o| {
                let role = match o.role {
                    Role::LocalDecl => "L",
                    Role::Param => "P",
                    Role::ForVar => "F",
                    Role::LocalFuncName => "LF",
                    Role::Use => "U",
                    Role::AssignTarget => "A",
                    Role::FuncStmtBase => "B",
                    Role::ImplicitSelf => "S",
                };
                format!("{}:{}:{}", o.name, role, o.decl.map(|d| d.to_string()).unwrap_or_else(|| "g".to_string()))
            })
            .collect()
    }

    #[test]
    fn local_initialiser_sees_outer() {
        assert_eq!(rs("local x = 1 local x = x return x"), vec!["x:L:0", "x:L:1", "x:U:0", "x:U:1"]);
        assert_eq!(rs("local x = x"), vec!["x:L:0", "x:U:g"]);
        assert_eq!(rs("local a, b = b, a"), vec!["a:L:0", "b:L:1", "b:U:g", "a:U:g"]);
        assert_eq!(rs("local a local a, b = a, a"), vec!["a:L:0", "a:L:1", "b:L:2", "a:U:0", "a:U:0"]);
    }

    #[test]
    fn local_function_is_recursive_but_local_assignment_is_not() {
        assert_eq!(rs("local function f() return f end"), vec!["f:LF:0", "f:U:0"]);
        assert_eq!(rs("local f = function() return f end"), vec!["f:L:0", "f:U:g"]);
        assert_eq!(rs("const function f() return f end"), vec!["f:LF:0", "f:U:0"]);
    }

    #[test]
    fn blocks_scope() {
        assert_eq!(rs("do local x = 1 end return x"), vec!["x:L:0", "x:U:g"]);
        assert_eq!(
            rs("local x if x then local x = 2 x = 3 else x = 4 end x = 5"),
            vec!["x:L:0", "x:U:0", "x:L:1", "x:A:1", "x:A:0", "x:A:0"]
        );
        assert_eq!(rs("while x do local x = 1 end"), vec!["x:U:g", "x:L:0"]);
        assert_eq!(rs("local y while y do local y = y end"), vec!["y:L:0", "y:U:0", "y:L:1", "y:U:0"]);
    }

    #[test]
    fn for_loops() {
        assert_eq!(
            rs("local i = 1 for i = i, i + 1, i do print(i) end print(i)"),
            vec!["i:L:0", "i:F:1", "i:U:0", "i:U:0", "i:U:0", "print:U:g", "i:U:1", "print:U:g", "i:U:0"]
        );
        assert_eq!(
            rs("for k, v in pairs(k) do v = k end k = v"),
            vec!["k:F:0", "v:F:1", "pairs:U:g", "k:U:g", "v:A:1", "k:U:0", "k:A:g", "v:U:g"]
        );
        // a body-level local shadows the loop variable
        assert_eq!(rs("for i = 1, 2 do local i = i end"), vec!["i:F:0", "i:L:1", "i:U:0"]);
    }

    #[test]
    fn repeat_until_sees_body_locals() {
        assert_eq!(rs("local x repeat local x = 1 until x"), vec!["x:L:0", "x:L:1", "x:U:1"]);
        assert_eq!(rs("repeat local y until y return y"), vec!["y:L:0", "y:U:0", "y:U:g"]);
    }

    #[test]
    fn functions_and_params() {
        assert_eq!(
            rs("local a function f(a, b) return a, b, f end return a"),
            vec!["a:L:0", "f:B:g", "a:P:1", "b:P:2", "a:U:1", "b:U:2", "f:U:g", "a:U:0"]
        );
        assert_eq!(
            rs("local t = {} function t.a.b(x) return t, x end"),
            vec!["t:L:0", "t:B:0", "x:P:1", "t:U:0", "x:U:1"]
        );
        assert_eq!(
            rs("function obj:m(x) return self, x end return self"),
            vec!["obj:B:g", "self:S:0", "x:P:1", "self:U:0", "x:U:1", "self:U:g"]
        );
        // explicit parameter named self shadows the implicit one
        assert_eq!(rs("function o:m(self) return self end"), vec!["o:B:g", "self:S:0", "self:P:1", "self:U:1"]);
        // body local shadows a parameter
        assert_eq!(rs("local function f(a) local a = a return a end"), vec!["f:LF:0", "a:P:1", "a:L:2", "a:U:1", "a:U:2"]);
        // closures capture enclosing locals
        assert_eq!(
            rs("local u = 1 local g = function() u = u + 1 return function() return u end end"),
            vec!["u:L:0", "g:L:1", "u:A:0", "u:U:0", "u:U:0"]
        );
        // o.f = function ... : no implicit self
        assert_eq!(rs("function o.f() return self end"), vec!["o:B:g", "self:U:g"]);
    }

    #[test]
    fn assignment_targets() {
        assert_eq!(
            rs("local a, t a, t.x, t[a], g = g, a"),
            vec!["a:L:0", "t:L:1", "a:A:0", "t:U:1", "t:U:1", "a:U:0", "g:A:g", "g:U:g", "a:U:0"]
        );
        assert_eq!(rs("local n n += n x ..= n"), vec!["n:L:0", "n:A:0", "n:U:0", "x:A:g", "n:U:0"]);
    }

    #[test]
    fn non_variables_are_skipped() {
        assert_eq!(
            rs("local t = { a = b, [c] = d, e } t.f:g(h) t.i.j = k"),
            vec!["t:L:0", "b:U:g", "c:U:g", "d:U:g", "e:U:g", "t:U:0", "h:U:g", "t:U:0", "k:U:g"]
        );
        assert_eq!(rs("type T<U> = U local x: T<number> = 1 :: number"), vec!["x:L:0"]);
        assert_eq!(rs("@native function f() end @[deprecated{reason = r}] function g() end"), vec!["f:B:g", "r:U:g", "g:B:g"]);
    }

    #[test]
    fn typeof_expressions_are_visited_in_source_position() {
        assert_eq!(
            rs("local y local a: typeof(y), b: typeof(a) = y, a"),
            vec!["y:L:0", "a:L:1", "y:U:0", "b:L:2", "a:U:g", "y:U:0", "a:U:g"]
        );
        assert_eq!(
            rs("local function f(a, b: typeof(a)): typeof(b) return a :: typeof(f) end"),
            vec!["f:LF:0", "a:P:1", "b:P:2", "a:U:1", "b:U:2", "a:U:1", "f:U:0"]
        );
        assert_eq!(rs("local v type T = { x: typeof(v), y: (typeof(w)) -> () }"), vec!["v:L:0", "v:U:0", "w:U:g"]);
        assert_eq!(rs("for i: typeof(i) = 1, 2 do end"), vec!["i:F:0", "i:U:g"]);
    }

    #[test]
    fn misc_expressions() {
        assert_eq!(
            rs("local a = `x{a}y{b}` local c = if a then a else c"),
            vec!["a:L:0", "a:U:g", "b:U:g", "c:L:1", "a:U:0", "a:U:0", "c:U:g"]
        );
        assert_eq!(rs("local f f<<T>>(f)"), vec!["f:L:0", "f:U:0", "f:U:0"]);
        assert_eq!(rs("type function tf(a) return a, tf end"), vec!["a:P:0", "a:U:0", "tf:U:g"]);
        assert_eq!(rs("return ..., (a)"), vec!["a:U:g"]);
    }
}
