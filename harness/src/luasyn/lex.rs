//! Hand-written lexer for Lua 5.1 and Luau.  Independent of darklua / full_moon.
//!
//! Lines are counted by `\n` only (line = 1 + number of `\n` bytes before the position).

use crate::luasyn::literal;
use crate::luasyn::{Mode, SynError};

#[derive(Clone, Copy, Debug, PartialEq, Eq, Hash)]
pub enum TokKind {
    Name,
    Keyword,
    Number,
    Str,
    /// `` `abc` `` (no interpolation)
    InterpSimple,
    /// `` `abc{ ``
    InterpBegin,
    /// `}abc{`
    InterpMid,
    /// `` }abc` ``
    InterpEnd,
    Symbol,
    Eof,
}

#[derive(Clone, Debug, PartialEq, Eq)]
pub struct Token {
    pub kind: TokKind,
    /// exact source slice
    pub text: String,
    /// byte offsets `[start, end)`
    pub start: usize,
    pub end: usize,
    /// 1-based line of the first byte
    pub line: u32,
    /// line of the last byte
    pub end_line: u32,
}

#[derive(Clone, Debug, PartialEq, Eq)]
pub struct Comment {
    /// exact source slice including the leading `--` (a line comment excludes its newline)
    pub text: String,
    pub start: usize,
    pub end: usize,
    pub line: u32,
    pub end_line: u32,
    pub long: bool,
}

#[derive(Clone, Debug)]
pub struct LexOutput {
    /// ends with an `Eof` token
    pub tokens: Vec<Token>,
    pub comments: Vec<Comment>,
    /// text of a skipped first line starting with `#` (without its newline)
    pub shebang: Option<String>,
}

pub const KEYWORDS: [&str; 21] = [
    "and", "break", "do", "else", "elseif", "end", "false", "for", "function", "if", "in", "local", "nil", "not",
    "or", "repeat", "return", "then", "true", "until", "while",
];

pub fn is_keyword(s: &str) -> bool {
    KEYWORDS.contains(&s)
}

fn is_space(b: u8) -> bool {
    matches!(b, b' ' | b'\t' | b'\r' | b'\n' | 0x0B | 0x0C)
}

fn is_name_start(b: u8) -> bool {
    b.is_ascii_alphabetic() || b == b'_'
}

fn is_name_char(b: u8) -> bool {
    b.is_ascii_alphanumeric() || b == b'_'
}

#[derive(Clone, Copy, PartialEq, Eq)]
enum Brace {
    Plain,
    Interp,
}

struct Lexer<'a> {
    src: &'a str,
    b: &'a [u8],
    pos: usize,
    /// line of `pos`
    line: u32,
    mode: Mode,
    tokens: Vec<Token>,
    comments: Vec<Comment>,
    braces: Vec<Brace>,
}

impl<'a> Lexer<'a> {
    fn peek(&self, off: usize) -> u8 {
        // 0 doubles as "end of input"; a real NUL byte is rejected as an unexpected character
        *self.b.get(self.pos + off).unwrap_or(&0)
    }

    fn at_end(&self) -> bool {
        self.pos >= self.b.len()
    }

    fn err_at<T>(&self, pos: usize, msg: impl Into<String>) -> Result<T, SynError> {
        let p = pos.min(self.b.len());
        let line = 1 + self.b[..p].iter().filter(|&&c| c == b'\n').count() as u32;
        Err(SynError { msg: msg.into(), pos, line })
    }

    /// Moves to `new_pos`, maintaining the line counter.
    fn advance_to(&mut self, new_pos: usize) {
        debug_assert!(new_pos >= self.pos && new_pos <= self.b.len());
        self.line += self.b[self.pos..new_pos].iter().filter(|&&c| c == b'\n').count() as u32;
        self.pos = new_pos;
    }

    fn count_lines(&self, start: usize, end: usize) -> u32 {
        self.b[start..end].iter().filter(|&&c| c == b'\n').count() as u32
    }

    /// Emits the token `[self.pos, end)` and moves past it.
    fn emit(&mut self, kind: TokKind, end: usize) {
        let start = self.pos;
        let line = self.line;
        let end_line = if end > start { line + self.count_lines(start, end - 1) } else { line };
        self.tokens.push(Token { kind, text: self.src[start..end].to_string(), start, end, line, end_line });
        self.advance_to(end);
    }

    /// If a long bracket opening `[=*[` starts at `at`, returns its level.
    /// `Err(())` for `[=+` not followed by `[`.
    fn long_open(&self, at: usize) -> Result<Option<usize>, ()> {
        if self.b.get(at) != Some(&b'[') {
            return Ok(None);
        }
        let mut i = at + 1;
        let mut level = 0;
        while self.b.get(i) == Some(&b'=') {
            level += 1;
            i += 1;
        }
        if self.b.get(i) == Some(&b'[') {
            Ok(Some(level))
        } else if level == 0 {
            Ok(None)
        } else {
            Err(())
        }
    }

    /// `at` is the offset of the opening `[`; returns the offset one past the closing bracket.
    fn long_close(&self, at: usize, level: usize) -> Option<usize> {
        let mut i = at + level + 2;
        while i < self.b.len() {
            if self.b[i] == b']' {
                let mut k = i + 1;
                let mut n = 0;
                while k < self.b.len() && self.b[k] == b'=' {
                    n += 1;
                    k += 1;
                }
                if n == level && k < self.b.len() && self.b[k] == b']' {
                    return Some(k + 1);
                }
                // `]==` that does not close: the `=` cannot start a closer, continue after them,
                // but a following `]` can, so step to `k` (which is not `=`)
                i = k.max(i + 1);
                continue;
            }
            i += 1;
        }
        None
    }

    /// Skips one backslash escape inside a quoted / interpolated string for *scanning* purposes.
    /// `i` is the offset of the backslash; returns the offset after the escape.
    fn skip_escape(&self, i: usize) -> usize {
        let luau = self.mode == Mode::Luau;
        let mut j = i + 1;
        match self.b.get(j) {
            None => j,
            Some(b'\r') => {
                j += 1;
                if self.b.get(j) == Some(&b'\n') {
                    j += 1;
                }
                j
            }
            Some(b'\n') => {
                j += 1;
                if !luau && self.b.get(j) == Some(&b'\r') {
                    j += 1;
                }
                j
            }
            Some(b'z') if luau => {
                j += 1;
                while j < self.b.len() && is_space(self.b[j]) {
                    j += 1;
                }
                j
            }
            Some(_) => j + 1,
        }
    }

    fn lex_quoted(&mut self) -> Result<(), SynError> {
        let start = self.pos;
        let q = self.b[start];
        let mut i = start + 1;
        loop {
            match self.b.get(i) {
                None => return self.err_at(start, "unfinished string"),
                Some(&c) if c == q => {
                    i += 1;
                    break;
                }
                Some(b'\n') | Some(b'\r') => return self.err_at(i, "unfinished string (unescaped newline)"),
                Some(b'\\') => {
                    if i + 1 >= self.b.len() {
                        return self.err_at(start, "unfinished string");
                    }
                    i = self.skip_escape(i);
                }
                Some(_) => i += 1,
            }
        }
        if let Err(m) = literal::decode_string(&self.src[start..i], self.mode) {
            return self.err_at(start, format!("malformed string: {}", m));
        }
        self.emit(TokKind::Str, i);
        Ok(())
    }

    /// Lexes one section of an interpolated string.  `self.pos` is at the opening delimiter
    /// (a backtick or the `}` that closes an interpolated expression).
    fn lex_interp_section(&mut self, kind_open: TokKind, kind_closed: TokKind) -> Result<(), SynError> {
        let start = self.pos;
        let mut i = start + 1;
        let kind;
        loop {
            match self.b.get(i) {
                None => return self.err_at(start, "unfinished interpolated string"),
                Some(b'`') => {
                    i += 1;
                    kind = kind_closed;
                    break;
                }
                Some(b'\n') | Some(b'\r') => {
                    return self.err_at(i, "unfinished interpolated string (unescaped newline)")
                }
                Some(b'\\') => {
                    if i + 1 >= self.b.len() {
                        return self.err_at(start, "unfinished interpolated string");
                    }
                    if self.b.get(i + 1) == Some(&b'u') && self.b.get(i + 2) == Some(&b'{') {
                        i += 3;
                    } else {
                        i = self.skip_escape(i);
                    }
                }
                Some(b'{') => {
                    if self.b.get(i + 1) == Some(&b'{') {
                        return self.err_at(
                            i,
                            "double braces are not permitted within interpolated strings; did you mean '\\{'?",
                        );
                    }
                    i += 1;
                    self.braces.push(Brace::Interp);
                    kind = kind_open;
                    break;
                }
                Some(_) => i += 1,
            }
        }
        if let Err(m) = literal::decode_interp_segment(&self.src[start + 1..i - 1]) {
            return self.err_at(start, format!("malformed interpolated string: {}", m));
        }
        self.emit(kind, i);
        Ok(())
    }

    fn lex_number(&mut self) -> Result<(), SynError> {
        let start = self.pos;
        let luau = self.mode == Mode::Luau;
        let mut i = start;
        // same shape as the real lexers: digits and dots (and `_` in Luau), an optional exponent
        // marker with sign, then any alphanumerics; the collected text is validated afterwards
        loop {
            i += 1;
            match self.b.get(i) {
                Some(&c) if c.is_ascii_digit() || c == b'.' || (luau && c == b'_') => {}
                _ => break,
            }
        }
        if matches!(self.b.get(i), Some(b'e') | Some(b'E')) {
            i += 1;
            if matches!(self.b.get(i), Some(b'+') | Some(b'-')) {
                i += 1;
            }
        }
        while matches!(self.b.get(i), Some(&c) if is_name_char(c)) {
            i += 1;
        }
        if let Err(m) = literal::decode_number(&self.src[start..i], self.mode) {
            return self.err_at(start, m);
        }
        self.emit(TokKind::Number, i);
        Ok(())
    }

    fn lex_comment(&mut self) -> Result<(), SynError> {
        let start = self.pos;
        let line = self.line;
        if let Ok(Some(level)) = self.long_open(start + 2) {
            let end = match self.long_close(start + 2, level) {
                Some(e) => e,
                None => return self.err_at(start, "unfinished long comment"),
            };
            let end_line = line + self.count_lines(start, end - 1);
            self.comments.push(Comment {
                text: self.src[start..end].to_string(),
                start,
                end,
                line,
                end_line,
                long: true,
            });
            self.advance_to(end);
            return Ok(());
        }
        let mut i = start + 2;
        while i < self.b.len() && self.b[i] != b'\n' && self.b[i] != b'\r' {
            i += 1;
        }
        self.comments.push(Comment {
            text: self.src[start..i].to_string(),
            start,
            end: i,
            line,
            end_line: line,
            long: false,
        });
        self.advance_to(i);
        Ok(())
    }

    fn symbol_len(&self) -> Option<usize> {
        let luau = self.mode == Mode::Luau;
        let c0 = self.peek(0);
        let c1 = self.peek(1);
        let c2 = self.peek(2);
        let n = match c0 {
            b'.' => {
                if c1 == b'.' && c2 == b'.' {
                    3
                } else if c1 == b'.' && c2 == b'=' && luau {
                    3
                } else if c1 == b'.' {
                    2
                } else {
                    1
                }
            }
            b'=' => {
                if c1 == b'=' {
                    2
                } else {
                    1
                }
            }
            b'~' => {
                if c1 == b'=' {
                    2
                } else {
                    return None;
                }
            }
            b'<' | b'>' => {
                if c1 == b'=' {
                    2
                } else {
                    1
                }
            }
            b':' => {
                if luau && c1 == b':' {
                    2
                } else {
                    1
                }
            }
            b'-' => {
                if luau && (c1 == b'>' || c1 == b'=') {
                    2
                } else {
                    1
                }
            }
            b'+' | b'*' | b'%' | b'^' => {
                if luau && c1 == b'=' {
                    2
                } else {
                    1
                }
            }
            b'/' => {
                if luau && c1 == b'/' && c2 == b'=' {
                    3
                } else if luau && (c1 == b'/' || c1 == b'=') {
                    2
                } else {
                    1
                }
            }
            b'#' | b'(' | b')' | b'{' | b'}' | b'[' | b']' | b';' | b',' => 1,
            b'?' | b'|' | b'&' | b'@' if luau => 1,
            _ => return None,
        };
        Some(n)
    }

    fn run(&mut self, allow_shebang: bool) -> Result<Option<String>, SynError> {
        // byte order mark
        if self.b.starts_with(&[0xEF, 0xBB, 0xBF]) {
            self.pos = 3;
        }
        let mut shebang = None;
        if allow_shebang && self.peek(0) == b'#' && !self.at_end() {
            let start = self.pos;
            let mut i = start;
            while i < self.b.len() && self.b[i] != b'\n' && self.b[i] != b'\r' {
                i += 1;
            }
            shebang = Some(self.src[start..i].to_string());
            self.advance_to(i);
        }
        loop {
            // whitespace
            let mut i = self.pos;
            while i < self.b.len() && is_space(self.b[i]) {
                i += 1;
            }
            self.advance_to(i);
            if self.at_end() {
                self.emit(TokKind::Eof, self.pos);
                return Ok(shebang);
            }
            let c = self.peek(0);
            if c == b'-' && self.peek(1) == b'-' {
                self.lex_comment()?;
                continue;
            }
            if is_name_start(c) {
                let mut i = self.pos + 1;
                while i < self.b.len() && is_name_char(self.b[i]) {
                    i += 1;
                }
                let kind = if is_keyword(&self.src[self.pos..i]) { TokKind::Keyword } else { TokKind::Name };
                self.emit(kind, i);
                continue;
            }
            if c.is_ascii_digit() || (c == b'.' && self.peek(1).is_ascii_digit()) {
                self.lex_number()?;
                continue;
            }
            if c == b'"' || c == b'\'' {
                self.lex_quoted()?;
                continue;
            }
            if c == b'`' && self.mode == Mode::Luau {
                self.lex_interp_section(TokKind::InterpBegin, TokKind::InterpSimple)?;
                continue;
            }
            if c == b'[' {
                match self.long_open(self.pos) {
                    Ok(Some(level)) => {
                        let end = match self.long_close(self.pos, level) {
                            Some(e) => e,
                            None => return self.err_at(self.pos, "unfinished long string"),
                        };
                        self.emit(TokKind::Str, end);
                        continue;
                    }
                    Ok(None) => {}
                    Err(()) => return self.err_at(self.pos, "invalid long string delimiter"),
                }
            }
            if c == b'{' {
                self.braces.push(Brace::Plain);
                self.emit(TokKind::Symbol, self.pos + 1);
                continue;
            }
            if c == b'}' {
                match self.braces.pop() {
                    Some(Brace::Interp) => {
                        self.lex_interp_section(TokKind::InterpMid, TokKind::InterpEnd)?;
                    }
                    _ => self.emit(TokKind::Symbol, self.pos + 1),
                }
                continue;
            }
            match self.symbol_len() {
                Some(n) => self.emit(TokKind::Symbol, self.pos + n),
                None => {
                    let ch = self.src[self.pos..].chars().next().unwrap();
                    return self.err_at(self.pos, format!("unexpected character {:?}", ch));
                }
            }
        }
    }
}

pub fn lex(src: &str, mode: Mode) -> Result<LexOutput, SynError> {
    lex_impl(src, mode, true)
}

/// Like [`lex`] but a leading `#` is the length operator, never a shebang line (for expression
/// snippets).
pub fn lex_no_shebang(src: &str, mode: Mode) -> Result<LexOutput, SynError> {
    lex_impl(src, mode, false)
}

fn lex_impl(src: &str, mode: Mode, allow_shebang: bool) -> Result<LexOutput, SynError> {
    let mut lx = Lexer {
        src,
        b: src.as_bytes(),
        pos: 0,
        line: 1,
        mode,
        tokens: Vec::new(),
        comments: Vec::new(),
        braces: Vec::new(),
    };
    let shebang = lx.run(allow_shebang)?;
    Ok(LexOutput { tokens: lx.tokens, comments: lx.comments, shebang })
}

#[cfg(test)]
mod tests {
    use super::*;
    use TokKind::*;

    fn kinds_texts(src: &str, mode: Mode) -> Vec<(TokKind, String)> {
        let out = lex(src, mode).unwrap_or_else(|e| panic!("lex error on {:?}: {}", src, e));
        let mut v: Vec<(TokKind, String)> = out.tokens.iter().map(|t| (t.kind, t.text.clone())).collect();
        assert_eq!(v.pop().unwrap().0, Eof);
        v
    }

    fn texts(src: &str, mode: Mode) -> Vec<String> {
        kinds_texts(src, mode).into_iter().map(|(_, t)| t).collect()
    }

    fn check_spans(src: &str, mode: Mode) {
        let out = lex(src, mode).unwrap();
        for t in &out.tokens {
            assert_eq!(&src[t.start..t.end], t.text);
            assert_eq!(t.line as usize, 1 + src[..t.start].matches('\n').count());
            if t.end > t.start {
                assert_eq!(t.end_line as usize, 1 + src[..t.end - 1].matches('\n').count());
            }
        }
        for c in &out.comments {
            assert_eq!(&src[c.start..c.end], c.text);
            assert_eq!(c.line as usize, 1 + src[..c.start].matches('\n').count());
            assert_eq!(c.end_line as usize, 1 + src[..c.end - 1].matches('\n').count());
        }
    }

    #[test]
    fn names_and_keywords() {
        let v = kinds_texts("local x = nil and _foo1 or continue type export typeof const read write", Mode::Luau);
        let expect = [
            (Keyword, "local"),
            (Name, "x"),
            (Symbol, "="),
            (Keyword, "nil"),
            (Keyword, "and"),
            (Name, "_foo1"),
            (Keyword, "or"),
            (Name, "continue"),
            (Name, "type"),
            (Name, "export"),
            (Name, "typeof"),
            (Name, "const"),
            (Name, "read"),
            (Name, "write"),
        ];
        assert_eq!(v.len(), expect.len());
        for (a, b) in v.iter().zip(expect.iter()) {
            assert_eq!((a.0, a.1.as_str()), *b);
        }
        for k in KEYWORDS {
            assert_eq!(kinds_texts(k, Mode::Lua51), vec![(Keyword, k.to_string())]);
            assert_eq!(kinds_texts(k, Mode::Luau), vec![(Keyword, k.to_string())]);
        }
        assert_eq!(kinds_texts("goto", Mode::Lua51), vec![(Name, "goto".to_string())]);
        assert!(lex("é", Mode::Luau).is_err());
        assert!(lex("x = caf\u{e9}", Mode::Lua51).is_err());
        assert!(lex("a $ b", Mode::Luau).is_err());
        assert!(lex("a \0 b", Mode::Luau).is_err());
        assert!(lex("a ~ b", Mode::Luau).is_err());
        assert!(lex("a ! b", Mode::Luau).is_err());
    }

    #[test]
    fn symbols_longest_match() {
        assert_eq!(
            texts("... .. ..= == ~= <= >= :: -> += -= *= /= // //= %= ^=", Mode::Luau),
            vec!["...", "..", "..=", "==", "~=", "<=", ">=", "::", "->", "+=", "-=", "*=", "/=", "//", "//=", "%=", "^="]
        );
        assert_eq!(
            texts("+ - * / % ^ # < > = ( ) { } [ ] ; : , . ? | & @", Mode::Luau),
            vec!["+", "-", "*", "/", "%", "^", "#", "<", ">", "=", "(", ")", "{", "}", "[", "]", ";", ":", ",", ".", "?", "|", "&", "@"]
        );
        assert_eq!(texts("a>>b<<c", Mode::Luau), vec!["a", ">", ">", "b", "<", "<", "c"]);
        assert_eq!(texts("a>>=b", Mode::Luau), vec!["a", ">", ">=", "b"]);
        assert_eq!(texts("a....b", Mode::Luau), vec!["a", "...", ".", "b"]);
        assert_eq!(texts("a.....b", Mode::Luau), vec!["a", "...", "..", "b"]);
        assert_eq!(texts("a..=b", Mode::Luau), vec!["a", "..=", "b"]);
        assert_eq!(texts("a...=b", Mode::Luau), vec!["a", "...", "=", "b"]);
        assert_eq!(texts("a///b", Mode::Luau), vec!["a", "//", "/", "b"]);
        assert_eq!(texts("a//=b", Mode::Luau), vec!["a", "//=", "b"]);
        assert_eq!(texts("a:::b", Mode::Luau), vec!["a", "::", ":", "b"]);
        assert_eq!(texts("a===b", Mode::Luau), vec!["a", "==", "=", "b"]);
        assert_eq!(texts("a-->b", Mode::Luau), vec!["a"]);
        assert_eq!(texts("a- ->b", Mode::Luau), vec!["a", "-", "->", "b"]);
        // 5.1: the Luau compound symbols fall apart into their 5.1 pieces
        assert_eq!(texts("a += b", Mode::Lua51), vec!["a", "+", "=", "b"]);
        assert_eq!(texts("a // b", Mode::Lua51), vec!["a", "/", "/", "b"]);
        assert_eq!(texts("a :: b", Mode::Lua51), vec!["a", ":", ":", "b"]);
        assert_eq!(texts("a -> b", Mode::Lua51), vec!["a", "-", ">", "b"]);
        assert_eq!(texts("a ..= b", Mode::Lua51), vec!["a", "..", "=", "b"]);
        for s in ["a ? b", "a | b", "a & b", "@a", "`a`"] {
            assert!(lex(s, Mode::Lua51).is_err(), "{:?}", s);
        }
    }

    #[test]
    fn numbers() {
        for s in ["0", "12", "3.5", "5.", ".5", "1e5", "1E+5", "1e-5", "0x1F", "0XaB", "5.e3", "0xffffffffffffffffffff"] {
            assert_eq!(kinds_texts(s, Mode::Luau), vec![(Number, s.to_string())], "{}", s);
            assert_eq!(kinds_texts(s, Mode::Lua51), vec![(Number, s.to_string())], "{}", s);
        }
        for s in ["0b101", "0B1", "1_000", "0x_f_f", "0b1_0", "1_", "1e_5", "1._5"] {
            assert_eq!(kinds_texts(s, Mode::Luau), vec![(Number, s.to_string())], "{}", s);
            assert!(lex(s, Mode::Lua51).is_err(), "{}", s);
        }
        for s in ["3x", "0x", "1e", "1e+", "1..2", "1.2.3", "0b2", "0b", "3and", "1e5x", "0xg", "12abc", "1.5.", "0x1p4", "1...2"] {
            assert!(lex(s, Mode::Luau).is_err(), "{}", s);
            assert!(lex(s, Mode::Lua51).is_err(), "{}", s);
        }
        assert_eq!(texts("1 ..2", Mode::Luau), vec!["1", "..", "2"]);
        assert_eq!(texts("1 .. 2", Mode::Lua51), vec!["1", "..", "2"]);
        assert_eq!(texts("a.b", Mode::Luau), vec!["a", ".", "b"]);
        assert_eq!(texts("a.1", Mode::Luau), vec!["a", ".1"]);
        assert_eq!(texts("0x1e+5", Mode::Luau), vec!["0x1e", "+", "5"]);
        assert_eq!(texts("0xe+5", Mode::Lua51), vec!["0xe", "+", "5"]);
        assert_eq!(texts("1e+5+5", Mode::Luau), vec!["1e+5", "+", "5"]);
        assert_eq!(texts("1-2", Mode::Luau), vec!["1", "-", "2"]);
        assert_eq!(texts("._5", Mode::Luau), vec![".", "_5"]);
        assert_eq!(texts("x=1;", Mode::Luau), vec!["x", "=", "1", ";"]);
        assert_eq!(texts("{1,2}", Mode::Luau), vec!["{", "1", ",", "2", "}"]);
        assert_eq!(texts("t[1]", Mode::Luau), vec!["t", "[", "1", "]"]);
    }

    #[test]
    fn strings() {
        for mode in [Mode::Luau, Mode::Lua51] {
            assert_eq!(kinds_texts(r#""a\"b" 'c\'d'"#, mode), vec![(Str, r#""a\"b""#.to_string()), (Str, r#"'c\'d'"#.to_string())]);
            assert_eq!(kinds_texts("\"a\\\nb\"", mode), vec![(Str, "\"a\\\nb\"".to_string())]);
            assert_eq!(kinds_texts("\"a\\\r\nb\"", mode), vec![(Str, "\"a\\\r\nb\"".to_string())]);
            assert_eq!(kinds_texts(r#""\\""#, mode), vec![(Str, r#""\\""#.to_string())]);
            assert_eq!(texts(r#""\\"x"#, mode), vec![r#""\\""#, "x"]);
            assert!(lex("\"abc", mode).is_err());
            assert!(lex("\"abc\n\"", mode).is_err());
            assert!(lex("\"abc\r\"", mode).is_err());
            assert!(lex("'abc\\", mode).is_err());
            assert!(lex("'abc\\'", mode).is_err());
            assert!(lex(r#""\300""#, mode).is_err());
            // long strings
            assert_eq!(kinds_texts("[[a]]", mode), vec![(Str, "[[a]]".to_string())]);
            assert_eq!(kinds_texts("[[a\nb]]", mode), vec![(Str, "[[a\nb]]".to_string())]);
            assert_eq!(kinds_texts("[==[a]]b]=]c]==]", mode), vec![(Str, "[==[a]]b]=]c]==]".to_string())]);
            assert_eq!(texts("[=[a]=]=]", mode), vec!["[=[a]=]", "=", "]"]);
            assert_eq!(texts("[[a]]]", mode), vec!["[[a]]", "]"]);
            assert_eq!(texts("[=[]]=]", mode), vec!["[=[]]=]"]);
            assert_eq!(texts("[=[]==]]=]", mode), vec!["[=[]==]]=]"]);
            assert_eq!(texts("a[b[1]]", mode), vec!["a", "[", "b", "[", "1", "]", "]"]);
            assert_eq!(texts("a[ [[x]] ]", mode), vec!["a", "[", "[[x]]", "]"]);
            assert!(lex("[[abc", mode).is_err());
            assert!(lex("[=[abc]]", mode).is_err());
            assert!(lex("[=abc", mode).is_err());
            assert!(lex("x = [==", mode).is_err());
        }
        // \z spans newlines in Luau only
        assert_eq!(kinds_texts("\"a\\z\n  b\"", Mode::Luau), vec![(Str, "\"a\\z\n  b\"".to_string())]);
        assert!(lex("\"a\\z\n  b\"", Mode::Lua51).is_err());
        assert!(lex(r#""\xZZ""#, Mode::Luau).is_err());
        assert!(lex(r#""\xZZ""#, Mode::Lua51).is_ok());
        assert!(lex(r#""\u{110000}""#, Mode::Luau).is_err());
    }

    #[test]
    fn comments_and_lines() {
        let src = "-- first\nlocal a --[[ in\nline ]] = 1 --[==[ x ]] ]==]\n--[ not long\nreturn a --";
        for mode in [Mode::Luau, Mode::Lua51] {
            check_spans(src, mode);
            let out = lex(src, mode).unwrap();
            let c: Vec<(&str, bool, u32, u32)> =
                out.comments.iter().map(|c| (c.text.as_str(), c.long, c.line, c.end_line)).collect();
            assert_eq!(
                c,
                vec![
                    ("-- first", false, 1, 1),
                    ("--[[ in\nline ]]", true, 2, 3),
                    ("--[==[ x ]] ]==]", true, 3, 3),
                    ("--[ not long", false, 4, 4),
                    ("--", false, 5, 5),
                ]
            );
            let t: Vec<(&str, u32)> = out.tokens.iter().map(|t| (t.text.as_str(), t.line)).collect();
            assert_eq!(t, vec![("local", 2), ("a", 2), ("=", 3), ("1", 3), ("return", 5), ("a", 5), ("", 5)]);
            assert!(lex("--[[ never closed", mode).is_err());
            assert!(lex("--[==[ never closed ]=]", mode).is_err());
            // `--[=` without second bracket is a line comment
            assert_eq!(lex("--[= x\ny", mode).unwrap().comments[0].text, "--[= x");
            // CRLF: the comment stops before the CR
            let o = lex("a -- c\r\nb", mode).unwrap();
            assert_eq!(o.comments[0].text, "-- c");
            assert_eq!(o.tokens[1].line, 2);
        }
        let src = "x = [[\na\nb]] y = \"p\\\nq\" z";
        check_spans(src, Mode::Luau);
        let out = lex(src, Mode::Luau).unwrap();
        let t: Vec<(&str, u32, u32)> = out.tokens.iter().map(|t| (t.text.as_str(), t.line, t.end_line)).collect();
        assert_eq!(t[2], ("[[\na\nb]]", 1, 3));
        assert_eq!(t[3], ("y", 3, 3));
        assert_eq!(t[5], ("\"p\\\nq\"", 3, 4));
        assert_eq!(t[6], ("z", 4, 4));
        // CR alone is whitespace and does not count as a line
        let out = lex("a\rb\r\nc\n\rd", Mode::Luau).unwrap();
        let t: Vec<(&str, u32)> = out.tokens.iter().map(|t| (t.text.as_str(), t.line)).collect();
        assert_eq!(t, vec![("a", 1), ("b", 1), ("c", 2), ("d", 3), ("", 3)]);
        // other whitespace
        assert_eq!(texts("a\x0Bb\x0Cc\td", Mode::Lua51), vec!["a", "b", "c", "d"]);
    }

    #[test]
    fn bom_and_shebang() {
        let out = lex("\u{feff}local a", Mode::Luau).unwrap();
        assert_eq!(out.tokens[0].text, "local");
        assert_eq!(out.tokens[0].start, 3);
        assert!(lex("local \u{feff}a", Mode::Luau).is_err());
        let out = lex("#!/usr/bin/lua\nlocal a", Mode::Lua51).unwrap();
        assert_eq!(out.shebang.as_deref(), Some("#!/usr/bin/lua"));
        assert_eq!(out.tokens[0].text, "local");
        assert_eq!(out.tokens[0].line, 2);
        let out = lex("\u{feff}# anything\r\nlocal a", Mode::Luau).unwrap();
        assert_eq!(out.shebang.as_deref(), Some("# anything"));
        assert_eq!(out.tokens[0].line, 2);
        let out = lex("#x", Mode::Luau).unwrap();
        assert_eq!(out.shebang.as_deref(), Some("#x"));
        assert_eq!(out.tokens.len(), 1);
        // `#` elsewhere is the length operator
        let out = lex("\n#x", Mode::Luau).unwrap();
        assert!(out.shebang.is_none());
        assert_eq!(out.tokens[0].text, "#");
        let out = lex("", Mode::Luau).unwrap();
        assert_eq!(out.tokens.len(), 1);
        assert_eq!(out.tokens[0].kind, Eof);
        assert_eq!(out.tokens[0].line, 1);
    }

    #[test]
    fn interpolated_strings() {
        assert_eq!(kinds_texts("`abc`", Mode::Luau), vec![(InterpSimple, "`abc`".to_string())]);
        assert_eq!(kinds_texts("``", Mode::Luau), vec![(InterpSimple, "``".to_string())]);
        assert_eq!(
            kinds_texts("`a{x}b{y}c`", Mode::Luau),
            vec![
                (InterpBegin, "`a{".to_string()),
                (Name, "x".to_string()),
                (InterpMid, "}b{".to_string()),
                (Name, "y".to_string()),
                (InterpEnd, "}c`".to_string()),
            ]
        );
        assert_eq!(
            kinds_texts("`{x}`", Mode::Luau),
            vec![(InterpBegin, "`{".to_string()), (Name, "x".to_string()), (InterpEnd, "}`".to_string())]
        );
        // a table inside the interpolation
        assert_eq!(
            texts("`a{ {1, {2}} }b`", Mode::Luau),
            vec!["`a{", "{", "1", ",", "{", "2", "}", "}", "}b`"]
        );
        // nested interpolated strings
        assert_eq!(
            kinds_texts("`a{`b{c}d`}e`", Mode::Luau),
            vec![
                (InterpBegin, "`a{".to_string()),
                (InterpBegin, "`b{".to_string()),
                (Name, "c".to_string()),
                (InterpEnd, "}d`".to_string()),
                (InterpEnd, "}e`".to_string()),
            ]
        );
        // escapes
        assert_eq!(kinds_texts(r"`a\{b\`c`", Mode::Luau), vec![(InterpSimple, r"`a\{b\`c`".to_string())]);
        assert_eq!(kinds_texts(r"`\u{41}`", Mode::Luau), vec![(InterpSimple, r"`\u{41}`".to_string())]);
        assert_eq!(kinds_texts("`a\\\nb`", Mode::Luau), vec![(InterpSimple, "`a\\\nb`".to_string())]);
        assert_eq!(texts("`a'\"b`", Mode::Luau), vec!["`a'\"b`"]);
        // a `}` outside an interpolation is a plain symbol
        assert_eq!(texts("{`{a}`}", Mode::Luau), vec!["{", "`{", "a", "}`", "}"]);
        assert!(lex("`a{{b}}`", Mode::Luau).is_err());
        assert!(lex("`abc", Mode::Luau).is_err());
        assert!(lex("`abc\n`", Mode::Luau).is_err());
        assert!(lex("`a{x}b", Mode::Luau).is_err());
        assert!(lex(r"`\xZZ`", Mode::Luau).is_err());
        assert!(lex("`a`", Mode::Lua51).is_err());
        check_spans("x = `a{1}\\\nb{2}c` y", Mode::Luau);
    }
}
