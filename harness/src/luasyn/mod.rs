//! `luasyn`: an independent, hand-written lexer + recursive-descent parser for Lua 5.1 and Luau.
//!
//! Shares no code with darklua or full_moon.  Entry points:
//!
//! * [`lex`] — token stream + comment list,
//! * [`parse`] / [`parse_expr`] — reference AST (`ast.rs`) plus token list and type-syntax spans,
//! * [`decode_string`] / [`decode_number`] / [`decode_interp_segment`] — literal decoder,
//! * [`census`] — Luau feature census,
//! * [`resolve`] — binding resolver.

pub mod ast;
pub mod census;
pub mod lex;
pub mod literal;
pub mod parse;
pub mod resolve;

#[derive(Clone, Copy, Debug, PartialEq, Eq)]
pub enum Mode {
    Luau,
    Lua51,
}

#[derive(Clone, Debug)]
pub struct SynError {
    pub msg: String,
    /// byte offset
    pub pos: usize,
    /// 1-based line (1 + number of `\n` bytes before `pos`)
    pub line: u32,
}

impl std::fmt::Display for SynError {
    fn fmt(&self, f: &mut std::fmt::Formatter<'_>) -> std::fmt::Result {
        write!(f, "line {} (byte {}): {}", self.line, self.pos, self.msg)
    }
}

impl std::error::Error for SynError {}

pub use census::{census, Census};
pub use lex::{lex, Comment, LexOutput, TokKind, Token};
pub use literal::{decode_interp_segment, decode_number, decode_string, uses_luau_only_escape};
pub use parse::{parse, parse_expr, parse_with_options, ParseOptions, ParseOutput};
pub use resolve::{resolve, Occurrence, Resolution, Role};
