pub mod ast;
