//! `luasyn`: an independent, hand-written lexer + recursive-descent parser for Lua 5.1 and Luau.
//!
//! Shares no code with darklua or full_moon.  Entry points:
//!
//! * [`lex()`] — token stream + comment list,
//! * [`parse()`] / [`parse_expr`] — reference AST (`ast.rs`) plus token list and type-syntax spans,
//! * [`decode_string`] / [`decode_number`] / [`decode_interp_segment`] — literal decoder,
//! * [`census()`] — Luau feature census,
//! * [`resolve()`] — binding resolver.
//!
//! # Behaviour worth knowing (all covered by unit tests)
//!
//! Faithful to the reference implementations (Lua 5.1 `llex.c`/`lparser.c`, Luau `Lexer`/`Parser`):
//!
//! * `return`, `break` and `continue` must be the last statement of their block (both modes);
//!   `break` / `continue` outside a loop and `...` outside a vararg function are errors (these two
//!   context checks can be switched off with [`parse_with_options`]).  A lone `;` is an error.
//! * Luau: a simple expression takes at most one `:: T` (`a :: T :: U` is an error); `-x :: T` is
//!   `-(x :: T)`; `a :: T < b` reads `<` as generic arguments (error); `x: T<A>= 1` fails (`>=`).
//! * Luau types: `?` counts as a union: `A & B?`, `A | B & C` are errors without parentheses.
//!   In return position `-> (A)` and as a type argument `T<(A)>` a parenthesised single type is a
//!   one-element *pack* (`ReturnType::Pack` / `TypeArg::Pack`), unless `?`, `|` or `&` follows (then
//!   it is `Type::Paren` with that suffix).  `(A) -> (B, C) | D` is `((A) -> (B, C)) | D`.
//!   `{T}` is an array type only as the sole entry without separator; `{ read }` is an array of
//!   type `read`; `read`/`write` are modifiers only before a name or `[`.
//! * `continue`, `type`, `export`, `const` are statements only when the bare name is not followed by
//!   something that continues an expression statement (`continue\n(f)()` is a call).
//! * Interpolated strings: empty literal pieces are omitted from `Expr::Interp`.
//! * Long-bracket strings: Lua 5.1 treats CRLF, LFCR, CR, LF as one newline each (leading one
//!   dropped, others become LF); Luau only CRLF and LF (a lone CR stays a CR byte).
//! * Numbers (Luau): all `_` are removed before anything else, so even `0_x10` is 16.
//!
//! Deliberately more permissive than the reference Luau parser:
//!
//! * a call whose `(` is on a new line is accepted in Luau mode (recorded in
//!   `ParseOutput::ambiguous_calls`); 5.1 mode rejects it ("ambiguous syntax").
//! * `f < < T > > ()`: the two `<` / `>` of an instantiation may be separated by trivia.
//! * attribute names and argument expressions are not validated; several table indexers are accepted;
//!   hex/binary literals wider than 64 bits are rounded correctly instead of being an error.
//!
//! Not representable in `ast.rs`, hence rejected: `obj:method<<T>>()`.
//!
//! Limits: 200 nested syntax levels (as Lua 5.1; `..` chains do not count), and at most 1000
//! operator / suffix edges along any path of the tree ([`parse::MAX_DEPTH`], [`parse::MAX_CHAIN`]).
//! Parsing never needs more than ~0.5 MiB of the caller's stack: deep inputs are re-parsed on a
//! dedicated thread.

pub mod ast;
pub mod census;
pub mod lex;
pub mod literal;
pub mod parse;
pub mod resolve;

#[derive(Clone, Copy, Debug, PartialEq, Eq)]
pub enum Mode {
    Luau,
    Lua51,
}

#[derive(Clone, Debug)]
pub struct SynError {
    pub msg: String,
    /// byte offset
    pub pos: usize,
    /// 1-based line (1 + number of `\n` bytes before `pos`)
    pub line: u32,
}

impl std::fmt::Display for SynError {
    fn fmt(&self, f: &mut std::fmt::Formatter<'_>) -> std::fmt::Result {
        write!(f, "line {} (byte {}): {}", self.line, self.pos, self.msg)
    }
}

impl std::error::Error for SynError {}

pub use census::{census, Census};
pub use lex::{lex, Comment, LexOutput, TokKind, Token};
pub use literal::{decode_interp_segment, decode_number, decode_string, uses_luau_only_escape};
pub use parse::{parse, parse_expr, parse_with_options, ParseOptions, ParseOutput};
pub use resolve::{resolve, Occurrence, Resolution, Role};
