//! Reference AST of the independent Lua 5.1 / Luau front end.
//!
//! This tree shares no code with darklua or full_moon.  It is deliberately plain:
//! owned boxes, no tokens, no spans (positions live in the lexer's token list and in
//! `ParseOutput`).  Strings are byte vectors (Lua strings are bytes).

#[derive(Clone, Debug, PartialEq)]
pub struct Block {
    pub stmts: Vec<Stmt>,
}

impl Block {
    pub fn new(stmts: Vec<Stmt>) -> Self {
        Block { stmts }
    }
}

#[derive(Clone, Debug, PartialEq)]
pub struct Binding {
    pub name: String,
    pub ty: Option<Type>,
}

impl Binding {
    pub fn new(name: impl Into<String>) -> Self {
        Binding { name: name.into(), ty: None }
    }
}

#[derive(Clone, Debug, PartialEq)]
pub struct FuncName {
    pub base: String,
    pub fields: Vec<String>,
    pub method: Option<String>,
}

#[derive(Clone, Debug, PartialEq)]
pub struct FuncBody {
    pub generics: Option<Generics>,
    pub params: Vec<Binding>,
    pub vararg: bool,
    /// annotation of `...` : either a type or a generic pack name
    pub vararg_ty: Option<Box<VariadicAnnotation>>,
    pub ret_ty: Option<Box<ReturnType>>,
    pub body: Block,
}

#[derive(Clone, Debug, PartialEq)]
pub enum VariadicAnnotation {
    Type(Type),
    GenericPack(String),
}

/// `@name`, or `@[a, b(args)]`
#[derive(Clone, Debug, PartialEq)]
pub enum Attribute {
    Name(String),
    Group(Vec<AttributeElement>),
}

#[derive(Clone, Debug, PartialEq)]
pub struct AttributeElement {
    pub name: String,
    pub args: Option<AttributeArgs>,
}

#[derive(Clone, Debug, PartialEq)]
pub enum AttributeArgs {
    Tuple(Vec<Expr>),
    Str(Vec<u8>),
    Table(Expr),
}

#[derive(Clone, Debug, PartialEq)]
pub enum Stmt {
    Local { is_const: bool, names: Vec<Binding>, values: Vec<Expr> },
    Assign { targets: Vec<Expr>, values: Vec<Expr> },
    CompoundAssign { target: Expr, op: BinOp, value: Expr },
    /// always an `Expr::Call` or `Expr::MethodCall`
    Call(Expr),
    Do(Block),
    While { cond: Expr, body: Block },
    Repeat { body: Block, cond: Expr },
    If { clauses: Vec<(Expr, Block)>, else_: Option<Block> },
    NumFor { var: Binding, start: Expr, limit: Expr, step: Option<Expr>, body: Block },
    GenFor { vars: Vec<Binding>, exprs: Vec<Expr>, body: Block },
    Function { attrs: Vec<Attribute>, name: FuncName, func: FuncBody },
    LocalFunction { attrs: Vec<Attribute>, is_const: bool, name: String, func: FuncBody },
    Return(Vec<Expr>),
    Break,
    Continue,
    TypeDecl { export: bool, name: String, generics: Option<GenericsWithDefaults>, ty: Type },
    TypeFunction { export: bool, name: String, func: FuncBody },
}

#[derive(Clone, Copy, Debug, PartialEq, Eq, Hash, PartialOrd, Ord)]
pub enum UnOp {
    Neg,
    Not,
    Len,
}

#[derive(Clone, Copy, Debug, PartialEq, Eq, Hash, PartialOrd, Ord)]
pub enum BinOp {
    Or,
    And,
    Lt,
    Gt,
    Le,
    Ge,
    Ne,
    Eq,
    Concat,
    Add,
    Sub,
    Mul,
    Div,
    IDiv,
    Mod,
    Pow,
}

impl BinOp {
    pub const ALL: [BinOp; 16] = [
        BinOp::Or,
        BinOp::And,
        BinOp::Lt,
        BinOp::Gt,
        BinOp::Le,
        BinOp::Ge,
        BinOp::Ne,
        BinOp::Eq,
        BinOp::Concat,
        BinOp::Add,
        BinOp::Sub,
        BinOp::Mul,
        BinOp::Div,
        BinOp::IDiv,
        BinOp::Mod,
        BinOp::Pow,
    ];

    /// (left binding power, right binding power) as in the reference manuals:
    /// or < and < comparison < .. (right) < + - < * / // % < unary < ^ (right)
    pub fn binding_power(self) -> (u8, u8) {
        match self {
            BinOp::Or => (1, 1),
            BinOp::And => (2, 2),
            BinOp::Lt | BinOp::Gt | BinOp::Le | BinOp::Ge | BinOp::Ne | BinOp::Eq => (3, 3),
            BinOp::Concat => (5, 4),
            BinOp::Add | BinOp::Sub => (6, 6),
            BinOp::Mul | BinOp::Div | BinOp::IDiv | BinOp::Mod => (7, 7),
            BinOp::Pow => (10, 9),
        }
    }

    pub fn symbol(self) -> &'static str {
        match self {
            BinOp::Or => "or",
            BinOp::And => "and",
            BinOp::Lt => "<",
            BinOp::Gt => ">",
            BinOp::Le => "<=",
            BinOp::Ge => ">=",
            BinOp::Ne => "~=",
            BinOp::Eq => "==",
            BinOp::Concat => "..",
            BinOp::Add => "+",
            BinOp::Sub => "-",
            BinOp::Mul => "*",
            BinOp::Div => "/",
            BinOp::IDiv => "//",
            BinOp::Mod => "%",
            BinOp::Pow => "^",
        }
    }
}

/// priority of unary operators (between `*` and `^`)
pub const UNARY_PRIORITY: u8 = 8;

impl UnOp {
    pub fn symbol(self) -> &'static str {
        match self {
            UnOp::Neg => "-",
            UnOp::Not => "not",
            UnOp::Len => "#",
        }
    }
}

#[derive(Clone, Debug, PartialEq)]
pub enum InterpSeg {
    Str(Vec<u8>),
    Expr(Expr),
}

#[derive(Clone, Debug, PartialEq)]
pub enum TableItem {
    Pos(Expr),
    Named(String, Expr),
    Keyed(Expr, Expr),
}

/// how the arguments of a call were written
#[derive(Clone, Copy, Debug, PartialEq, Eq)]
pub enum CallSugar {
    Parens,
    /// `f"str"` / `f[[str]]`
    Str,
    /// `f{...}`
    Table,
}

#[derive(Clone, Debug)]
pub enum Expr {
    Nil,
    True,
    False,
    Vararg,
    /// `raw` is the source spelling, `value` its decoded value
    Number { raw: String, value: f64 },
    /// `raw` is the source spelling (with quotes / brackets), `value` the decoded bytes
    Str { raw: String, value: Vec<u8> },
    Interp(Vec<InterpSeg>),
    Name(String),
    Index { obj: Box<Expr>, key: Box<Expr> },
    Field { obj: Box<Expr>, name: String },
    Call { f: Box<Expr>, args: Vec<Expr>, sugar: CallSugar },
    /// `types`: explicit type instantiation of the method, `obj:name<<T>>(args)`
    MethodCall { obj: Box<Expr>, name: String, types: Option<Vec<TypeArg>>, args: Vec<Expr>, sugar: CallSugar },
    Function { attrs: Vec<Attribute>, func: Box<FuncBody> },
    Paren(Box<Expr>),
    Unary(UnOp, Box<Expr>),
    Binary(BinOp, Box<Expr>, Box<Expr>),
    Table(Vec<TableItem>),
    IfExpr { clauses: Vec<(Expr, Expr)>, else_: Box<Expr> },
    Cast { expr: Box<Expr>, ty: Box<Type> },
    /// `f<<T, U>>`
    Instantiate { expr: Box<Expr>, types: Vec<TypeArg> },
}

/// Structural equality.  Numbers compare by bit pattern of the value (NaN == NaN, 0 != -0),
/// strings by decoded bytes; the raw spelling and the call sugar are ignored.
impl PartialEq for Expr {
    fn eq(&self, other: &Expr) -> bool {
        use Expr::*;
        match (self, other) {
            (Nil, Nil) | (True, True) | (False, False) | (Vararg, Vararg) => true,
            (Number { value: a, .. }, Number { value: b, .. }) => {
                a.to_bits() == b.to_bits() || (a.is_nan() && b.is_nan())
            }
            (Str { value: a, .. }, Str { value: b, .. }) => a == b,
            (Interp(a), Interp(b)) => a == b,
            (Name(a), Name(b)) => a == b,
            (Index { obj: a, key: ak }, Index { obj: b, key: bk }) => a == b && ak == bk,
            (Field { obj: a, name: an }, Field { obj: b, name: bn }) => a == b && an == bn,
            (Call { f: a, args: aa, .. }, Call { f: b, args: ba, .. }) => a == b && aa == ba,
            (
                MethodCall { obj: a, name: an, args: aa, .. },
                MethodCall { obj: b, name: bn, args: ba, .. },
            ) => a == b && an == bn && aa == ba,
            (Function { attrs: x, func: a }, Function { attrs: y, func: b }) => x == y && a == b,
            (Paren(a), Paren(b)) => a == b,
            (Unary(o, a), Unary(p, b)) => o == p && a == b,
            (Binary(o, a, c), Binary(p, b, d)) => o == p && a == b && c == d,
            (Table(a), Table(b)) => a == b,
            (IfExpr { clauses: a, else_: c }, IfExpr { clauses: b, else_: d }) => a == b && c == d,
            (Cast { expr: a, ty: c }, Cast { expr: b, ty: d }) => a == b && c == d,
            (Instantiate { expr: a, types: c }, Instantiate { expr: b, types: d }) => {
                a == b && c == d
            }
            _ => false,
        }
    }
}

impl Expr {
    pub fn name(n: impl Into<String>) -> Expr {
        Expr::Name(n.into())
    }
    pub fn num(v: f64) -> Expr {
        Expr::Number { raw: String::new(), value: v }
    }
    pub fn str(v: impl Into<Vec<u8>>) -> Expr {
        Expr::Str { raw: String::new(), value: v.into() }
    }
    pub fn call(f: Expr, args: Vec<Expr>) -> Expr {
        Expr::Call { f: Box::new(f), args, sugar: CallSugar::Parens }
    }
    pub fn is_multi(&self) -> bool {
        matches!(self, Expr::Call { .. } | Expr::MethodCall { .. } | Expr::Vararg)
    }
}

// ------------------------------------------------------------------------------------- types

#[derive(Clone, Debug, PartialEq)]
pub struct TypeName {
    pub name: String,
    pub params: Option<Vec<TypeArg>>,
}

/// an argument in `Name<...>` or `f<<...>>`
#[derive(Clone, Debug, PartialEq)]
pub enum TypeArg {
    Type(Type),
    Pack(TypePack),
    Variadic(Box<Type>),
    GenericPack(String),
}

/// `(A, B, ...C)` / `(A, T...)`
#[derive(Clone, Debug, PartialEq)]
pub struct TypePack {
    pub types: Vec<Type>,
    pub tail: Option<Box<VariadicAnnotationPack>>,
}

/// tail of a type list: `...T` or `T...`
#[derive(Clone, Debug, PartialEq)]
pub enum VariadicAnnotationPack {
    Variadic(Type),
    GenericPack(String),
}

#[derive(Clone, Copy, Debug, PartialEq, Eq)]
pub enum Access {
    Read,
    Write,
}

#[derive(Clone, Debug, PartialEq)]
pub enum TableTypeItem {
    Prop { access: Option<Access>, name: String, ty: Type },
    /// `["literal"]: T`
    StrProp { access: Option<Access>, key: Vec<u8>, ty: Type },
    Indexer { access: Option<Access>, key: Type, value: Type },
}

#[derive(Clone, Debug, PartialEq)]
pub struct FunctionType {
    pub generics: Option<Generics>,
    pub params: Vec<(Option<String>, Type)>,
    pub variadic: Option<Box<VariadicAnnotationPack>>,
    pub ret: Box<ReturnType>,
}

#[derive(Clone, Debug, PartialEq)]
pub enum ReturnType {
    Type(Type),
    Pack(TypePack),
    GenericPack(String),
    Variadic(Type),
}

#[derive(Clone, Debug, PartialEq)]
pub enum Type {
    Name(TypeName),
    /// `ns.Name<...>`
    Qualified { namespace: String, name: TypeName },
    True,
    False,
    Nil,
    Str(Vec<u8>),
    /// `{ T }`
    Array(Box<Type>),
    Table(Vec<TableTypeItem>),
    Typeof(Box<Expr>),
    Paren(Box<Type>),
    Function(Box<FunctionType>),
    Optional(Box<Type>),
    Union { leading: bool, types: Vec<Type> },
    Intersection { leading: bool, types: Vec<Type> },
}

/// `<T, U, V...>` on functions
#[derive(Clone, Debug, PartialEq)]
pub struct Generics {
    pub types: Vec<String>,
    pub packs: Vec<String>,
}

#[derive(Clone, Debug, PartialEq)]
pub enum GenericPackDefault {
    Pack(TypePack),
    Variadic(Type),
    GenericPack(String),
}

/// `<T, U = number, V... = ...any>` on type declarations
#[derive(Clone, Debug, PartialEq)]
pub struct GenericsWithDefaults {
    pub types: Vec<(String, Option<Type>)>,
    pub packs: Vec<(String, Option<GenericPackDefault>)>,
}
