//! Literal decoder: string literal text -> bytes, number literal text -> f64.
//!
//! Independent of darklua / full_moon.  Semantics pinned in DESIGN.md, appendix A.

use crate::luasyn::Mode;

fn is_luau_space(b: u8) -> bool {
    matches!(b, b' ' | b'\t' | b'\n' | b'\r' | 0x0B | 0x0C)
}

fn hex_val(b: u8) -> Option<u32> {
    match b {
        b'0'..=b'9' => Some((b - b'0') as u32),
        b'a'..=b'f' => Some((b - b'a') as u32 + 10),
        b'A'..=b'F' => Some((b - b'A') as u32 + 10),
        _ => None,
    }
}

fn push_utf8(out: &mut Vec<u8>, code: u32) {
    // plain UTF-8 encoding of any value <= 0x10FFFF (surrogates are encoded as-is, like Luau)
    if code < 0x80 {
        out.push(code as u8);
    } else if code < 0x800 {
        out.push(0xC0 | (code >> 6) as u8);
        out.push(0x80 | (code & 0x3F) as u8);
    } else if code < 0x10000 {
        out.push(0xE0 | (code >> 12) as u8);
        out.push(0x80 | ((code >> 6) & 0x3F) as u8);
        out.push(0x80 | (code & 0x3F) as u8);
    } else {
        out.push(0xF0 | (code >> 18) as u8);
        out.push(0x80 | ((code >> 12) & 0x3F) as u8);
        out.push(0x80 | ((code >> 6) & 0x3F) as u8);
        out.push(0x80 | (code & 0x3F) as u8);
    }
}

#[derive(Clone, Copy, PartialEq, Eq)]
enum BodyKind {
    /// body of a `'...'` / `"..."` literal; the byte is the delimiter
    Quoted(u8),
    /// literal piece of an interpolated string
    Interp,
}

/// Decodes the escapes of a string body (text between the delimiters).
fn decode_body(body: &[u8], mode: Mode, kind: BodyKind) -> Result<Vec<u8>, String> {
    let mut out = Vec::with_capacity(body.len());
    let mut i = 0;
    let luau = mode == Mode::Luau;
    while i < body.len() {
        let c = body[i];
        if c != b'\\' {
            match kind {
                BodyKind::Quoted(q) => {
                    if c == q {
                        return Err("unescaped delimiter inside string literal".to_string());
                    }
                }
                BodyKind::Interp => {
                    if c == b'`' {
                        return Err("unescaped '`' inside interpolated string piece".to_string());
                    }
                    if c == b'{' {
                        return Err("unescaped '{' inside interpolated string piece".to_string());
                    }
                }
            }
            if c == b'\n' || c == b'\r' {
                return Err("unescaped newline inside string literal".to_string());
            }
            out.push(c);
            i += 1;
            continue;
        }
        // escape
        i += 1;
        if i >= body.len() {
            return Err("backslash at end of string literal".to_string());
        }
        let e = body[i];
        i += 1;
        match e {
            b'a' => out.push(0x07),
            b'b' => out.push(0x08),
            b'f' => out.push(0x0C),
            b'n' => out.push(b'\n'),
            b'r' => out.push(b'\r'),
            b't' => out.push(b'\t'),
            b'v' => out.push(0x0B),
            b'\\' => out.push(b'\\'),
            b'"' => out.push(b'"'),
            b'\'' => out.push(b'\''),
            b'\n' => {
                out.push(b'\n');
                // Lua 5.1 treats LF CR as a single newline; Luau does not
                if !luau && i < body.len() && body[i] == b'\r' {
                    i += 1;
                }
            }
            b'\r' => {
                out.push(b'\n');
                if i < body.len() && body[i] == b'\n' {
                    i += 1;
                }
            }
            b'0'..=b'9' => {
                let mut v: u32 = (e - b'0') as u32;
                let mut n = 1;
                while n < 3 && i < body.len() && body[i].is_ascii_digit() {
                    v = v * 10 + (body[i] - b'0') as u32;
                    i += 1;
                    n += 1;
                }
                if v > 255 {
                    return Err(format!("decimal escape too large: \\{}", v));
                }
                out.push(v as u8);
            }
            b'x' if luau => {
                if i + 1 >= body.len() {
                    return Err("\\x escape needs exactly two hexadecimal digits".to_string());
                }
                match (hex_val(body[i]), hex_val(body[i + 1])) {
                    (Some(h), Some(l)) => {
                        out.push((h * 16 + l) as u8);
                        i += 2;
                    }
                    _ => return Err("\\x escape needs exactly two hexadecimal digits".to_string()),
                }
            }
            b'z' if luau => {
                while i < body.len() && is_luau_space(body[i]) {
                    i += 1;
                }
            }
            b'u' if luau => {
                if i >= body.len() || body[i] != b'{' {
                    return Err("\\u escape needs '{'".to_string());
                }
                i += 1;
                let mut code: u32 = 0;
                let mut digits = 0;
                loop {
                    if i >= body.len() {
                        return Err("unterminated \\u{...} escape".to_string());
                    }
                    let ch = body[i];
                    if ch == b'}' {
                        break;
                    }
                    let h = hex_val(ch).ok_or_else(|| "invalid digit in \\u{...} escape".to_string())?;
                    code = code.checked_mul(16).and_then(|c| c.checked_add(h)).unwrap_or(u32::MAX);
                    if code > 0x10FFFF {
                        return Err("\\u{...} escape exceeds 0x10FFFF".to_string());
                    }
                    digits += 1;
                    i += 1;
                }
                if digits == 0 {
                    return Err("empty \\u{} escape".to_string());
                }
                i += 1; // '}'
                push_utf8(&mut out, code);
            }
            other => out.push(other),
        }
    }
    Ok(out)
}

/// Splits a long-bracket literal `[==[ ... ]==]` into (level, body).
fn long_bracket_body(raw: &[u8]) -> Result<&[u8], String> {
    debug_assert!(raw[0] == b'[');
    let mut level = 0;
    let mut i = 1;
    while i < raw.len() && raw[i] == b'=' {
        level += 1;
        i += 1;
    }
    if i >= raw.len() || raw[i] != b'[' {
        return Err("malformed long bracket opening".to_string());
    }
    let open_len = level + 2;
    if raw.len() < 2 * open_len {
        return Err("long bracket literal too short".to_string());
    }
    let close = &raw[raw.len() - open_len..];
    if close[0] != b']' || close[open_len - 1] != b']' || close[1..open_len - 1].iter().any(|&b| b != b'=') {
        return Err("malformed long bracket closing".to_string());
    }
    let body = &raw[open_len..raw.len() - open_len];
    // the first closing bracket of this level in `raw[open_len..]` must be the final one
    // (it may straddle the body end: `[=[a]=]=]` closes after `a`)
    let region = &raw[open_len..];
    let mut j = 0;
    while j < body.len() {
        if region[j] == b']' {
            let mut k = j + 1;
            let mut n = 0;
            while k < region.len() && region[k] == b'=' {
                n += 1;
                k += 1;
            }
            if n == level && k < region.len() && region[k] == b']' {
                return Err("long bracket closes before the end of the literal".to_string());
            }
        }
        j += 1;
    }
    Ok(body)
}

/// Body of a long-bracket string -> value, with the line-end rules of the real implementations:
///
/// * Lua 5.1 (`llex.c`, `read_long_string`): each of `\r\n`, `\n\r`, `\r`, `\n` is one newline;
///   a newline directly after the opening bracket is dropped, every other one becomes `\n`.
/// * Luau (`Lexer::fixupMultilineString`): only `\r\n` and `\n` are newlines; a leading one is
///   dropped, every other one becomes `\n`; a `\r` that is not followed by `\n` is kept verbatim.
fn decode_long_body(body: &[u8], mode: Mode) -> Vec<u8> {
    let mut out = Vec::with_capacity(body.len());
    let mut i = 0;
    let mut first = true;
    while i < body.len() {
        let c = body[i];
        let nl_len = match (mode, c) {
            (_, b'\r') if body.get(i + 1) == Some(&b'\n') => 2,
            (Mode::Lua51, b'\n') if body.get(i + 1) == Some(&b'\r') => 2,
            (_, b'\n') => 1,
            (Mode::Lua51, b'\r') => 1,
            _ => 0,
        };
        if nl_len > 0 {
            if !first {
                out.push(b'\n');
            }
            i += nl_len;
        } else {
            out.push(c);
            i += 1;
        }
        first = false;
    }
    out
}

/// Decodes a string literal.  `raw` is the literal text including quotes or long brackets.
/// A simple interpolated string `` `text` `` (no `{}`), Luau mode only, is accepted too.
pub fn decode_string(raw: &str, mode: Mode) -> Result<Vec<u8>, String> {
    let b = raw.as_bytes();
    if b.len() < 2 {
        return Err("string literal too short".to_string());
    }
    match b[0] {
        q @ (b'"' | b'\'') => {
            if b[b.len() - 1] != q {
                return Err("string literal is not terminated by its opening quote".to_string());
            }
            // the closing quote must not be escaped: decode_body detects a trailing lone backslash
            decode_body(&b[1..b.len() - 1], mode, BodyKind::Quoted(q))
        }
        b'[' => {
            let body = long_bracket_body(b)?;
            Ok(decode_long_body(body, mode))
        }
        b'`' if mode == Mode::Luau => {
            if b[b.len() - 1] != b'`' {
                return Err("interpolated string is not terminated by a backtick".to_string());
            }
            decode_interp_segment(&raw[1..raw.len() - 1])
        }
        _ => Err("not a string literal".to_string()),
    }
}

/// Decodes one literal text piece of an interpolated string (the text between the delimiters
/// `` ` ``, `{`, `}`; delimiters excluded).  Luau escapes plus `` \` `` and `\{`.
pub fn decode_interp_segment(raw_piece: &str) -> Result<Vec<u8>, String> {
    decode_body(raw_piece.as_bytes(), Mode::Luau, BodyKind::Interp)
}

/// True iff a quoted literal contains an escape that only Luau understands: `\x`, `\z`, `\u`.
/// (Lua 5.1 decodes them to the plain letters.)  Long-bracket literals have no escapes.
pub fn uses_luau_only_escape(raw: &str) -> bool {
    let b = raw.as_bytes();
    if b.is_empty() || b[0] == b'[' {
        return false;
    }
    let mut i = 0;
    while i < b.len() {
        if b[i] == b'\\' {
            if i + 1 < b.len() && matches!(b[i + 1], b'x' | b'z' | b'u') {
                return true;
            }
            i += 2;
        } else {
            i += 1;
        }
    }
    false
}

// ------------------------------------------------------------------------------------ numbers

/// Correctly rounded value of the big-endian digit string `digits` in base 2^bits_per_digit.
fn pow2_digits_to_f64(digits: &[u8], bits_per_digit: u32) -> f64 {
    // strip leading zeros
    let mut d = digits;
    while let Some((&first, rest)) = d.split_first() {
        if first == b'0' {
            d = rest;
        } else {
            break;
        }
    }
    if d.is_empty() {
        return 0.0;
    }
    let max_digits = (128 / bits_per_digit) as usize;
    let mut acc: u128 = 0;
    let take = d.len().min(max_digits);
    for &c in &d[..take] {
        acc = (acc << bits_per_digit) | hex_val(c).unwrap() as u128;
    }
    if d.len() <= max_digits {
        // `as f64` on an integer rounds to nearest, ties to even
        return acc as f64;
    }
    // more than 128 bits: `acc` holds > 120 significant bits (top digit is non-zero), far more
    // than 53 + 2, so folding the remaining digits into a sticky low bit keeps rounding exact.
    let rest = &d[take..];
    if rest.iter().any(|&c| c != b'0') {
        acc |= 1;
    }
    let shift = rest.len() as u64 * bits_per_digit as u64;
    let m = acc as f64; // < 2^128
    if shift >= 1024 {
        return f64::INFINITY;
    }
    let scale = f64::from_bits((1023 + shift) << 52);
    m * scale
}

fn decode_decimal(s: &str) -> Result<f64, String> {
    let b = s.as_bytes();
    let mut i = 0;
    let int_start = i;
    while i < b.len() && b[i].is_ascii_digit() {
        i += 1;
    }
    let int_part = &s[int_start..i];
    let mut frac_part = "";
    if i < b.len() && b[i] == b'.' {
        i += 1;
        let fs = i;
        while i < b.len() && b[i].is_ascii_digit() {
            i += 1;
        }
        frac_part = &s[fs..i];
    }
    if int_part.is_empty() && frac_part.is_empty() {
        return Err(format!("malformed number '{}'", s));
    }
    let mut exp_part = "0";
    let mut exp_neg = false;
    if i < b.len() && (b[i] == b'e' || b[i] == b'E') {
        i += 1;
        if i < b.len() && (b[i] == b'+' || b[i] == b'-') {
            exp_neg = b[i] == b'-';
            i += 1;
        }
        let es = i;
        while i < b.len() && b[i].is_ascii_digit() {
            i += 1;
        }
        if es == i {
            return Err(format!("malformed number '{}' (empty exponent)", s));
        }
        exp_part = &s[es..i];
    }
    if i != b.len() {
        return Err(format!("malformed number '{}'", s));
    }
    let norm = format!(
        "{}.{}e{}{}",
        if int_part.is_empty() { "0" } else { int_part },
        if frac_part.is_empty() { "0" } else { frac_part },
        if exp_neg { "-" } else { "" },
        exp_part
    );
    norm.parse::<f64>().map_err(|e| format!("malformed number '{}': {}", s, e))
}

/// Decodes a number literal.
///
/// Luau mode follows the real Luau parser: all `_` are removed first, then `0b`/`0B` + binary
/// digits, `0x`/`0X` + hex digits, or a decimal `digits[.digits][e[+-]digits]` / `.digits` /
/// `digits.` form.  Hex/binary integers of any width are converted with correct rounding.
/// Lua51 mode: decimal forms and `0x` hex integers; no underscores, no binary.
pub fn decode_number(raw: &str, mode: Mode) -> Result<f64, String> {
    if raw.is_empty() {
        return Err("empty number".to_string());
    }
    if !raw.is_ascii() {
        return Err(format!("malformed number '{}'", raw));
    }
    let first = raw.as_bytes()[0];
    if !(first.is_ascii_digit() || first == b'.') {
        return Err(format!("malformed number '{}'", raw));
    }
    let owned;
    let s: &str = match mode {
        Mode::Luau => {
            if raw.contains('_') {
                owned = raw.replace('_', "");
                &owned
            } else {
                raw
            }
        }
        Mode::Lua51 => {
            if raw.contains('_') {
                return Err(format!("malformed number '{}' (underscore)", raw));
            }
            raw
        }
    };
    let b = s.as_bytes();
    if b.len() >= 2 && b[0] == b'0' && (b[1] == b'x' || b[1] == b'X') {
        let digits = &b[2..];
        if digits.is_empty() || !digits.iter().all(|c| c.is_ascii_hexdigit()) {
            return Err(format!("malformed number '{}'", raw));
        }
        return Ok(pow2_digits_to_f64(digits, 4));
    }
    if b.len() >= 2 && b[0] == b'0' && (b[1] == b'b' || b[1] == b'B') {
        if mode == Mode::Lua51 {
            return Err(format!("malformed number '{}' (binary literal)", raw));
        }
        let digits = &b[2..];
        if digits.is_empty() || !digits.iter().all(|&c| c == b'0' || c == b'1') {
            return Err(format!("malformed number '{}'", raw));
        }
        return Ok(pow2_digits_to_f64(digits, 1));
    }
    decode_decimal(s)
}

#[cfg(test)]
mod tests {
    use super::*;

    fn ds(raw: &str) -> Vec<u8> {
        decode_string(raw, Mode::Luau).unwrap()
    }
    fn ds51(raw: &str) -> Vec<u8> {
        decode_string(raw, Mode::Lua51).unwrap()
    }

    #[test]
    fn rust_float_parsing_assumptions() {
        assert_eq!("5.".parse::<f64>().unwrap(), 5.0);
        assert_eq!(".5".parse::<f64>().unwrap(), 0.5);
        assert_eq!("5.0e0".parse::<f64>().unwrap(), 5.0);
        assert_eq!("1.0e400".parse::<f64>().unwrap(), f64::INFINITY);
    }

    #[test]
    fn simple_escapes_both_modes() {
        for mode in [Mode::Luau, Mode::Lua51] {
            let d = |r: &str| decode_string(r, mode).unwrap();
            assert_eq!(d(r#""\a\b\f\n\r\t\v\\\"\'""#), vec![7, 8, 12, 10, 13, 9, 11, b'\\', b'"', b'\'']);
            assert_eq!(d(r#"'\a\b\f\n\r\t\v\\\"\''"#), vec![7, 8, 12, 10, 13, 9, 11, b'\\', b'"', b'\'']);
            assert_eq!(d("\"a\\\nb\""), b"a\nb".to_vec());
            assert_eq!(d("\"a\\\r\nb\""), b"a\nb".to_vec());
            assert_eq!(d("\"a\\\rb\""), b"a\nb".to_vec());
            assert_eq!(d(r#""\0""#), vec![0]);
            assert_eq!(d(r#""\65\066\1234""#), vec![65, 66, 123, b'4']);
            assert_eq!(d(r#""\255""#), vec![255]);
            assert_eq!(d(r#""\0001""#), vec![0, b'1']);
            assert!(decode_string(r#""\256""#, mode).is_err());
            assert!(decode_string(r#""\999""#, mode).is_err());
            assert_eq!(d(r#""\q\-\?""#), b"q-?".to_vec());
            assert_eq!(d("''"), Vec::<u8>::new());
            assert_eq!(d("\"'\""), b"'".to_vec());
            assert_eq!(d("'\"'"), b"\"".to_vec());
            // raw non-ascii bytes are kept
            assert_eq!(d("\"é\""), "é".as_bytes().to_vec());
        }
    }

    #[test]
    fn malformed_strings() {
        for mode in [Mode::Luau, Mode::Lua51] {
            assert!(decode_string("\"a\nb\"", mode).is_err());
            assert!(decode_string("\"a\rb\"", mode).is_err());
            assert!(decode_string("\"abc", mode).is_err());
            assert!(decode_string("\"abc'", mode).is_err());
            assert!(decode_string("\"a\"b\"", mode).is_err());
            assert!(decode_string("\"abc\\\"", mode).is_err());
            assert!(decode_string("abc", mode).is_err());
            assert!(decode_string("\"", mode).is_err());
            assert!(decode_string("[[abc]", mode).is_err());
            assert!(decode_string("[=[abc]]", mode).is_err());
            assert!(decode_string("[[a]]b]]", mode).is_err());
            assert!(decode_string("[=[a]=]=]", mode).is_err());
            assert!(decode_string("[[a]]]", mode).is_err());
        }
        // LF CR after a backslash: one newline in 5.1, stray CR in Luau
        assert_eq!(ds51("\"a\\\n\rb\""), b"a\nb".to_vec());
        assert!(decode_string("\"a\\\n\rb\"", Mode::Luau).is_err());
    }

    #[test]
    fn luau_escapes() {
        assert_eq!(ds(r#""\x41\x7a\xFf\x00""#), vec![0x41, 0x7a, 0xff, 0]);
        assert!(decode_string(r#""\x4""#, Mode::Luau).is_err());
        assert!(decode_string(r#""\x4g""#, Mode::Luau).is_err());
        assert!(decode_string(r#""\x""#, Mode::Luau).is_err());
        assert_eq!(ds("\"a\\z  \n\t \r\n b\""), b"ab".to_vec());
        assert_eq!(ds("\"a\\zb\""), b"ab".to_vec());
        assert_eq!(ds("\"a\\z\""), b"a".to_vec());
        assert_eq!(ds(r#""\u{41}""#), b"A".to_vec());
        assert_eq!(ds(r#""\u{e9}""#), "é".as_bytes().to_vec());
        assert_eq!(ds(r#""\u{20AC}""#), "€".as_bytes().to_vec());
        assert_eq!(ds(r#""\u{1F600}""#), "😀".as_bytes().to_vec());
        assert_eq!(ds(r#""\u{10FFFF}""#), vec![0xF4, 0x8F, 0xBF, 0xBF]);
        assert_eq!(ds(r#""\u{0}""#), vec![0]);
        assert_eq!(ds(r#""\u{000041}""#), b"A".to_vec());
        assert_eq!(ds(r#""\u{D800}""#), vec![0xED, 0xA0, 0x80]);
        assert!(decode_string(r#""\u{110000}""#, Mode::Luau).is_err());
        assert!(decode_string(r#""\u{FFFFFFFFFF}""#, Mode::Luau).is_err());
        assert!(decode_string(r#""\u{}""#, Mode::Luau).is_err());
        assert!(decode_string(r#""\u{12""#, Mode::Luau).is_err());
        assert!(decode_string(r#""\u41""#, Mode::Luau).is_err());
        assert!(decode_string(r#""\u{4g}""#, Mode::Luau).is_err());
        // 5.1: the plain letters
        assert_eq!(ds51(r#""\x41""#), b"x41".to_vec());
        assert_eq!(ds51(r#""\z  a""#), b"z  a".to_vec());
        assert_eq!(ds51(r#""\u{41}""#), b"u{41}".to_vec());
        assert!(uses_luau_only_escape(r#""\x41""#));
        assert!(uses_luau_only_escape(r#""a\z""#));
        assert!(uses_luau_only_escape(r#"'\u{1}'"#));
        assert!(!uses_luau_only_escape(r#""\\x41""#));
        assert!(!uses_luau_only_escape(r#""x z u\n""#));
        assert!(!uses_luau_only_escape(r#"[[\x41]]"#));
        assert!(uses_luau_only_escape(r#""\\\x41""#));
    }

    #[test]
    fn long_brackets() {
        for mode in [Mode::Luau, Mode::Lua51] {
            let d = |r: &str| decode_string(r, mode).unwrap();
            assert_eq!(d("[[]]"), b"".to_vec());
            assert_eq!(d("[[abc]]"), b"abc".to_vec());
            assert_eq!(d("[[\nabc]]"), b"abc".to_vec());
            assert_eq!(d("[[\r\nabc]]"), b"abc".to_vec());
            assert_eq!(d("[[\n\nabc]]"), b"\nabc".to_vec());
            assert_eq!(d("[[\r\n\r\nabc]]"), b"\nabc".to_vec());
            // line ends inside are normalised to LF, escapes are not interpreted
            assert_eq!(d("[[a\r\nb\\n]]"), b"a\nb\\n".to_vec());
            assert_eq!(d("[[a\nb\r\nc\n]]"), b"a\nb\nc\n".to_vec());
            assert_eq!(d("[[a\r\n\r\nb]]"), b"a\n\nb".to_vec());
            assert_eq!(d("[=[a]]b]=]"), b"a]]b".to_vec());
            assert_eq!(d("[==[a]=]b]==]"), b"a]=]b".to_vec());
            assert_eq!(d("[===[\n]===]"), b"".to_vec());
            assert_eq!(d("[=[]]=]"), b"]".to_vec());
            assert_eq!(d("[[a]b]]"), b"a]b".to_vec());
            assert_eq!(d("[[ \nabc]]"), b" \nabc".to_vec());
            assert_eq!(d("[[[[]]"), b"[[".to_vec());
        }
        // lone CR and LF CR: newlines for Lua 5.1, plain bytes for Luau
        assert_eq!(ds51("[[\rabc]]"), b"abc".to_vec());
        assert_eq!(ds("[[\rabc]]"), b"\rabc".to_vec());
        assert_eq!(ds51("[[\n\rabc]]"), b"abc".to_vec());
        assert_eq!(ds("[[\n\rabc]]"), b"\rabc".to_vec());
        assert_eq!(ds51("[[a\rb]]"), b"a\nb".to_vec());
        assert_eq!(ds("[[a\rb]]"), b"a\rb".to_vec());
        assert_eq!(ds51("[[a\n\rb]]"), b"a\nb".to_vec());
        assert_eq!(ds("[[a\n\rb]]"), b"a\n\rb".to_vec());
        assert_eq!(ds51("[[a\r\rb]]"), b"a\n\nb".to_vec());
        assert_eq!(ds51("[[a\r\n\rb]]"), b"a\n\nb".to_vec());
        assert_eq!(ds("[[a\r\n\rb]]"), b"a\n\rb".to_vec());
    }

    #[test]
    fn interp_pieces() {
        assert_eq!(decode_interp_segment("abc").unwrap(), b"abc".to_vec());
        assert_eq!(decode_interp_segment(r"a\{b\`c\n\x41\u{41}").unwrap(), b"a{b`c\nAA".to_vec());
        assert_eq!(decode_interp_segment("a\"'b").unwrap(), b"a\"'b".to_vec());
        assert_eq!(decode_interp_segment("a\\\nb").unwrap(), b"a\nb".to_vec());
        assert!(decode_interp_segment("a{b").is_err());
        assert!(decode_interp_segment("a`b").is_err());
        assert!(decode_interp_segment("a\nb").is_err());
        assert_eq!(ds("`a\\{b`"), b"a{b".to_vec());
        assert_eq!(ds("``"), b"".to_vec());
        assert!(decode_string("`a`", Mode::Lua51).is_err());
    }

    fn dn(raw: &str) -> f64 {
        decode_number(raw, Mode::Luau).unwrap()
    }

    #[test]
    fn decimal_numbers() {
        for mode in [Mode::Luau, Mode::Lua51] {
            let d = |r: &str| decode_number(r, mode).unwrap();
            assert_eq!(d("0"), 0.0);
            assert_eq!(d("007"), 7.0);
            assert_eq!(d("1"), 1.0);
            assert_eq!(d("3.25"), 3.25);
            assert_eq!(d("5."), 5.0);
            assert_eq!(d(".5"), 0.5);
            assert_eq!(d("5.e2"), 500.0);
            assert_eq!(d(".5e1"), 5.0);
            assert_eq!(d("1e2"), 100.0);
            assert_eq!(d("1E2"), 100.0);
            assert_eq!(d("1e+2"), 100.0);
            assert_eq!(d("1e-2"), 0.01);
            assert_eq!(d("1e0010"), 1e10);
            assert_eq!(d("0.1"), 0.1);
            assert_eq!(d("1e308"), 1e308);
            assert_eq!(d("1e309"), f64::INFINITY);
            assert_eq!(d("5e-324"), 5e-324);
            assert_eq!(d("1e-400"), 0.0);
            assert_eq!(d("9007199254740993"), 9007199254740992.0);
            assert_eq!(d("123456789012345678901234567890"), 123456789012345678901234567890.0);
            assert_eq!(d("0x10"), 16.0);
            assert_eq!(d("0XfF"), 255.0);
            assert_eq!(d("0x0"), 0.0);
            assert_eq!(d("0xffffffffffffffff"), 18446744073709551616.0);
            assert_eq!(d("0x7fffffffffffffff"), 9223372036854775808.0);
            assert_eq!(d("0x10000000000000000"), 18446744073709551616.0);
            assert_eq!(d("0x20000000000001"), 9007199254740992.0); // 2^53+1 ties to even
            assert_eq!(d("0x20000000000003"), 9007199254740996.0); // 2^53+3 ties to even (up)
            for bad in ["", ".", "1..2", "1.2.3", "1e", "1e+", "e5", "3x", "0x", "0xg", "1e5.5", "1 ", " 1", "-1", "+1", "1f", "0x1p4", "0x.8", "0x1.8", "1e5e5", "nan", "inf", "1.e", ".e1"] {
                assert!(decode_number(bad, mode).is_err(), "{:?} should be malformed", bad);
            }
        }
    }

    #[test]
    fn luau_numbers() {
        assert_eq!(dn("0b101"), 5.0);
        assert_eq!(dn("0B0"), 0.0);
        assert_eq!(dn("0b1111_0000"), 240.0);
        assert_eq!(dn("1_000_000"), 1e6);
        assert_eq!(dn("1_000.000_1"), 1000.0001);
        assert_eq!(dn("1__0"), 10.0);
        assert_eq!(dn("1_"), 1.0);
        assert_eq!(dn("0x_ff"), 255.0);
        assert_eq!(dn("0xff_"), 255.0);
        assert_eq!(dn("1e_5"), 1e5);
        assert_eq!(dn("1_e5"), 1e5);
        assert_eq!(dn("1._5"), 1.5);
        assert_eq!(dn("0_x10"), 16.0); // real Luau strips underscores before looking at the prefix
        assert_eq!(dn(&format!("0b{}", "1".repeat(64))), 18446744073709551616.0);
        assert_eq!(dn(&format!("0b1{}", "0".repeat(64))), 18446744073709551616.0);
        for bad in ["0b", "0b2", "0b12", "0b_", "0x_", "_1", "1_x", "0b1.1", "0b1e1"] {
            assert!(decode_number(bad, Mode::Luau).is_err(), "{:?} should be malformed", bad);
        }
        for bad in ["0b1", "1_0", "0x_f", "1_", "0B1"] {
            assert!(decode_number(bad, Mode::Lua51).is_err(), "{:?} should be malformed in 5.1", bad);
        }
    }

    #[test]
    fn wide_hex_is_correctly_rounded() {
        // 2^128
        assert_eq!(dn(&format!("0x1{}", "0".repeat(32))), 340282366920938463463374607431768211456.0);
        // 2^200
        assert_eq!(dn(&format!("0x1{}", "0".repeat(50))), 2f64.powi(200));
        // 2^200 + 1 rounds down; (2^53+1) * 2^147 is a tie -> even; with sticky it rounds up
        assert_eq!(dn(&format!("0x1{}1", "0".repeat(49))), 2f64.powi(200));
        let tie = format!("0x20000000000001{}", "0".repeat(37)); // (2^53+1)*2^148
        assert_eq!(dn(&tie), 2f64.powi(53 + 148));
        let above = format!("0x20000000000001{}1", "0".repeat(36));
        assert_eq!(dn(&above), (9007199254740994.0f64) * 2f64.powi(148));
        // leading zeros do not count
        assert_eq!(dn(&format!("0x{}ff", "0".repeat(100))), 255.0);
        // overflow
        assert_eq!(dn(&format!("0x1{}", "0".repeat(256))), f64::INFINITY);
        assert_eq!(dn(&format!("0x{}", "f".repeat(256))), f64::INFINITY);
        // largest finite: 0xfffffffffffff8 followed by zeros up to 2^1024 - 2^971
        assert_eq!(dn(&format!("0xfffffffffffff8{}", "0".repeat(242))), f64::MAX);
        // u128 range
        assert_eq!(dn("0xffffffffffffffffffffffffffffffff"), 340282366920938463463374607431768211456.0);
    }
}
