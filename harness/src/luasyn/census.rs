//! Feature census: counts every Luau-only construct of a tree, by kind, anywhere in it
//! (including expressions inside `typeof(...)` inside types, attribute arguments, interpolation
//! segments, function bodies and type function bodies).

use crate::luasyn::ast::*;

#[derive(Default, Debug, Clone, PartialEq, Eq)]
pub struct Census {
    /// sites of type syntax: each `: T` on a binding / parameter / `...`, each return annotation,
    /// each generic parameter list on a function, each cast, each `f<<T>>` instantiation, each
    /// `type` declaration and each `type function`
    pub type_annotations: usize,
    /// `typeof(e)` types
    pub typeof_types: usize,
    pub casts: usize,
    /// `type` / `export type` declarations and `type function`s
    pub type_decls: usize,
    pub compound_assign: usize,
    pub continue_stmt: usize,
    pub if_expr: usize,
    pub interp_string: usize,
    /// `//` and `//=`
    pub floor_div: usize,
    /// binary literals, or any literal containing `_` (judged on the `raw` spelling)
    pub luau_numbers: usize,
    /// const locals and const functions
    pub const_decl: usize,
    /// number of `@name` / `@[...]` attributes
    pub attributes: usize,
    /// maximum nesting depth of statement / expression / type nodes (a chunk with one statement
    /// `x = 1` has depth 2)
    pub max_nesting: usize,
}

impl Census {
    /// true iff the tree contains any type syntax
    pub fn has_types(&self) -> bool {
        self.type_annotations > 0
    }

    /// true iff the tree uses any Luau-only construct that the census tracks
    pub fn any_luau(&self) -> bool {
        self.type_annotations
            + self.typeof_types
            + self.casts
            + self.type_decls
            + self.compound_assign
            + self.continue_stmt
            + self.if_expr
            + self.interp_string
            + self.floor_div
            + self.luau_numbers
            + self.const_decl
            + self.attributes
            > 0
    }
}

struct Walker {
    c: Census,
    depth: usize,
}

impl Walker {
    fn enter(&mut self) {
        self.depth += 1;
        if self.depth > self.c.max_nesting {
            self.c.max_nesting = self.depth;
        }
    }

    fn leave(&mut self) {
        self.depth -= 1;
    }

    fn block(&mut self, b: &Block) {
        for s in &b.stmts {
            self.stmt(s);
        }
    }

    fn binding(&mut self, b: &Binding) {
        if let Some(t) = &b.ty {
            self.c.type_annotations += 1;
            self.ty(t);
        }
    }

    fn attrs(&mut self, attrs: &[Attribute]) {
        for a in attrs {
            self.c.attributes += 1;
            if let Attribute::Group(elems) = a {
                for e in elems {
                    match &e.args {
                        Some(AttributeArgs::Tuple(v)) => {
                            for x in v {
                                self.expr(x);
                            }
                        }
                        Some(AttributeArgs::Table(t)) => self.expr(t),
                        Some(AttributeArgs::Str(_)) | None => {}
                    }
                }
            }
        }
    }

    fn func(&mut self, f: &FuncBody) {
        if f.generics.is_some() {
            self.c.type_annotations += 1;
        }
        for p in &f.params {
            self.binding(p);
        }
        if let Some(v) = &f.vararg_ty {
            self.c.type_annotations += 1;
            if let VariadicAnnotation::Type(t) = &**v {
                self.ty(t);
            }
        }
        if let Some(r) = &f.ret_ty {
            self.c.type_annotations += 1;
            self.ret(r);
        }
        self.block(&f.body);
    }

    fn stmt(&mut self, s: &Stmt) {
        self.enter();
        match s {
            Stmt::Local { is_const, names, values } => {
                if *is_const {
                    self.c.const_decl += 1;
                }
                for n in names {
                    self.binding(n);
                }
                for v in values {
                    self.expr(v);
                }
            }
            Stmt::Assign { targets, values } => {
                for t in targets {
                    self.expr(t);
                }
                for v in values {
                    self.expr(v);
                }
            }
            Stmt::CompoundAssign { target, op, value } => {
                self.c.compound_assign += 1;
                if *op == BinOp::IDiv {
                    self.c.floor_div += 1;
                }
                self.expr(target);
                self.expr(value);
            }
            Stmt::Call(e) => self.expr(e),
            Stmt::Do(b) => self.block(b),
            Stmt::While { cond, body } => {
                self.expr(cond);
                self.block(body);
            }
            Stmt::Repeat { body, cond } => {
                self.block(body);
                self.expr(cond);
            }
            Stmt::If { clauses, else_ } => {
                for (c, b) in clauses {
                    self.expr(c);
                    self.block(b);
                }
                if let Some(b) = else_ {
                    self.block(b);
                }
            }
            Stmt::NumFor { var, start, limit, step, body } => {
                self.binding(var);
                self.expr(start);
                self.expr(limit);
                if let Some(s) = step {
                    self.expr(s);
                }
                self.block(body);
            }
            Stmt::GenFor { vars, exprs, body } => {
                for v in vars {
                    self.binding(v);
                }
                for e in exprs {
                    self.expr(e);
                }
                self.block(body);
            }
            Stmt::Function { attrs, name: _, func } => {
                self.attrs(attrs);
                self.func(func);
            }
            Stmt::LocalFunction { attrs, is_const, name: _, func } => {
                if *is_const {
                    self.c.const_decl += 1;
                }
                self.attrs(attrs);
                self.func(func);
            }
            Stmt::Return(v) => {
                for e in v {
                    self.expr(e);
                }
            }
            Stmt::Break => {}
            Stmt::Continue => self.c.continue_stmt += 1,
            Stmt::TypeDecl { export: _, name: _, generics, ty } => {
                self.c.type_annotations += 1;
                self.c.type_decls += 1;
                if let Some(g) = generics {
                    for (_, d) in &g.types {
                        if let Some(t) = d {
                            self.ty(t);
                        }
                    }
                    for (_, d) in &g.packs {
                        match d {
                            Some(GenericPackDefault::Pack(p)) => self.pack(p),
                            Some(GenericPackDefault::Variadic(t)) => self.ty(t),
                            Some(GenericPackDefault::GenericPack(_)) | None => {}
                        }
                    }
                }
                self.ty(ty);
            }
            Stmt::TypeFunction { export: _, name: _, func } => {
                self.c.type_annotations += 1;
                self.c.type_decls += 1;
                self.func(func);
            }
        }
        self.leave();
    }

    fn expr(&mut self, e: &Expr) {
        self.enter();
        match e {
            Expr::Nil | Expr::True | Expr::False | Expr::Vararg | Expr::Name(_) | Expr::Str { .. } => {}
            Expr::Number { raw, .. } => {
                let b = raw.as_bytes();
                let binary = b.len() >= 2 && b[0] == b'0' && (b[1] == b'b' || b[1] == b'B');
                if binary || raw.contains('_') {
                    self.c.luau_numbers += 1;
                }
            }
            Expr::Interp(segs) => {
                self.c.interp_string += 1;
                for s in segs {
                    if let InterpSeg::Expr(x) = s {
                        self.expr(x);
                    }
                }
            }
            Expr::Index { obj, key } => {
                self.expr(obj);
                self.expr(key);
            }
            Expr::Field { obj, .. } => self.expr(obj),
            Expr::Call { f, args, .. } => {
                self.expr(f);
                for a in args {
                    self.expr(a);
                }
            }
            Expr::MethodCall { obj, types, args, .. } => {
                self.expr(obj);
                if let Some(types) = types {
                    self.c.type_annotations += 1;
                    for t in types {
                        self.type_arg(t);
                    }
                }
                for a in args {
                    self.expr(a);
                }
            }
            Expr::Function { attrs, func } => {
                self.attrs(attrs);
                self.func(func);
            }
            Expr::Paren(x) => self.expr(x),
            Expr::Unary(_, x) => self.expr(x),
            Expr::Binary(op, a, b) => {
                if *op == BinOp::IDiv {
                    self.c.floor_div += 1;
                }
                self.expr(a);
                self.expr(b);
            }
            Expr::Table(items) => {
                for it in items {
                    match it {
                        TableItem::Pos(v) | TableItem::Named(_, v) => self.expr(v),
                        TableItem::Keyed(k, v) => {
                            self.expr(k);
                            self.expr(v);
                        }
                    }
                }
            }
            Expr::IfExpr { clauses, else_ } => {
                self.c.if_expr += 1;
                for (c, v) in clauses {
                    self.expr(c);
                    self.expr(v);
                }
                self.expr(else_);
            }
            Expr::Cast { expr, ty } => {
                self.c.type_annotations += 1;
                self.c.casts += 1;
                self.expr(expr);
                self.ty(ty);
            }
            Expr::Instantiate { expr, types } => {
                self.c.type_annotations += 1;
                self.expr(expr);
                for t in types {
                    self.type_arg(t);
                }
            }
        }
        self.leave();
    }

    fn type_arg(&mut self, a: &TypeArg) {
        match a {
            TypeArg::Type(t) => self.ty(t),
            TypeArg::Pack(p) => self.pack(p),
            TypeArg::Variadic(t) => self.ty(t),
            TypeArg::GenericPack(_) => {}
        }
    }

    fn tail(&mut self, t: &Option<Box<VariadicAnnotationPack>>) {
        if let Some(t) = t {
            if let VariadicAnnotationPack::Variadic(t) = &**t {
                self.ty(t);
            }
        }
    }

    fn pack(&mut self, p: &TypePack) {
        for t in &p.types {
            self.ty(t);
        }
        self.tail(&p.tail);
    }

    fn ret(&mut self, r: &ReturnType) {
        match r {
            ReturnType::Type(t) | ReturnType::Variadic(t) => self.ty(t),
            ReturnType::Pack(p) => self.pack(p),
            ReturnType::GenericPack(_) => {}
        }
    }

    fn type_name(&mut self, n: &TypeName) {
        if let Some(ps) = &n.params {
            for p in ps {
                self.type_arg(p);
            }
        }
    }

    fn ty(&mut self, t: &Type) {
        self.enter();
        match t {
            Type::Name(n) => self.type_name(n),
            Type::Qualified { name, .. } => self.type_name(name),
            Type::True | Type::False | Type::Nil | Type::Str(_) => {}
            Type::Array(t) | Type::Paren(t) | Type::Optional(t) => self.ty(t),
            Type::Table(items) => {
                for it in items {
                    match it {
                        TableTypeItem::Prop { ty, .. } | TableTypeItem::StrProp { ty, .. } => self.ty(ty),
                        TableTypeItem::Indexer { key, value, .. } => {
                            self.ty(key);
                            self.ty(value);
                        }
                    }
                }
            }
            Type::Typeof(e) => {
                self.c.typeof_types += 1;
                self.expr(e);
            }
            Type::Function(f) => {
                for (_, t) in &f.params {
                    self.ty(t);
                }
                self.tail(&f.variadic);
                self.ret(&f.ret);
            }
            Type::Union { types, .. } | Type::Intersection { types, .. } => {
                for t in types {
                    self.ty(t);
                }
            }
        }
        self.leave();
    }
}

pub fn census(block: &Block) -> Census {
    let mut w = Walker { c: Census::default(), depth: 0 };
    w.enter();
    w.block(block);
    w.leave();
    w.c
}

#[cfg(test)]
mod tests {
    use super::*;
    use crate::luasyn::parse::parse;
    use crate::luasyn::Mode;

    fn cs(src: &str) -> Census {
        census(&parse(src, Mode::Luau).unwrap_or_else(|e| panic!("{}: {}", src, e)).block)
    }

    #[test]
    fn plain_lua_has_no_luau() {
        let c = cs("local a, b = 1, 0x10\nfor i = 1, 2 do a = a + i end\nfunction f(...) return ... end\nreturn a / b % 2");
        assert!(!c.any_luau());
        assert!(!c.has_types());
        assert_eq!(c.max_nesting, 5); // chunk > for > assign > binary > name
    }

    #[test]
    fn nesting() {
        assert_eq!(cs("").max_nesting, 1);
        assert_eq!(cs("x = 1").max_nesting, 3); // chunk, stmt, expr
        assert_eq!(cs("x = (1)").max_nesting, 4);
        assert_eq!(cs("do do x = ((1)) end end").max_nesting, 7);
    }

    #[test]
    fn counts() {
        let c = cs("local x: number = 1");
        assert_eq!((c.type_annotations, c.casts, c.type_decls), (1, 0, 0));
        let c = cs("local function f<T>(a: T, b, ...: T): (T, T) return a, a end");
        assert_eq!(c.type_annotations, 4);
        let c = cs("local x = (y :: any) :: number");
        assert_eq!((c.type_annotations, c.casts), (2, 2));
        let c = cs("type A = number export type B<T> = {T} type function C() end");
        assert_eq!((c.type_annotations, c.type_decls), (3, 3));
        let c = cs("local x = f<<number>>(1)");
        assert_eq!(c.type_annotations, 1);
        let c = cs("local x: typeof(y :: typeof(z)) = 1");
        assert_eq!((c.type_annotations, c.typeof_types, c.casts), (2, 2, 1));
        let c = cs("type A = { f: typeof(function(a: number) return `{a // 1}` end) }");
        assert_eq!((c.type_annotations, c.typeof_types, c.interp_string, c.floor_div), (2, 1, 1, 1));
        let c = cs("x += 1 x //= 2 y ..= 'a'");
        assert_eq!((c.compound_assign, c.floor_div), (3, 1));
        let c = cs("while true do if a then continue end end for i = 1, 2 do continue end");
        assert_eq!(c.continue_stmt, 2);
        let c = cs("local x = if a then 1 elseif b then if c then 2 else 3 else 4");
        assert_eq!(c.if_expr, 2);
        let c = cs("local x = `a{`b{c}`}` .. `d`");
        assert_eq!(c.interp_string, 3);
        let c = cs("local x = 1 // 2 // 3");
        assert_eq!(c.floor_div, 2);
        let c = cs("local x = 0b1 + 1_0 + 0x_f + 0B1 + 10 + 0xb");
        assert_eq!(c.luau_numbers, 4);
        let c = cs("const a = 1 const function f() end local b = 2");
        assert_eq!(c.const_decl, 2);
        let c = cs("@native function f() end @[deprecated { reason = `x` }] @checked local function g() end local h = @native function() end");
        assert_eq!((c.attributes, c.interp_string), (4, 1));
        let c = cs("type function f(a) if a then return a // 1 end end");
        assert_eq!((c.type_decls, c.floor_div), (1, 1));
    }
}
