//! Behavioural oracle shared by C01 / C06 / C16 / C17 / C05: run original and transformed text
//! in the reference interpreter, same dialect on both sides, and compare.

use crate::luaref::{self, Config, Dialect, Outcome};
use crate::luasyn::{self, Mode};

#[derive(Clone, Debug)]
pub enum Verdict {
    /// behaviours agree in every dialect in which the original is in the domain;
    /// `dialects` = how many dialects were compared
    Same { dialects: usize, emits: usize },
    /// the case is outside the property's domain
    Discard(&'static str),
    /// the transformed program behaves differently / does not parse
    Differs(String),
}

/// set by a check when the known finding `unicode-escape-not-lua51` is listed for it
pub static ALLOW_LUAU_ESCAPES: std::sync::atomic::AtomicBool = std::sync::atomic::AtomicBool::new(false);

pub struct OrigRun {
    pub luau_only: bool,
    /// calls of the original whose `(` starts a new line (such programs are not compared on that point)
    pub ambiguous_calls: usize,
    /// assignments to `const` variables in the original (Luau refuses to compile such a program)
    pub const_assignments: usize,
    /// per dialect: Some(outcome) when the original is in the domain under that dialect
    pub lua51: Option<Outcome>,
    pub luau: Option<Outcome>,
    /// dialect-dependent operations performed by the original's Luau run (see
    /// `luaref::take_dialect_events`)
    pub luau_dialect_events: [u64; 2],
    /// the property claims the output is plain Lua (C06): when the output is Lua 5.1 text and the
    /// original does nothing dialect-dependent, the output is also run as Lua 5.1
    pub lua51_target: bool,
}

pub fn cfg(d: Dialect) -> Config {
    Config { dialect: d, step_budget: 60_000, ..Config::default() }
}

fn in_domain(o: &Outcome) -> bool {
    matches!(o, Outcome::Done { .. })
}

pub fn emits(o: &Outcome) -> usize {
    match o {
        Outcome::Done { trace, .. } | Outcome::Error { trace, .. } | Outcome::OutOfSteps { trace } => trace.len(),
    }
}

/// run the original under both dialects (5.1 only when it is 5.1 syntax); `make_cfg` lets a
/// property change the environment (C17)
pub fn run_original(text: &str, make_cfg: &dyn Fn(Dialect) -> Config) -> Result<OrigRun, String> {
    let p_luau = luasyn::parse(text, Mode::Luau).map_err(|e| format!("harness: generated program does not parse: {} at line {}", e.msg, e.line))?;
    let p51 = luasyn::parse(text, Mode::Lua51).ok();
    luaref::take_dialect_events();
    let luau_out = luaref::run(&p_luau.block, &make_cfg(Dialect::Luau));
    let luau_dialect_events = luaref::take_dialect_events();
    let lua51_out = p51.as_ref().map(|p| luaref::run(&p.block, &make_cfg(Dialect::Lua51)));
    let luau_only = p51.is_none();
    let const_assignments = luasyn::resolve::resolve(&p_luau.block).assigned_constants().len();
    let mut r = OrigRun { luau_only, ambiguous_calls: p_luau.ambiguous_calls.len(), const_assignments, lua51: None, luau: None, luau_dialect_events, lua51_target: false };
    if in_domain(&luau_out) {
        r.luau = Some(luau_out);
    }
    if let Some(o) = lua51_out {
        if in_domain(&o) {
            r.lua51 = Some(o);
        }
    }
    Ok(r)
}

pub fn describe(o: &Outcome) -> String {
    match o {
        Outcome::Done { trace, ret } => {
            let mut s = String::new();
            for e in trace {
                s.push_str(&format!("  {}({})\n", e.name, e.args.join(", ")));
            }
            s.push_str(&format!("  return {}\n", ret.join(", ")));
            s
        }
        Outcome::Error { trace, class } => {
            let mut s = String::new();
            for e in trace {
                s.push_str(&format!("  {}({})\n", e.name, e.args.join(", ")));
            }
            s.push_str(&format!("  ERROR {}\n", class));
            s
        }
        Outcome::OutOfSteps { trace } => format!("  ... {} events then OUT OF STEPS\n", trace.len()),
    }
}

fn first_difference(a: &Outcome, b: &Outcome) -> String {
    let da = describe(a);
    let db = describe(b);
    let la: Vec<&str> = da.lines().collect();
    let lb: Vec<&str> = db.lines().collect();
    for i in 0..la.len().max(lb.len()) {
        let x = la.get(i).copied().unwrap_or("<end>");
        let y = lb.get(i).copied().unwrap_or("<end>");
        if x != y {
            return format!("first difference at observation #{}:\n    original:    {}\n    transformed: {}", i + 1, x.trim(), y.trim());
        }
    }
    "outcomes differ".to_string()
}

/// compare a transformed text against the original's runs
pub fn compare(orig: &OrigRun, transformed: &str, make_cfg: &dyn Fn(Dialect) -> Config) -> Verdict {
    if orig.lua51.is_none() && orig.luau.is_none() {
        return Verdict::Discard("original errors or exceeds the step budget");
    }
    if let (Some(a), Some(b)) = (&orig.lua51, &orig.luau) {
        if a != b {
            return Verdict::Discard("original behaves differently under Lua 5.1 and Luau");
        }
    }
    let t_luau = match luasyn::parse(transformed, Mode::Luau) {
        Ok(p) => p,
        Err(e) => return Verdict::Differs(format!("output is not valid Luau: {} at line {}", e.msg, e.line)),
    };
    // Luau reports a call whose `(` starts a new line as an error ("Ambiguous syntax: this looks
    // like an argument list for a function call, but could also be a start of new statement")
    if orig.ambiguous_calls == 0 && !t_luau.ambiguous_calls.is_empty() {
        return Verdict::Differs(format!(
            "the output has a call whose `(` starts a new line (token #{}): Lua 5.1 and Luau reject it as ambiguous syntax",
            t_luau.ambiguous_calls[0]
        ));
    }
    // Luau refuses to compile an assignment to a `const` variable
    if orig.const_assignments == 0 {
        if let Some(name) = luasyn::resolve::resolve(&t_luau.block).assigned_constants().first() {
            return Verdict::Differs(format!("the output assigns to `{}`, which it declares with `const`: Luau refuses to compile it (the original has no such assignment)", name));
        }
    }
    let mut dialects = 0;
    let mut n_emits = 0;
    if let Some(o) = &orig.luau {
        luaref::take_dialect_events();
        let t = luaref::run(&t_luau.block, &make_cfg(Dialect::Luau));
        let t_events = luaref::take_dialect_events();
        if &t != o {
            return Verdict::Differs(format!("behaviour differs under the Luau dialect\n{}", first_difference(o, &t)));
        }
        dialects += 1;
        n_emits = emits(o);
        // plain-Lua target: the original (Luau syntax) did nothing whose result depends on the
        // dialect, the output is Lua 5.1 text and does not use the Luau-only `%*` (the documented
        // `tostring` strategy of remove_interpolated_string): run it as Lua 5.1 as well
        if orig.lua51_target && orig.luau_only && orig.luau_dialect_events == [0, 0] && t_events[1] == 0 {
            if let Ok(t51) = luasyn::parse(transformed, Mode::Lua51) {
                let t = luaref::run(&t51.block, &make_cfg(Dialect::Lua51));
                if &t != o {
                    return Verdict::Differs(format!(
                        "the lowered program is Lua 5.1 text but behaves differently when run as Lua 5.1 (the original performs no dialect-dependent operation)\n{}",
                        first_difference(o, &t)
                    ));
                }
                dialects += 1;
            }
        }
    }
    if let Some(o) = &orig.lua51 {
        // the original is plain 5.1 and ran there; the output must be 5.1 as well to be compared
        // there (rules never introduce Luau syntax; if one does, the Luau comparison still ran)
        if let Ok(t51) = luasyn::parse(transformed, Mode::Lua51) {
            let t = luaref::run(&t51.block, &make_cfg(Dialect::Lua51));
            if &t != o {
                return Verdict::Differs(format!("behaviour differs under the Lua 5.1 dialect\n{}", first_difference(o, &t)));
            }
            dialects += 1;
            n_emits = emits(o);
        } else if let Err(e) = luasyn::parse(transformed, Mode::Lua51) {
            // rules never introduce Luau syntax. The one listed exception: the dense / readable
            // generators write non-ASCII text with the Luau-only \u{...} escape (known finding
            // C07-unicode-escape-not-lua51, documented for literals by C13)
            let known_escape = e.msg.contains("escape sequence") && ALLOW_LUAU_ESCAPES.load(std::sync::atomic::Ordering::Relaxed);
            if !known_escape {
                return Verdict::Differs(format!("a Lua 5.1 program was transformed into text that is not valid Lua 5.1: {} at line {}", e.msg, e.line));
            }
        }
    }
    Verdict::Same { dialects, emits: n_emits }
}

/// run darklua with `config` (JSON5 text) on `source` and compare behaviours
pub fn check_rules(source: &str, config: &str, orig: &OrigRun, make_cfg: &dyn Fn(Dialect) -> Config) -> (Verdict, Option<String>) {
    match crate::dl::process_one(source, config) {
        Ok(out) => (compare(orig, &out, make_cfg), Some(out)),
        Err(crate::dl::DlError::Config(e)) => (Verdict::Differs(format!("harness: configuration rejected: {}", e)), None),
        Err(e) => {
            if orig.lua51.is_none() && orig.luau.is_none() {
                return (Verdict::Discard("original errors or exceeds the step budget"), None);
            }
            (Verdict::Differs(format!("darklua failed on a valid program: {}", e)), None)
        }
    }
}

/// did the rules change the code beyond renaming and whitespace?  (code-token streams of input
/// and output compared with identifier texts blanked)
pub fn code_changed(source: &str, output: &str) -> bool {
    use crate::luasyn::lex::{lex, TokKind};
    let norm = |t: &str| -> Option<Vec<(TokKind, String)>> {
        let l = lex(t, Mode::Luau).ok()?;
        Some(l.tokens.iter().map(|t| (t.kind, if t.kind == TokKind::Name { String::new() } else { t.text.clone() })).collect())
    };
    match (norm(source), norm(output)) {
        (Some(a), Some(b)) => a != b,
        _ => true,
    }
}
