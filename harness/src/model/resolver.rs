//! MODEL require resolver for C15, written from darklua's documentation only
//! (`site/content/docs/path-require-mode`, `luau-require-mode`, `bundle`, `rules/convert_require.md`)
//! plus the two Luau RFC rules the luau page refers to and the property statement names (relative
//! requires of a module-folder file start at the PARENT of its folder; `@self`).
//!
//! What the documentation says, and what this model therefore does:
//!
//! * head of the path — starts with `.` or `..`: relative to the directory of the requiring file;
//!   starts with `/`: absolute; otherwise the FIRST COMPONENT names a source / alias (`sources` of
//!   the path mode, `aliases` of the luau mode — "aliases are not restricted to start with `@`" —
//!   and the `aliases` of the nearest `.luaurc`, whose names are written without `@` and used with
//!   it, unless `use_luau_configuration` is false).  Relative locations in the configuration are
//!   relative to the configuration file, those of a `.luaurc` to the `.luaurc`.  A source may be a
//!   file.  An unknown name resolves to nothing.
//! * tail — first existing FILE of: the path, the path + `.luau`, the path + `.lua`, the path
//!   joined with the module folder name, and, when that name has no extension, the same with
//!   `.luau` then `.lua`.  The luau mode has no `module_folder_name` parameter: `init`.
//! * paths are normalised lexically (`a/../b` = `b`, `./` dropped).
//!
//! Where the documentation is silent the model does not decide: [`Answer::accepted`] lists every
//! outcome that is compatible with the documentation (a name defined both in the configuration
//! and in a `.luaurc` with different locations: either location is accepted).  `@self` is taken
//! relative to the directory of the requiring file (for a module-folder file that is the folder
//! the RFC names; for an ordinary file the documentation says nothing).

use std::collections::BTreeMap;

#[derive(Clone, Debug, PartialEq, Eq)]
pub struct ModeSpec {
    pub luau: bool,
    /// path mode only (the luau mode always uses `init`)
    pub module_folder_name: String,
    /// `sources` (path) / `aliases` (luau) exactly as written in the configuration
    pub map: BTreeMap<String, String>,
    pub use_luau_configuration: bool,
}

impl ModeSpec {
    pub fn folder_name(&self) -> &str {
        if self.luau {
            "init"
        } else {
            &self.module_folder_name
        }
    }
}

/// the in-memory world: normalised file path -> content
pub struct World<'a> {
    pub files: &'a BTreeMap<String, String>,
    /// directory of the configuration file ("" = the root)
    pub config_dir: &'a str,
}

#[derive(Clone, Debug, PartialEq, Eq)]
pub struct Outcome {
    /// Some(file) = the require resolves to this file; None = nothing is found (darklua must fail)
    pub file: Option<String>,
    /// the candidate files in the documented order (empty when the head itself is unknown)
    pub candidates: Vec<String>,
    /// why nothing is found / how the head was chosen
    pub how: String,
}

#[derive(Clone, Debug)]
pub struct Answer {
    /// every outcome compatible with the documentation (normally exactly one)
    pub accepted: Vec<Outcome>,
}

impl Answer {
    pub fn unique(&self) -> Option<&Outcome> {
        if self.accepted.len() == 1 {
            self.accepted.first()
        } else {
            None
        }
    }
    pub fn accepts_file(&self, f: &str) -> bool {
        self.accepted.iter().any(|o| o.file.as_deref() == Some(f))
    }
    pub fn accepts_nothing(&self) -> bool {
        self.accepted.iter().any(|o| o.file.is_none())
    }
}

pub fn components(p: &str) -> Vec<&str> {
    p.split('/').filter(|c| !c.is_empty()).collect()
}

/// lexical normalisation; leading `..` that cannot be cancelled are kept; "" = the root directory
pub fn normalize(p: &str) -> String {
    let absolute = p.starts_with('/');
    let mut out: Vec<&str> = vec![];
    for c in components(p) {
        match c {
            "." => {}
            ".." => {
                if matches!(out.last(), Some(l) if *l != "..") {
                    out.pop();
                } else if !absolute {
                    out.push("..");
                }
            }
            c => out.push(c),
        }
    }
    let s = out.join("/");
    if absolute {
        format!("/{}", s)
    } else {
        s
    }
}

pub fn join(a: &str, b: &str) -> String {
    if b.starts_with('/') || a.is_empty() {
        b.to_string()
    } else {
        format!("{}/{}", a, b)
    }
}

/// directory of a (normalised) file path; "" = root
pub fn dir_of(p: &str) -> String {
    match p.rfind('/') {
        Some(i) => p[..i].to_string(),
        None => String::new(),
    }
}

pub fn file_name(p: &str) -> &str {
    match p.rfind('/') {
        Some(i) => &p[i + 1..],
        None => p,
    }
}

/// parent of a directory; the parent of the root is `..`
pub fn parent_dir(d: &str) -> String {
    if d.is_empty() {
        "..".to_string()
    } else if file_name(d) == ".." {
        format!("{}/..", d)
    } else {
        dir_of(d)
    }
}

fn has_extension(name: &str) -> bool {
    match name.rfind('.') {
        Some(i) => i > 0 && i + 1 < name.len(),
        None => false,
    }
}

/// the documented candidate list for an already located path
pub fn candidates(path: &str, folder_name: &str) -> Vec<String> {
    let mut v = vec![path.to_string(), format!("{}.luau", path), format!("{}.lua", path)];
    let folder = join(path, folder_name);
    v.push(folder.clone());
    if !has_extension(folder_name) {
        v.push(format!("{}.luau", folder));
        v.push(format!("{}.lua", folder));
    }
    v
}

pub fn is_relative(req: &str) -> bool {
    req == "." || req == ".." || req.starts_with("./") || req.starts_with("../")
}

/// is this file a module-folder file of the luau mode (`init.lua` / `init.luau`)?
pub fn is_luau_module_folder_file(path: &str) -> bool {
    matches!(file_name(path), "init.lua" | "init.luau")
}

/// the aliases of the nearest `.luaurc` above `file` (names with the `@` added, locations made
/// relative to the root); None = no `.luaurc` / not readable as the documented format
pub fn nearest_luaurc(world: &World, file: &str) -> Option<BTreeMap<String, String>> {
    let mut dir = dir_of(file);
    loop {
        let rc = join(&dir, ".luaurc");
        if let Some(text) = world.files.get(&rc) {
            let v: serde_json::Value = serde_json::from_str(text).ok()?;
            let mut out = BTreeMap::new();
            if let Some(a) = v.get("aliases").and_then(|a| a.as_object()) {
                for (k, loc) in a {
                    if let Some(loc) = loc.as_str() {
                        out.insert(format!("@{}", k), normalize(&join(&dir, loc)));
                    }
                }
            }
            return Some(out);
        }
        if dir.is_empty() {
            return None;
        }
        dir = dir_of(&dir);
    }
}

/// locations a source / alias name may stand for (one, or two when the configuration and the
/// `.luaurc` disagree — the documentation does not say which wins)
fn lookup_name(world: &World, mode: &ModeSpec, entry_file: &str, name: &str) -> Vec<String> {
    let mut out: Vec<String> = vec![];
    if let Some(loc) = mode.map.get(name) {
        out.push(normalize(&join(world.config_dir, loc)));
    }
    if mode.use_luau_configuration {
        if let Some(rc) = nearest_luaurc(world, entry_file) {
            if let Some(loc) = rc.get(name) {
                if !out.contains(loc) {
                    out.push(loc.clone());
                }
            }
        }
    }
    out
}

fn locate(world: &World, mode: &ModeSpec, located: &str, how: String) -> Outcome {
    let located = normalize(located);
    let cands = candidates(&located, mode.folder_name());
    let file = cands.iter().find(|c| world.files.contains_key(*c)).cloned();
    Outcome { file, candidates: cands, how }
}

/// resolve `req` written in `requirer`; `entry_file` is the file darklua processes (the `.luaurc`
/// lookup is documented per processed file)
pub fn resolve(world: &World, mode: &ModeSpec, entry_file: &str, requirer: &str, req: &str) -> Answer {
    let requirer = normalize(requirer);
    let here = dir_of(&requirer);
    if req.is_empty() {
        return Answer { accepted: vec![Outcome { file: None, candidates: vec![], how: "empty path".into() }] };
    }
    if is_relative(req) {
        let base = if mode.luau && is_luau_module_folder_file(&requirer) { parent_dir(&here) } else { here.clone() };
        let how = format!("relative to `{}`", base);
        return Answer { accepted: vec![locate(world, mode, &join(&base, req), how)] };
    }
    if req.starts_with('/') {
        return Answer { accepted: vec![locate(world, mode, req, "absolute".into())] };
    }
    let comps = components(req);
    let name = comps[0];
    let rest = comps[1..].join("/");
    if mode.luau && name == "@self" {
        let how = format!("@self = `{}`", here);
        return Answer { accepted: vec![locate(world, mode, &join(&here, &rest), how)] };
    }
    let locations = lookup_name(world, mode, entry_file, name);
    if locations.is_empty() {
        if mode.luau && !name.starts_with('@') {
            // the documentation does not say what a plain first component that is not an alias
            // means in the luau mode; darklua reads the path from the working directory: accepted
            // next to an error
            return Answer {
                accepted: vec![
                    Outcome { file: None, candidates: vec![], how: format!("unknown alias `{}`", name) },
                    locate(world, mode, req, "plain path from the working directory (undocumented)".into()),
                ],
            };
        }
        return Answer { accepted: vec![Outcome { file: None, candidates: vec![], how: format!("unknown source/alias `{}`", name) }] };
    }
    let accepted = locations
        .iter()
        .map(|loc| {
            let p = if rest.is_empty() { loc.clone() } else { join(loc, &rest) };
            locate(world, mode, &p, format!("source/alias `{}` = `{}`", name, loc))
        })
        .collect::<Vec<_>>();
    // two locations that lead to the same outcome are one outcome
    let mut dedup: Vec<Outcome> = vec![];
    for o in accepted {
        if !dedup.iter().any(|d| d.file == o.file && (o.file.is_some() || d.candidates == o.candidates)) {
            dedup.push(o);
        }
    }
    Answer { accepted: dedup }
}

#[cfg(test)]
mod tests {
    use super::*;

    #[test]
    fn normalises() {
        assert_eq!(normalize("src/./a/../m"), "src/m");
        assert_eq!(normalize("./src/../../m"), "../m");
        assert_eq!(normalize("src/.."), "");
        assert_eq!(parent_dir(""), "..");
        assert_eq!(parent_dir("src/pkg"), "src");
    }

    #[test]
    fn candidate_order() {
        assert_eq!(candidates("src/m", "init"), vec!["src/m", "src/m.luau", "src/m.lua", "src/m/init", "src/m/init.luau", "src/m/init.lua"]);
        assert_eq!(candidates("src/m", "init.lua"), vec!["src/m", "src/m.luau", "src/m.lua", "src/m/init.lua"]);
    }
}
