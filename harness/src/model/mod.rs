pub mod glob;
