pub mod glob;
pub mod resolver;
