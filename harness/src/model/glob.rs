//! Model matcher for the documented core of the glob language used by `apply_to_files`,
//! `skip_files` and `bundle.excludes`: literals, `?`, `*`, `**` (whole component) and `{a,b}`.
//! Written from the pattern documentation; shares nothing with the `wax` crate.

/// does `pattern` match the whole `path` (components separated by `/`)?
pub fn glob_match(pattern: &str, path: &str) -> bool {
    let pc: Vec<&str> = pattern.split('/').collect();
    let fc: Vec<&str> = path.split('/').filter(|c| !c.is_empty() && *c != ".").collect();
    match_components(&pc, &fc)
}

fn match_components(pat: &[&str], path: &[&str]) -> bool {
    if pat.is_empty() {
        return path.is_empty();
    }
    if pat[0] == "**" {
        // zero or more whole components
        for k in 0..=path.len() {
            if match_components(&pat[1..], &path[k..]) {
                return true;
            }
        }
        return false;
    }
    if path.is_empty() {
        return false;
    }
    segment_match(pat[0].as_bytes(), path[0].as_bytes()) && match_components(&pat[1..], &path[1..])
}

/// one path component against one pattern component (`*`, `?`, `{a,b}`, literals)
fn segment_match(pat: &[u8], s: &[u8]) -> bool {
    if pat.is_empty() {
        return s.is_empty();
    }
    match pat[0] {
        b'*' => {
            for k in 0..=s.len() {
                if segment_match(&pat[1..], &s[k..]) {
                    return true;
                }
            }
            false
        }
        b'?' => !s.is_empty() && segment_match(&pat[1..], &s[1..]),
        b'{' => {
            // alternatives are plain (possibly wildcarded) sub-patterns without nesting
            let close = match pat.iter().position(|c| *c == b'}') {
                Some(i) => i,
                None => return false,
            };
            let inner = &pat[1..close];
            let rest = &pat[close + 1..];
            for alt in inner.split(|c| *c == b',') {
                let mut p = alt.to_vec();
                p.extend_from_slice(rest);
                if segment_match(&p, s) {
                    return true;
                }
            }
            false
        }
        c => !s.is_empty() && s[0] == c && segment_match(&pat[1..], &s[1..]),
    }
}

/// apply/skip semantics as documented: matches at least one apply pattern (or none given) and no skip pattern
pub fn selected(apply: &[String], skip: &[String], path: &str) -> bool {
    if !apply.is_empty() && !apply.iter().any(|p| glob_match(p, path)) {
        return false;
    }
    if skip.iter().any(|p| glob_match(p, path)) {
        return false;
    }
    true
}

#[cfg(test)]
mod test {
    use super::*;
    #[test]
    fn basics() {
        assert!(glob_match("src/*.lua", "src/a.lua"));
        assert!(!glob_match("src/*.lua", "src/sub/a.lua"));
        assert!(glob_match("src/**/*.lua", "src/a.lua"));
        assert!(glob_match("src/**/*.lua", "src/x/y/a.lua"));
        assert!(glob_match("**/*.test.*", "src/x.test.lua"));
        assert!(glob_match("src/{a,b}.lua", "src/b.lua"));
        assert!(!glob_match("src/{a,b}.lua", "src/c.lua"));
        assert!(glob_match("src/?.lua", "src/c.lua"));
        assert!(!glob_match("src/?.lua", "src/cc.lua"));
        assert!(glob_match("**", "src/c.lua"));
        assert!(glob_match("src/**", "src/c.lua"));
        assert!(!glob_match("*.lua", "src/c.lua"));
        assert!(glob_match("**/vendor/**", "src/vendor/e.lua"));
    }
}
