//! Shared driver of the behaviour-preservation checks (C01, C06, C16).

use crate::behave::{self, Verdict};
use crate::engine::*;
use crate::gen::progen::{gen_program, GenOpts};
use crate::luaprint;
use crate::luaref::Dialect;
use crate::luasyn::ast::Block;
use crate::tape::Tape;
use serde_json::{json, Value};

pub struct BehaviourSpec<'a> {
    pub opts: GenOpts,
    pub luau_layout: bool,
    pub cases: u64,
    pub tape_len: usize,
    /// configurations (JSON5 texts) to try for one program
    pub configs: &'a (dyn Fn(&mut Tape) -> Vec<String> + Sync),
    /// known-finding post-filters: Some(reason) = the program contains the trigger of a listed finding
    pub filters: Vec<fn(&Block) -> Option<&'static str>>,
    /// extra non-triviality requirement on the generator's statistics
    pub nontrivial: &'a (dyn Fn(&crate::gen::progen::GenStats) -> bool + Sync),
    /// the property claims plain Lua output (C06): see `behave::OrigRun::lua51_target`
    pub lua51_target: bool,
}

pub fn plain_cfg(d: Dialect) -> crate::luaref::Config {
    behave::cfg(d)
}

pub fn print_program(t: &mut Tape, block: &Block, luau: bool) -> String {
    if t.bool(90) {
        let mut o = luaprint::LayoutOpts::all(luau);
        o.trailing_newline = true;
        luaprint::print_layout(block, t, &o)
    } else {
        luaprint::print_plain(block)
    }
}

pub fn check_one(source: &str, config: &str) -> Result<Verdict, String> {
    check_one_target(source, config, false)
}

pub fn check_one_target(source: &str, config: &str, lua51_target: bool) -> Result<Verdict, String> {
    let mut orig = behave::run_original(source, &plain_cfg)?;
    orig.lua51_target = lua51_target;
    let (v, _) = behave::check_rules(source, config, &orig, &plain_cfg);
    Ok(v)
}

pub fn run_behaviour(ctx: &RunCtx, phase: &str, spec: &BehaviourSpec) {
    behave::ALLOW_LUAU_ESCAPES.store(ctx.avoid("unicode-escape-not-lua51"), std::sync::atomic::Ordering::Relaxed);
    ctx.search(phase, spec.cases, spec.tape_len, |tape, st| {
        let mut t = Tape::new(tape);
        let mut prog = gen_program(&mut t, &spec.opts);
        // one program in six lives in an unusual syntactic home (gen/context.rs)
        let (wrapped, was) = crate::gen::context::maybe_wrap(std::mem::replace(&mut prog.block, crate::luasyn::ast::Block::new(vec![])), &mut t, spec.opts.luau, 42);
        prog.block = wrapped;
        if was {
            st.class("program_in_unusual_context");
        }
        for f in &spec.filters {
            if let Some(why) = f(&prog.block) {
                return CaseResult::Discard(why);
            }
        }
        let source = print_program(&mut t, &prog.block, spec.luau_layout);
        let configs = (spec.configs)(&mut t);
        for (k, v) in &prog.stats {
            st.class_n(k, *v as u64);
        }
        let mut orig = match behave::run_original(&source, &plain_cfg) {
            Ok(o) => o,
            // the reference printer wrote something the reference parser refuses: a gap between the two
            // halves of the harness, not something darklua did (counted, never reported as a violation)
            Err(_) => {
                st.class("harness_printer_parser_gap");
                return CaseResult::Discard("harness: printed text does not parse (printer/parser gap)");
            }
        };
        orig.lua51_target = spec.lua51_target;
        if spec.lua51_target && orig.luau.is_some() && orig.luau_only && orig.luau_dialect_events == [0, 0] {
            st.class("original_dialect_independent");
        }
        if orig.lua51.is_none() && orig.luau.is_none() {
            return CaseResult::Discard("original errors or exceeds the step budget");
        }
        let mut nontrivial = None;
        for config in &configs {
            let (v, out) = behave::check_rules(&source, config, &orig, &plain_cfg);
            match v {
                Verdict::Same { emits, dialects } => {
                    if orig.luau_only && dialects == 2 {
                        st.class("output_also_run_as_lua51");
                    }
                    if emits >= 1 && (spec.nontrivial)(&prog.stats) && out.as_deref().map(|o| behave::code_changed(&source, o)).unwrap_or(false) {
                        st.class("nontrivial_config");
                        nontrivial = Some(hash_parts(&[source.as_bytes(), config.as_bytes()]));
                    }
                }
                Verdict::Discard(why) => return CaseResult::Discard(why),
                Verdict::Differs(msg) => {
                    return CaseResult::Fail(Failure::new(
                        format!("{}\n--- configuration\n{}\n--- source\n{}\n--- output\n{}", msg, config, source, out.unwrap_or_default()),
                        json!({"kind": "behaviour", "source": source, "config": config, "lua51_target": spec.lua51_target}),
                    ));
                }
            }
        }
        st.sample(|| json!({"source": source, "configs": configs}));
        CaseResult::Pass { nontrivial }
    });
}

pub fn replay_behaviour(v: &Value) -> Result<(), String> {
    let source = v.get("source").and_then(|s| s.as_str()).ok_or("malformed replay: no source")?;
    let config = v.get("config").and_then(|s| s.as_str()).ok_or("malformed replay: no config")?;
    let target = v.get("lua51_target").and_then(|b| b.as_bool()).unwrap_or(false);
    match check_one_target(source, config, target)? {
        Verdict::Differs(m) => Err(m),
        _ => Ok(()),
    }
}

/// reduce `source` while `still_fails(source)` holds
pub fn minimize_source(v: &Value, still_fails: &dyn Fn(&str, &Value) -> bool) -> Option<Value> {
    let source = v.get("source")?.as_str()?;
    let block = crate::luasyn::parse(source, crate::luasyn::Mode::Luau).ok()?.block;
    // never reduce INTO the trigger of a listed known finding
    let known = |b: &Block| crate::visit::has_const_andor_multi_tail(b) || has_underscore_binding(b) || crate::visit::has_interp_tostring_order(b);
    let orig_known = known(&block);
    let accept = |text: &str| -> bool {
        if !orig_known {
            if let Ok(p) = crate::luasyn::parse(text, crate::luasyn::Mode::Luau) {
                if known(&p.block) {
                    return false;
                }
            }
        }
        still_fails(text, v)
    };
    let reduced = crate::reduce::reduce(&block, &accept, 1500);
    let text = luaprint::print_plain(&reduced);
    if !still_fails(&text, v) {
        return None;
    }
    let mut out = v.clone();
    out["source"] = json!(text);
    Some(out)
}

pub fn minimize_behaviour(v: &Value) -> Option<Value> {
    minimize_source(v, &|text, v| {
        let config = v.get("config").and_then(|c| c.as_str()).unwrap_or("{}");
        let target = v.get("lua51_target").and_then(|b| b.as_bool()).unwrap_or(false);
        matches!(check_one_target(text, config, target), Ok(Verdict::Differs(_)))
    })
}

pub fn filter_const_andor(b: &Block) -> Option<&'static str> {
    crate::visit::has_const_andor_multi_tail(b).then_some("avoided: known finding const-andor-multi-tail")
}

pub fn has_underscore_binding(b: &Block) -> bool {
    crate::luasyn::resolve::resolve(b).occurrences.iter().any(|o| o.name == "_" && o.role.is_decl())
}

pub fn filter_interp_order(b: &Block) -> Option<&'static str> {
    crate::visit::has_interp_tostring_order(b).then_some("avoided: known finding interp-tostring-order")
}
