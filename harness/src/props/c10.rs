//! C10 — incremental reprocessing (the `--watch` protocol on a long-lived WorkerTree) equals a
//! fresh run over the final inputs and configuration.

use crate::engine::*;
use crate::tape::Tape;
use darklua_core::{Options, Resources, WorkerTree};
use serde_json::{json, Value};
use std::collections::BTreeMap;
use std::path::{Path, PathBuf};

pub fn def() -> PropDef {
    PropDef {
        id: "C10",
        rule: "histories over a small project (4 sources in nested folders, a bundle entry with modules inside and outside the input folder and a data file, a foreign file in out/): edit / add / remove file / remove directory / rename / edit dependency / change configuration (8 variants) / process, driven through the same WorkerTree calls the file watcher makes. Exhaustive over all histories of <= N mutating operations from a concrete alphabet (N=2 quick, 3 thorough) with a process pass between and after, random histories up to length 14 beyond; the same driver also runs on a real temporary directory. Oracle: after every process pass the output tree equals (paths and bytes) a fresh darklua run over the current inputs + the original foreign files; no panic. Non-trivial = a process pass, then >= 1 mutating operation, then another pass; distinct by history.",
        assumptions: &[
            "the OS-level watcher is replaced by the calls it makes (source_changed / remove_source / collect_work / process); symlinks are not modelled",
            "all file contents stay processable (a failing file keeps its stale output by design)",
            "hangs are monitored by a watchdog (exit 2), not decided",
        ],
        run,
        replay,
        minimize: None,
    }
}

pub const CONFIGS: [&str; 10] = [
    // 0 no rules
    r#"{ rules: [] }"#,
    // 1 default rules
    r#"{ }"#,
    // 2 a rule with a property
    r#"{ rules: [{ rule: "inject_global_value", identifier: "GA", value: 1 }, "remove_comments"] }"#,
    // 3 the property changed
    r#"{ rules: [{ rule: "inject_global_value", identifier: "GA", value: 2 }, "remove_comments"] }"#,
    // 4 a rule's file filter
    r#"{ rules: [{ rule: "inject_global_value", identifier: "GA", value: 2 }, { rule: "remove_comments", skip_files: "**/a.lua" }] }"#,
    // 5 generator
    r#"{ rules: ["remove_comments"], generator: "dense" }"#,
    // 6 bundling
    r#"{ rules: [], bundle: { require_mode: "path" } }"#,
    // 7 bundling + rules + an exclude
    r#"{ rules: ["remove_comments", "remove_empty_do"], bundle: { require_mode: "path", excludes: ["**/y*"] } }"#,
    // 8 (index 9 below: 8 is the top-level filter variant) same as 6, only a bundle option differs
    r#"{ rules: [], bundle: { require_mode: "path", modules_identifier: "__OTHER_MODULES" } }"#,
    // 9 same as 7, only the bundle excludes differ
    r#"{ rules: ["remove_comments", "remove_empty_do"], bundle: { require_mode: "path", excludes: [] } }"#,
];
// a top-level filter makes darklua skip files; whether the stale output of a now-skipped file
// must disappear is covered by variant 8 (see known findings)
pub const CONFIG_TOP_FILTER: &str = r#"{ rules: ["remove_comments"], skip_files: "**/b.lua" }"#;

/// marker of a content version that cannot be processed (k = 8: syntax error / invalid data,
/// k = 9: a require of a module that does not exist — fails only under a bundling configuration)
const BROKEN: &str = "BROKEN-CONTENT";

fn content(path: &str, k: usize) -> String {
    // (the Luau configuration file is never broken: every file of a bundling pass reads it, and only the
    // source that uses its alias is notified with it)
    if k >= 8 && path != ".luaurc" {
        if path.ends_with(".json") {
            return format!("{{ \"{BROKEN}\": ");
        }
        if k == 8 {
            return format!("-- {BROKEN} v{k}\nlocal = = 1\n");
        }
        return format!("-- {BROKEN} v{k}\nlocal missing = require(\"./does_not_exist\")\n{}", content(path, 1));
    }
    match path {
        "src/main.lua" => format!(
            "-- main v{k}\nlocal x = require(\"./lib/x\")\nlocal y = require(\"./lib/y\")\nlocal d = require(\"./data.json\")\nlocal z = require(\"../ext/z\")\ndo end\nprint(x, y, d, z, GA, {k})\n"
        ),
        "src/lib/x.lua" => format!("-- x v{k}\nlocal y = require(\"./y\")\nreturn {{ x = {k}, y = y, g = GA }}\n"),
        "src/sub/entry.lua" => format!("-- entry v{k}\nlocal y = require(\"../lib/y\")\nlocal z = require(\"../../ext/z\")\nlocal viaAlias = require(\"@pkg/y\")\nprint(y, z, viaAlias, {k})\n"),
        // the alias of the Luau configuration file points at src/lib (even k) or at ext (odd k)
        ".luaurc" => format!("{{ \"aliases\": {{ \"pkg\": \"{}\" }} }}", if k % 2 == 0 { "./src/lib" } else { "./ext" }),
        "ext/y.lua" => format!("-- ext y v{k}\nreturn {{ y = \"ext {k}\" }}\n"),
        "src/lib/y.lua" => format!("-- y v{k}\nreturn {{ y = {k} }}\n"),
        "ext/z.lua" => format!("-- z v{k}\nreturn {{ z = {k} }}\n"),
        "src/data.json" => format!("{{ \"value\": {k}, \"list\": [1, 2, {k}] }}"),
        p => format!("-- file {p} v{k}\nlocal value = GA\ndo end\nprint(value, {k}) -- trailing\nreturn value\n"),
    }
}

fn initial_files() -> Vec<(&'static str, String)> {
    let mut v = vec![];
    for p in ["src/a.lua", "src/sub/b.lua", "src/sub/entry.lua", "src/sub/deep/c.luau", "src/main.lua", "src/lib/x.lua", "src/lib/y.lua", "ext/z.lua", "ext/y.lua", ".luaurc", "src/data.json"] {
        v.push((p, content(p, 0)));
    }
    v.push(("out/foreign.txt", "keep me".to_string()));
    v.push(("out/sub/foreign.lua", "-- foreign\nreturn 1\n".to_string()));
    v
}

#[derive(Clone, Debug, PartialEq, Eq)]
pub enum Op {
    /// write content k to path; `source_changed` if it existed, else the create protocol
    Write { path: String, k: usize, also_changed: bool },
    RemoveFile { path: String },
    /// remove every file under dir; notify the directory only, or every file then the directory
    RemoveDir { dir: String, each_file: bool },
    Rename { from: String, to: String },
    SetConfig(usize),
    Process,
}

impl Op {
    fn to_json(&self) -> Value {
        match self {
            Op::Write { path, k, also_changed } => json!({"op": "write", "path": path, "k": k, "also_changed": also_changed}),
            Op::RemoveFile { path } => json!({"op": "remove_file", "path": path}),
            Op::RemoveDir { dir, each_file } => json!({"op": "remove_dir", "dir": dir, "each_file": each_file}),
            Op::Rename { from, to } => json!({"op": "rename", "from": from, "to": to}),
            Op::SetConfig(i) => json!({"op": "set_config", "variant": i}),
            Op::Process => json!({"op": "process"}),
        }
    }
    fn from_json(v: &Value) -> Option<Op> {
        let s = |k: &str| v.get(k).and_then(|x| x.as_str()).map(|x| x.to_string());
        Some(match v.get("op")?.as_str()? {
            "write" => Op::Write { path: s("path")?, k: v.get("k")?.as_u64()? as usize, also_changed: v.get("also_changed")?.as_bool()? },
            "remove_file" => Op::RemoveFile { path: s("path")? },
            "remove_dir" => Op::RemoveDir { dir: s("dir")?, each_file: v.get("each_file")?.as_bool()? },
            "rename" => Op::Rename { from: s("from")?, to: s("to")? },
            "set_config" => Op::SetConfig(v.get("variant")?.as_u64()? as usize),
            "process" => Op::Process,
            _ => return None,
        })
    }
    fn mutating(&self) -> bool {
        !matches!(self, Op::Process)
    }
}

/// the concrete alphabet for the exhaustive tier
pub fn alphabet(with_top_filter: bool) -> Vec<Op> {
    let w = |p: &str, k: usize, c: bool| Op::Write { path: p.into(), k, also_changed: c };
    let mut v = vec![
        w("src/a.lua", 1, false),
        w("src/a.lua", 2, true),
        w("src/sub/b.lua", 1, false),
        w("src/sub/deep/c.luau", 1, false),
        w("src/sub/entry.lua", 1, false),
        w("src/main.lua", 1, false),
        w("src/lib/x.lua", 1, false),
        w("src/lib/y.lua", 1, false),
        w("ext/z.lua", 1, false),
        w("src/data.json", 1, false),
        w(".luaurc", 1, false),
        w(".luaurc", 2, false),
        w("src/new.lua", 1, false),
        // edits that break a file or a bundled dependency (passes made while one is present are
        // only required not to panic; the comparison resumes once every file is healthy again)
        w("src/lib/y.lua", 9, false),
        w("src/a.lua", 8, false),
        w("src/data.json", 8, false),
        w("src/sub/deep/more/n.lua", 1, true),
        Op::RemoveFile { path: "src/a.lua".into() },
        Op::RemoveFile { path: "src/sub/deep/c.luau".into() },
        Op::RemoveFile { path: "src/new.lua".into() },
        Op::RemoveDir { dir: "src/sub".into(), each_file: false },
        Op::RemoveDir { dir: "src/sub/deep".into(), each_file: true },
        Op::Rename { from: "src/a.lua".into(), to: "src/renamed.lua".into() },
        Op::SetConfig(0),
        Op::SetConfig(1),
        Op::SetConfig(3),
        Op::SetConfig(4),
        Op::SetConfig(5),
        Op::SetConfig(6),
        Op::SetConfig(7),
        Op::SetConfig(9),
        Op::SetConfig(10),
    ];
    if with_top_filter {
        v.push(Op::SetConfig(8));
    }
    v
}

fn config_text(i: usize) -> &'static str {
    if i == 8 {
        CONFIG_TOP_FILTER
    } else {
        // 9 and 10 address the two last entries (8 is the top-level filter variant)
        CONFIGS[(if i >= 9 { i - 1 } else { i }) % CONFIGS.len()]
    }
}

struct World {
    resources: Resources,
    /// mirror of what is on "disk" except out/ (inputs, config)
    inputs: BTreeMap<String, String>,
    tree: Option<WorkerTree>,
    root: String,
}

fn options(root: &str) -> Options {
    if root.is_empty() {
        Options::new(Path::new("src")).with_output(Path::new("out"))
    } else {
        Options::new(Path::new(root).join("src")).with_output(Path::new(root).join("out")).with_configuration_at(Path::new(root).join(".darklua.json"))
    }
}

impl World {
    fn p(&self, rel: &str) -> PathBuf {
        if self.root.is_empty() {
            PathBuf::from(rel)
        } else {
            Path::new(&self.root).join(rel)
        }
    }
    fn new(resources: Resources, root: &str, start_config: usize) -> World {
        let mut w = World { resources, inputs: BTreeMap::new(), tree: None, root: root.to_string() };
        for (p, c) in initial_files() {
            w.resources.write(w.p(p), &c).unwrap();
            if !p.starts_with("out/") {
                w.inputs.insert(p.to_string(), c);
            }
        }
        let c = config_text(start_config).to_string();
        w.resources.write(w.p(".darklua.json"), &c).unwrap();
        w.inputs.insert(".darklua.json".into(), c);
        w
    }

    fn apply(&mut self, op: &Op) -> Result<(), String> {
        let root = self.root.clone();
        let p = move |rel: &str| -> PathBuf { if root.is_empty() { PathBuf::from(rel) } else { Path::new(&root).join(rel) } };
        let root2 = self.root.clone();
        match op {
            Op::Write { path, k, also_changed } => {
                let existed = self.inputs.contains_key(path);
                let c = content(path, *k);
                self.resources.write(p(path), &c).map_err(|e| format!("{:?}", e))?;
                self.inputs.insert(path.clone(), c);
                if let Some(tree) = self.tree.as_mut() {
                    if path == ".luaurc" {
                        // the Luau configuration file is not an input of its own (whether an edit of it
                        // alone must be noticed is not part of the property): it changes together with
                        // the source that requires through its alias
                        if self.inputs.contains_key("src/sub/entry.lua") {
                            tree.source_changed(p("src/sub/entry.lua"));
                        }
                    } else if existed {
                        tree.source_changed(p(path));
                    } else {
                        if *also_changed {
                            tree.source_changed(p(path));
                        }
                        tree.collect_work(&self.resources, &options(&root2)).map_err(|e| e.to_string())?;
                    }
                }
            }
            Op::RemoveFile { path } => {
                if self.inputs.remove(path).is_some() {
                    self.resources.remove(p(path)).map_err(|e| format!("{:?}", e))?;
                    if let Some(tree) = self.tree.as_mut() {
                        tree.remove_source(p(path));
                    }
                }
            }
            Op::RemoveDir { dir, each_file } => {
                let prefix = format!("{}/", dir);
                let files: Vec<String> = self.inputs.keys().filter(|k| k.starts_with(&prefix)).cloned().collect();
                if files.is_empty() {
                    return Ok(());
                }
                for f in &files {
                    self.inputs.remove(f);
                    if self.root.is_empty() {
                        self.resources.remove(p(f)).map_err(|e| format!("{:?}", e))?;
                    }
                }
                if !self.root.is_empty() {
                    self.resources.remove(p(dir)).map_err(|e| format!("{:?}", e))?;
                }
                if let Some(tree) = self.tree.as_mut() {
                    if *each_file {
                        for f in &files {
                            tree.remove_source(p(f));
                        }
                    }
                    tree.remove_source(p(dir));
                }
            }
            Op::Rename { from, to } => {
                if let Some(c) = self.inputs.remove(from) {
                    self.resources.remove(p(from)).map_err(|e| format!("{:?}", e))?;
                    self.resources.write(p(to), &c).map_err(|e| format!("{:?}", e))?;
                    self.inputs.insert(to.clone(), c);
                    if let Some(tree) = self.tree.as_mut() {
                        tree.remove_source(p(from));
                        tree.remove_source(p(to));
                        tree.collect_work(&self.resources, &options(&root2)).map_err(|e| e.to_string())?;
                    }
                }
            }
            Op::SetConfig(i) => {
                let c = config_text(*i).to_string();
                self.resources.write(p(".darklua.json"), &c).map_err(|e| format!("{:?}", e))?;
                self.inputs.insert(".darklua.json".into(), c);
                if let Some(tree) = self.tree.as_mut() {
                    // the watcher reports the modification of the configuration file like any other
                    tree.source_changed(p(".darklua.json"));
                }
            }
            Op::Process => {
                let opts = options(&root2);
                if self.has_broken_input() {
                    // errors are expected; only a panic is a failure here
                    if let Some(tree) = self.tree.as_mut() {
                        let _ = tree.process(&self.resources, opts);
                    } else if let Ok(t) = darklua_core::process(&self.resources, opts) {
                        self.tree = Some(t);
                    }
                    return Ok(());
                }
                if let Some(tree) = self.tree.as_mut() {
                    tree.process(&self.resources, opts).map_err(|e| format!("process returned an error: {}", e))?;
                } else {
                    let t = darklua_core::process(&self.resources, opts).map_err(|e| format!("process returned an error: {}", e))?;
                    self.tree = Some(t);
                }
                let errs: Vec<String> = self.tree.as_ref().unwrap().collect_errors().iter().map(|e| e.to_string()).collect();
                if !errs.is_empty() {
                    return Err(format!("work items failed although every file is processable: {:?}", errs));
                }
            }
        }
        Ok(())
    }

    fn has_broken_input(&self) -> bool {
        self.inputs.values().any(|c| c.contains(BROKEN))
    }

    fn out_tree(&self) -> BTreeMap<String, String> {
        let mut m = BTreeMap::new();
        let out = self.p("out");
        for p in self.resources.walk(&out) {
            let rel = p.strip_prefix(&out).map(|r| r.to_string_lossy().to_string()).unwrap_or_else(|_| p.to_string_lossy().to_string());
            if let Ok(c) = self.resources.get(&p) {
                m.insert(rel, c);
            }
        }
        m
    }

    /// the reference: a fresh run over the current inputs (+ the original foreign files)
    fn fresh_tree(&self) -> Result<BTreeMap<String, String>, String> {
        let r = Resources::from_memory();
        for (p, c) in &self.inputs {
            r.write(p, c).unwrap();
        }
        for (p, c) in initial_files() {
            if p.starts_with("out/") {
                r.write(p, &c).unwrap();
            }
        }
        let tree = darklua_core::process(&r, Options::new(Path::new("src")).with_output(Path::new("out"))).map_err(|e| format!("fresh run failed: {}", e))?;
        let errs: Vec<String> = tree.collect_errors().iter().map(|e| e.to_string()).collect();
        if !errs.is_empty() {
            return Err(format!("fresh run reported errors (harness: contents must stay processable): {:?}", errs));
        }
        let mut m = BTreeMap::new();
        for p in r.walk("out") {
            let rel = p.strip_prefix("out").map(|r| r.to_string_lossy().to_string()).unwrap_or_default();
            m.insert(rel, r.get(&p).unwrap_or_default());
        }
        Ok(m)
    }
}

fn diff_trees(actual: &BTreeMap<String, String>, expected: &BTreeMap<String, String>) -> Option<String> {
    for (p, c) in expected {
        match actual.get(p) {
            None => return Some(format!("out/{} is missing (a fresh run writes it)", p)),
            Some(a) if a != c => return Some(format!("out/{} is stale or wrong\n--- fresh run\n{}\n--- incremental\n{}", p, c, a)),
            _ => {}
        }
    }
    for p in actual.keys() {
        if !expected.contains_key(p) {
            return Some(format!("out/{} exists but a fresh run would not produce it", p));
        }
    }
    None
}

pub struct HistoryResult {
    pub processes: usize,
    pub nontrivial: bool,
    /// a comparison was made after a pass that ran while a file was broken
    pub recovered: bool,
}

/// run a history on memory resources (root = "") or on a real directory
pub fn run_history(ops: &[Op], start_config: usize, fs_root: Option<&Path>) -> Result<HistoryResult, String> {
    let (resources, root) = match fs_root {
        None => (Resources::from_memory(), String::new()),
        Some(r) => (Resources::from_file_system(), r.to_string_lossy().to_string()),
    };
    let mut w = World::new(resources, &root, start_config);
    let mut processes = 0;
    let mut mutated_after_process = false;
    let mut nontrivial = false;
    let mut broken_passes = 0;
    let mut recovered = false;
    for (i, op) in ops.iter().enumerate() {
        let r = catch(|| w.apply(op));
        match r {
            Err(p) => return Err(format!("PANIC at step {} ({}): {}", i, op.to_json(), p)),
            Ok(Err(e)) => return Err(format!("step {} ({}): {}", i, op.to_json(), e)),
            Ok(Ok(())) => {}
        }
        if op.mutating() {
            if processes > 0 {
                mutated_after_process = true;
            }
        } else {
            processes += 1;
            if mutated_after_process {
                nontrivial = true;
            }
            if w.has_broken_input() {
                broken_passes += 1;
                continue;
            }
            if broken_passes > 0 {
                recovered = true;
            }
            let expected = w.fresh_tree()?;
            let actual = w.out_tree();
            if let Some(d) = diff_trees(&actual, &expected) {
                return Err(format!("after step {} (process pass #{}): {}", i, processes, d));
            }
            if fs_root.is_some() {
                // emptied output directories are pruned, like a fresh run would not create them
                check_no_empty_dirs(&w.p("out"))?;
            }
        }
    }
    Ok(HistoryResult { processes, nontrivial, recovered })
}

fn check_no_empty_dirs(dir: &Path) -> Result<(), String> {
    let Ok(rd) = std::fs::read_dir(dir) else { return Ok(()) };
    let mut n = 0;
    for e in rd.flatten() {
        n += 1;
        if e.path().is_dir() {
            check_no_empty_dirs(&e.path())?;
        }
    }
    if n == 0 {
        return Err(format!("empty directory {} left behind in the output (a fresh run would not create it)", dir.display()));
    }
    Ok(())
}

fn history_json(ops: &[Op], start_config: usize, fs: bool) -> Value {
    json!({"start_config": start_config, "fs": fs, "ops": ops.iter().map(|o| o.to_json()).collect::<Vec<_>>()})
}

fn gen_history(t: &mut Tape, alpha: &[Op]) -> (Vec<Op>, usize) {
    let start = *t.pick(&[0usize, 1, 3, 6, 7]);
    let n = 2 + t.choose(13);
    let mut ops = vec![];
    if t.bool(230) {
        ops.push(Op::Process);
    }
    for _ in 0..n {
        if t.bool(70) {
            ops.push(Op::Process);
        } else {
            let mut op = alpha[t.choose(alpha.len())].clone();
            if let Op::Write { k, also_changed, .. } = &mut op {
                *k = [0usize, 1, 2, 0, 1, 2, 1, 8, 9][t.choose(9)];
                *also_changed = t.bool(100);
            }
            if let Op::RemoveDir { each_file, .. } = &mut op {
                *each_file = t.bool(128);
            }
            ops.push(op);
        }
    }
    ops.push(Op::Process);
    (ops, start)
}

fn classify(ops: &[Op], st: &mut Stats) {
    let mut removed: Vec<&str> = vec![];
    for op in ops {
        match op {
            Op::RemoveFile { path } => removed.push(path),
            Op::Write { path, .. } => {
                if removed.contains(&path.as_str()) {
                    st.class("remove_then_readd");
                }
                if path.contains("lib/") || path.starts_with("ext/") || path.ends_with(".json") {
                    st.class("dependency_edit");
                }
            }
            Op::RemoveDir { .. } => st.class("directory_removal"),
            Op::SetConfig(_) => st.class("config_change"),
            Op::Rename { .. } => st.class("rename"),
            Op::Process => {}
        }
    }
}

fn run(ctx: &RunCtx) {
    let avoid_top = ctx.avoid("top-level-filter-stale-output");
    let alpha = alphabet(!avoid_top);
    let a = alpha.len() as u64;
    // exhaustive: all histories of <= N mutating ops; shape: P, op1, [P], op2, [P], ..., P
    let depth = ctx.tier.pick(2u32, 3u32);
    let mut total = 0u64;
    for d in 1..=depth {
        // each of the d-1 inner gaps may hold a process pass or not; start config in {1, 7}
        total += a.pow(d) * (1 << (d - 1)) * 2;
    }
    ctx.add_class("exhaustive_histories", total);
    ctx.enumerate("exhaustive", total, |mut i, st| {
        let mut d = 1u32;
        loop {
            let block = a.pow(d) * (1 << (d - 1)) * 2;
            if i < block {
                break;
            }
            i -= block;
            d += 1;
        }
        let start = if i % 2 == 0 { 1 } else { 6 };
        i /= 2;
        let gaps = i % (1 << (d - 1));
        i /= 1 << (d - 1);
        let mut ops = vec![Op::Process];
        for j in 0..d {
            ops.push(alpha[(i % a) as usize].clone());
            i /= a;
            if j + 1 < d && (gaps >> j) & 1 == 1 {
                ops.push(Op::Process);
            }
        }
        ops.push(Op::Process);
        classify(&ops, st);
        match run_history(&ops, start, None) {
            Ok(r) => {
                if r.recovered {
                    st.class("compared_after_a_failed_pass");
                }
                CaseResult::Pass { nontrivial: r.nontrivial.then(|| hash_str(&history_json(&ops, start, false).to_string())) }
            }
            Err(m) => CaseResult::Fail(Failure::new(m, history_json(&ops, start, false))),
        }
    });
    ctx.exhaustive.store(true, std::sync::atomic::Ordering::Relaxed);
    let n = ctx.tier.pick(4_000, 150_000);
    ctx.search("random", n, 64, |tape, st| {
        let mut t = Tape::new(tape);
        let (ops, start) = gen_history(&mut t, &alpha);
        classify(&ops, st);
        st.sample(|| history_json(&ops, start, false));
        match run_history(&ops, start, None) {
            Ok(r) => {
                if r.recovered {
                    st.class("compared_after_a_failed_pass");
                }
                CaseResult::Pass { nontrivial: r.nontrivial.then(|| hash_str(&history_json(&ops, start, false).to_string())) }
            }
            Err(m) => CaseResult::Fail(Failure::new(m, history_json(&ops, start, false))),
        }
    });
    // the same driver on a real directory (pruning of emptied folders, foreign files)
    let n_fs = ctx.tier.pick(300, 4_000);
    let work = ctx.verif_dir.join(".work/c10fs");
    let _ = std::fs::create_dir_all(&work);
    ctx.search("filesystem", n_fs, 64, |tape, st| {
        let mut t = Tape::new(tape);
        let (ops, start) = gen_history(&mut t, &alpha);
        let dir = match tempfile::tempdir_in(&work) {
            Ok(d) => d,
            Err(_) => return CaseResult::Discard("cannot create temp dir"),
        };
        st.class("filesystem_history");
        match run_history(&ops, start, Some(dir.path())) {
            Ok(r) => CaseResult::Pass { nontrivial: r.nontrivial.then(|| hash_str(&history_json(&ops, start, true).to_string())) },
            Err(m) => CaseResult::Fail(Failure::new(m, history_json(&ops, start, true))),
        }
    });
    let _ = std::fs::remove_dir_all(&work);
}

fn replay(v: &Value) -> Result<(), String> {
    let ops: Vec<Op> = v.get("ops").and_then(|o| o.as_array()).ok_or("malformed C10 replay")?.iter().filter_map(Op::from_json).collect();
    let start = v.get("start_config").and_then(|s| s.as_u64()).unwrap_or(1) as usize;
    let fs = v.get("fs").and_then(|s| s.as_bool()).unwrap_or(false);
    if fs {
        let work = PathBuf::from(std::env::var("VERIF_DIR").unwrap_or_else(|_| "/verif".into())).join(".work/c10fs-replay");
        let _ = std::fs::create_dir_all(&work);
        let dir = tempfile::tempdir_in(&work).map_err(|e| e.to_string())?;
        run_history(&ops, start, Some(dir.path())).map(|_| ())
    } else {
        run_history(&ops, start, None).map(|_| ())
    }
}
