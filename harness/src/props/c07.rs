//! C07 — each Luau-lowering rule removes every occurrence of its construct.

use crate::dl;
use crate::engine::*;
use crate::gen::progen::{gen_program, GenOpts};
use crate::gen::syngen::{gen_tree, SynOpts};
use crate::luaprint;
use crate::luasyn::census::{census, Census};
use crate::luasyn::lex::TokKind;
use crate::luasyn::{self, Mode};
use crate::props::c01::gen_name;
use crate::tape::Tape;
use serde_json::{json, Value};

pub fn def() -> PropDef {
    PropDef {
        id: "C07",
        rule: "Luau trees from `syngen` (every construct in every syntactic position: function bodies, table constructors, call arguments, conditions, generic-for headers, repeat conditions, nested in itself, inside type annotations and typeof(...)) and executable Luau programs from `progen`; each program under every one of the nine rules alone (remove_types, remove_compound_assignment, remove_continue, remove_if_expression, remove_interpolated_string (both strategies), remove_floor_division, convert_luau_number, make_assignment_local, remove_attribute) x a generator, and under all nine in random order. Oracle: the independent census (luasyn) of the output counts 0 occurrences of the rule's construct wherever nested; after all nine the output is accepted by the strict Lua 5.1 grammar of luasyn. Non-trivial = the input has >= 2 occurrences of the targeted construct; distinct by (program, rule).",
        assumptions: &["the census and the strict Lua 5.1 mode are the harness's own (luasyn)", "inputs darklua rejects are discarded (counted); Luau-only string escapes are not generated for the all-rules case (no rule targets them)"],
        run,
        replay,
        minimize: None,
    }
}

pub const RULES: [(&str, &str); 10] = [
    ("remove_types", "\"remove_types\""),
    ("remove_compound_assignment", "\"remove_compound_assignment\""),
    ("remove_continue", "\"remove_continue\""),
    ("remove_if_expression", "\"remove_if_expression\""),
    ("remove_interpolated_string", "\"remove_interpolated_string\""),
    ("remove_interpolated_string", "{ rule: \"remove_interpolated_string\", strategy: \"tostring\" }"),
    ("remove_floor_division", "\"remove_floor_division\""),
    ("convert_luau_number", "\"convert_luau_number\""),
    ("make_assignment_local", "\"make_assignment_local\""),
    ("remove_attribute", "\"remove_attribute\""),
];

fn count_for(rule: &str, c: &Census) -> usize {
    match rule {
        "remove_types" => c.type_annotations + c.typeof_types + c.casts + c.type_decls,
        "remove_compound_assignment" => c.compound_assign,
        "remove_continue" => c.continue_stmt,
        "remove_if_expression" => c.if_expr,
        "remove_interpolated_string" => c.interp_string,
        "remove_floor_division" => c.floor_div,
        "convert_luau_number" => c.luau_numbers,
        "make_assignment_local" => c.const_decl,
        "remove_attribute" => c.attributes,
        _ => 0,
    }
}

/// known finding "multiline-instantiation": a `<<...>>` instantiation whose `>>` ends on a later
/// line than the token before `<<`
pub fn has_multiline_instantiation(source: &str) -> bool {
    let Ok(p) = luasyn::parse::parse_with_options(source, Mode::Luau, luasyn::parse::ParseOptions { check_loop_context: false, check_vararg_context: false }) else {
        return false;
    };
    p.type_spans.iter().any(|(a, b)| source[*a..*b].starts_with('<') && source[*a + 1..*b].trim_start().starts_with('<') && source[*a..*b].contains('\n'))
}

fn relaxed(s: &str, mode: Mode) -> Result<luasyn::parse::ParseOutput, luasyn::SynError> {
    luasyn::parse::parse_with_options(s, mode, luasyn::parse::ParseOptions { check_loop_context: false, check_vararg_context: false })
}

/// Ok(Some(input occurrences)) = checked, Ok(None) = out of domain
fn check_single(source: &str, rule: &str, rule_json: &str, generator: &str) -> Result<Option<usize>, String> {
    let config = dl::config_text(&[rule_json.to_string()], generator);
    let input = relaxed(source, Mode::Luau).map_err(|e| format!("harness: input does not parse: {}", e.msg))?;
    let before = count_for(rule, &census(&input.block));
    let out = match dl::process_one(source, &config) {
        Ok(o) => o,
        Err(dl::DlError::Process(_)) => return Ok(None),
        Err(e) => return Err(format!("{}", e)),
    };
    let parsed = relaxed(&out, Mode::Luau).map_err(|e| format!("output of {} does not parse: {} (line {})\n--- output\n{}", rule, e.msg, e.line, out))?;
    let after = count_for(rule, &census(&parsed.block));
    if after != 0 {
        return Err(format!("{} left {} occurrence(s) of its construct (input had {})\n--- config\n{}\n--- source\n{}\n--- output\n{}", rule, after, before, config, source, out));
    }
    Ok(Some(before))
}

fn check_all(source: &str, order: &[usize], generator: &str) -> Result<Option<bool>, String> {
    let rules: Vec<String> = order.iter().map(|i| RULES[*i].1.to_string()).collect();
    let config = dl::config_text(&rules, generator);
    let out = match dl::process_one(source, &config) {
        Ok(o) => o,
        Err(dl::DlError::Process(_)) => return Ok(None),
        Err(e) => return Err(format!("{}", e)),
    };
    match relaxed(&out, Mode::Lua51) {
        Ok(_) => Ok(Some(true)),
        Err(e) => Err(format!(
            "after all lowering rules the output is not accepted by the strict Lua 5.1 grammar: {} (line {})\n--- config\n{}\n--- source\n{}\n--- output\n{}",
            e.msg, e.line, config, source, out
        )),
    }
}

/// the construct sits in a required module only: the entry is plain Lua 5.1 and the rules run on the
/// bundle (their context still describes the entry file)
fn check_all_bundled(module: &str, order: &[usize], generator: &str) -> Result<Option<bool>, String> {
    let rules: Vec<String> = order.iter().map(|i| RULES[*i].1.to_string()).collect();
    let config_text = dl::config_text(&rules, generator).replacen('{', "{ bundle: { require_mode: \"path\" },", 1);
    let config = dl::parse_config(&config_text).map_err(|e| format!("harness: configuration rejected: {}", e))?;
    // the generated tree becomes the body of a function of the module, which returns that function
    let module_text = format!("local function body(...)\n{}\nend\nreturn body\n", module);
    if relaxed(&module_text, Mode::Luau).is_err() {
        return Ok(None);
    }
    let files = vec![("src/main.lua".to_string(), "local m = require(\"./m\")\nreturn m\n".to_string()), ("src/m.lua".to_string(), module_text.clone())];
    let (resources, errs) = match dl::process_project(&files, "src/main.lua", "out/main.lua", config) {
        Ok(r) => r,
        Err(dl::DlError::Process(_)) => return Ok(None),
        Err(e) => return Err(format!("{}", e)),
    };
    if !errs.is_empty() {
        return Ok(None);
    }
    let out = resources.get("out/main.lua").map_err(|_| "no bundle written and no error reported".to_string())?;
    match relaxed(&out, Mode::Lua51) {
        Ok(_) => Ok(Some(true)),
        Err(e) => Err(format!(
            "after bundling and all lowering rules the output is not accepted by the strict Lua 5.1 grammar: {} (line {})\n--- config\n{}\n--- src/main.lua requires src/m.lua:\n{}\n--- output\n{}",
            e.msg, e.line, config_text, module_text, out
        )),
    }
}

fn gen_source(t: &mut Tape, all_rules: bool) -> String {
    let mut so = SynOpts::luau();
    if all_rules {
        so.luau_escapes = false;
    }
    let block = match t.weighted(&[7, 3]) {
        0 => gen_tree(t, &so).0,
        _ => gen_program(t, &GenOpts::luau()).block,
    };
    let block = crate::gen::context::maybe_wrap(block, t, true, 64).0;
    if t.bool(60) {
        let mut lo = luaprint::LayoutOpts::all(true);
        lo.trailing_newline = true;
        lo.respell_literals = !all_rules;
        luaprint::print_layout(&block, t, &lo)
    } else {
        luaprint::print_plain(&block)
    }
}

fn generator(t: &mut Tape) -> String {
    let (g, span) = gen_name(t);
    dl::generator_json(&g, span)
}

fn run(ctx: &RunCtx) {
    let n = ctx.tier.pick(20_000, 400_000);
    ctx.search("single_rule", n, 500, |tape, st| {
        let mut t = Tape::new(tape);
        let source = gen_source(&mut t, false);
        if relaxed(&source, Mode::Luau).is_err() {
            return CaseResult::Discard("harness: printed text does not parse (printer/parser gap)");
        }
        let g = generator(&mut t);
        let mut nontrivial = None;
        for (rule, rule_json) in RULES.iter() {
            match check_single(&source, rule, rule_json, &g) {
                Ok(None) => return CaseResult::Discard("darklua rejects the input"),
                Ok(Some(before)) => {
                    if before >= 1 {
                        st.class(rule);
                    }
                    if before >= 2 {
                        nontrivial = Some(hash_parts(&[source.as_bytes(), rule_json.as_bytes()]));
                    }
                }
                Err(m) => return CaseResult::Fail(Failure::new(m, json!({"kind": "single", "source": source, "rule": rule, "rule_json": rule_json, "generator": g}))),
            }
        }
        st.sample(|| json!({"source": source}));
        CaseResult::Pass { nontrivial }
    });
    let avoid_unicode = ctx.avoid("unicode-escape-not-lua51");
    let avoid_multi = ctx.avoid("multiline-instantiation");
    let n2 = ctx.tier.pick(20_000, 400_000);
    ctx.search("all_rules", n2, 500, |tape, st| {
        let mut t = Tape::new(tape);
        let source = gen_source(&mut t, true);
        let Ok(parsed) = relaxed(&source, Mode::Luau) else {
            return CaseResult::Discard("harness: printed text does not parse (printer/parser gap)");
        };
        let c = census(&parsed.block);
        // one entry per rule name (one interpolation strategy), random order
        let mut order: Vec<usize> = vec![0, 1, 2, 3, if t.bool(128) { 4 } else { 5 }, 6, 7, 8, 9];
        for i in (1..order.len()).rev() {
            let j = t.choose(i + 1);
            order.swap(i, j);
        }
        let g = generator(&mut t);
        if avoid_multi && g.contains("retain_lines") && has_multiline_instantiation(&source) {
            return CaseResult::Discard("avoided: known finding multiline-instantiation");
        }
        // retain_lines keeps original string tokens, but the format string that replaces an
        // interpolated string is a new literal and goes through the same writer
        let non_ascii_in_backticks = || {
            crate::luasyn::lex::lex(&source, Mode::Luau)
                .map(|l| l.tokens.iter().any(|t| matches!(t.kind, TokKind::InterpSimple | TokKind::InterpBegin | TokKind::InterpMid | TokKind::InterpEnd) && !t.text.is_ascii()))
                .unwrap_or(true)
        };
        if avoid_unicode && !source.is_ascii() && (!g.contains("retain_lines") || non_ascii_in_backticks()) {
            return CaseResult::Discard("avoided: known finding unicode-escape-not-lua51");
        }
        // one case in five goes through the bundler instead (the program as a required module)
        if t.bool(50) {
            return match check_all_bundled(&source, &order, &g) {
                Ok(None) => CaseResult::Discard("darklua rejects the project"),
                Ok(Some(_)) => {
                    st.class("all_rules_bundled_case");
                    CaseResult::Pass { nontrivial: Some(hash_str(&source)) }
                }
                Err(m) => CaseResult::Fail(Failure::new(m, json!({"kind": "all_bundled", "source": source, "order": order, "generator": g}))),
            };
        }
        match check_all(&source, &order, &g) {
            Ok(None) => CaseResult::Discard("darklua rejects the input"),
            Ok(Some(_)) => {
                st.class("all_rules_case");
                let kinds = [c.type_annotations, c.compound_assign, c.continue_stmt, c.if_expr, c.interp_string, c.floor_div, c.luau_numbers, c.const_decl, c.attributes].iter().filter(|x| **x > 0).count();
                CaseResult::Pass { nontrivial: (kinds >= 2).then(|| hash_str(&source)) }
            }
            Err(m) => CaseResult::Fail(Failure::new(m, json!({"kind": "all", "source": source, "order": order, "generator": g}))),
        }
    });
}

fn replay(v: &Value) -> Result<(), String> {
    let source = v.get("source").and_then(|s| s.as_str()).ok_or("malformed C07 replay")?;
    let g = v.get("generator").and_then(|s| s.as_str()).unwrap_or("\"retain_lines\"");
    match v.get("kind").and_then(|k| k.as_str()) {
        Some("single") => {
            let rule = v.get("rule").and_then(|s| s.as_str()).ok_or("malformed C07 replay")?;
            let rule_json = v.get("rule_json").and_then(|s| s.as_str()).ok_or("malformed C07 replay")?;
            check_single(source, rule, rule_json, g).map(|_| ())
        }
        Some("all_bundled") => {
            let order: Vec<usize> = v.get("order").and_then(|o| o.as_array()).ok_or("malformed C07 replay")?.iter().filter_map(|x| x.as_u64().map(|n| n as usize)).collect();
            check_all_bundled(source, &order, g).map(|_| ())
        }
        Some("all") => {
            let order: Vec<usize> = v.get("order").and_then(|o| o.as_array()).ok_or("malformed C07 replay")?.iter().filter_map(|x| x.as_u64().map(|n| n as usize)).collect();
            check_all(source, &order, g).map(|_| ())
        }
        _ => Err("malformed C07 replay".into()),
    }
}
