//! C18 — comment and whitespace rules never touch code.

use crate::dl;
use crate::engine::*;
use crate::gen::progen::{gen_program, GenOpts};
use crate::gen::syngen::{gen_tree, SynOpts};
use crate::luaprint::{self, LayoutOpts};
use crate::luasyn::lex::{lex, Comment, TokKind, Token};
use crate::luasyn::{self, Mode};
use crate::tape::Tape;
use serde_json::{json, Value};

pub fn def() -> PropDef {
    PropDef {
        id: "C18",
        rule: "files = generated trees (Lua 5.1 / Luau / typed) printed with comments of every kind in every trivia position, plus empty files, comment-only files, files ending in a line comment or without final newline; configurations: remove_comments with `except` regex sets (none / ^--! / TODO / .* / unanchored / several), remove_spaces, append_text_comment at start / end with generated texts, and the three combined; append texts are also enumerated exhaustively over the alphabet {[ ] = LF CR - a space e-acute} up to length 4 (quick) / 5 (thorough), and over the closer alphabet {] = LF x} for lengths 5 to 8 (quick) / 9 (thorough); random rule sets also assemble texts from bracket fragments of several levels. Oracle (independent lexer): code-token stream of output == input; remove_comments keeps exactly the comments matching an except pattern (same regex crate), in order; remove_spaces keeps every comment; append_text_comment adds exactly one comment, first / last in the file, containing the text verbatim, and with `end` no original token changes line; output parses. Non-trivial = >= 3 comments in the file, or an appended text containing a bracket / CR / LF; distinct by (file, configuration).",
        assumptions: &["the `regex` crate decides which comments an `except` pattern selects (trusted)", "generator = retain_lines (the rules act on tokens)"],
        run,
        replay,
        minimize: None,
    }
}

/// known finding "remove-spaces-merges-line-comments": a single line comment followed by another
/// single line comment with nothing but white space in between (a block comment after a line comment
/// is kept on its own line by the unchanged code and is not part of the finding)
pub fn has_line_comment_followed_by_comment(source: &str) -> bool {
    let Ok(l) = lex(source, Mode::Luau) else { return false };
    l.comments.windows(2).any(|w| !w[0].long && !w[1].long && source[w[0].end..w[1].start].chars().all(|c| c.is_whitespace()))
}

#[allow(dead_code)]
fn code_tokens(tokens: &[Token]) -> Vec<(TokKind, &str)> {
    tokens.iter().filter(|t| t.kind != TokKind::Eof).map(|t| (t.kind, t.text.as_str())).collect()
}

fn comment_texts(c: &[Comment]) -> Vec<&str> {
    c.iter().map(|c| c.text.as_str()).collect()
}

#[derive(Clone, Debug)]
pub struct Case {
    pub source: String,
    /// rules in order: ("remove_comments", except list) | ("remove_spaces") | ("append", text, location)
    pub rules: Vec<RuleSpec>,
}

#[derive(Clone, Debug, PartialEq)]
pub enum RuleSpec {
    RemoveComments(Vec<String>),
    RemoveSpaces,
    Append { text: String, end: bool },
}

impl RuleSpec {
    fn json(&self) -> Value {
        match self {
            RuleSpec::RemoveComments(e) => {
                if e.is_empty() {
                    json!("remove_comments")
                } else {
                    json!({"rule": "remove_comments", "except": e})
                }
            }
            RuleSpec::RemoveSpaces => json!("remove_spaces"),
            RuleSpec::Append { text, end } => json!({"rule": "append_text_comment", "text": text, "location": if *end { "end" } else { "start" }}),
        }
    }
    fn from_json(v: &Value) -> Option<RuleSpec> {
        if let Some(s) = v.as_str() {
            return match s {
                "remove_comments" => Some(RuleSpec::RemoveComments(vec![])),
                "remove_spaces" => Some(RuleSpec::RemoveSpaces),
                _ => None,
            };
        }
        match v.get("rule")?.as_str()? {
            "remove_comments" => Some(RuleSpec::RemoveComments(v.get("except")?.as_array()?.iter().filter_map(|x| x.as_str().map(|s| s.to_string())).collect())),
            "append_text_comment" => Some(RuleSpec::Append { text: v.get("text")?.as_str()?.to_string(), end: v.get("location")?.as_str()? == "end" }),
            _ => None,
        }
    }
}

fn case_json(c: &Case) -> Value {
    json!({"source": c.source, "rules": c.rules.iter().map(|r| r.json()).collect::<Vec<_>>()})
}

pub fn check(case: &Case) -> Result<(), String> {
    let config = json!({"rules": case.rules.iter().map(|r| r.json()).collect::<Vec<_>>()}).to_string();
    let input = lex(&case.source, Mode::Luau).map_err(|e| format!("harness: input does not lex: {}", e.msg))?;
    let out = match dl::process_one(&case.source, &config) {
        Ok(o) => o,
        Err(dl::DlError::Process(_)) => return Ok(()), // darklua rejects the input: out of domain
        Err(e) => return Err(format!("{}", e)),
    };
    let output = lex(&out, Mode::Luau).map_err(|e| format!("output does not lex: {} at line {}\n--- output\n{}", e.msg, e.line, out))?;
    // parentheses inside type syntax are re-derived by the generator even without any rule
    // (C03 tolerates exactly that), so they are not attributed to the comment rules
    let strip_type_parens = |text: &str, toks: &[Token]| -> Vec<Token> {
        let spans = luasyn::parse::parse_with_options(text, Mode::Luau, luasyn::parse::ParseOptions { check_loop_context: false, check_vararg_context: false })
            .map(|p| p.type_spans)
            .unwrap_or_default();
        toks.iter()
            .filter(|t| t.kind != TokKind::Eof)
            .filter(|t| !((t.text == "(" || t.text == ")") && spans.iter().any(|(a, b)| t.start >= *a && t.end <= *b)))
            .cloned()
            .collect()
    };
    let in_tokens = strip_type_parens(&case.source, &input.tokens);
    let out_tokens = strip_type_parens(&out, &output.tokens);
    let a: Vec<(TokKind, &str)> = in_tokens.iter().map(|t| (t.kind, t.text.as_str())).collect();
    let b: Vec<(TokKind, &str)> = out_tokens.iter().map(|t| (t.kind, t.text.as_str())).collect();
    if a != b {
        let i = a.iter().zip(b.iter()).position(|(x, y)| x != y).unwrap_or(a.len().min(b.len()));
        return Err(format!(
            "code tokens changed at token #{}: input {:?} / output {:?} ({} vs {} tokens)\n--- config\n{}\n--- output\n{}",
            i,
            a.get(i),
            b.get(i),
            a.len(),
            b.len(),
            config,
            out
        ));
    }
    if luasyn::parse::parse_with_options(&out, Mode::Luau, luasyn::parse::ParseOptions { check_loop_context: false, check_vararg_context: false }).is_err()
        && luasyn::parse::parse_with_options(&case.source, Mode::Luau, luasyn::parse::ParseOptions { check_loop_context: false, check_vararg_context: false }).is_ok()
    {
        return Err(format!("output does not parse\n--- config\n{}\n--- output\n{}", config, out));
    }
    // expected comments: apply the rules in order to the comment list
    let mut expected: Vec<String> = input.comments.iter().map(|c| c.text.clone()).collect();
    let mut appended_start: Vec<String> = vec![];
    let mut appended_end: Vec<String> = vec![];
    for r in &case.rules {
        match r {
            RuleSpec::RemoveComments(except) => {
                let res: Vec<regex::Regex> = except.iter().filter_map(|p| regex::Regex::new(p).ok()).collect();
                let keep = |t: &String| res.iter().any(|r| r.is_match(t));
                expected.retain(|t| keep(t));
                appended_start.retain(|t| keep(t));
                appended_end.retain(|t| keep(t));
            }
            RuleSpec::RemoveSpaces => {}
            RuleSpec::Append { text, end } => {
                if !text.is_empty() {
                    if *end {
                        appended_end.push(text.clone());
                    } else {
                        appended_start.insert(0, text.clone());
                    }
                }
            }
        }
    }
    let actual = comment_texts(&output.comments);
    let n_extra = appended_start.len() + appended_end.len();
    if actual.len() != expected.len() + n_extra {
        return Err(format!(
            "expected {} original comment(s) + {} appended, found {} comment(s) {:?}\n--- config\n{}\n--- source\n{}\n--- output\n{}",
            expected.len(),
            n_extra,
            actual.len(),
            actual,
            config,
            case.source,
            out
        ));
    }
    // original comments are kept in order; the remaining comments are the appended ones
    let mut extra: Vec<usize> = vec![];
    {
        let mut ei = 0;
        for (ai, c) in actual.iter().enumerate() {
            if ei < expected.len() && *c == expected[ei].as_str() {
                ei += 1;
            } else {
                extra.push(ai);
            }
        }
        if ei != expected.len() || extra.len() != n_extra {
            return Err(format!(
                "original comments were not kept in order: expected {:?} (+ {} appended), found {:?}\n--- config\n{}\n--- output\n{}",
                expected, n_extra, actual, config, out
            ));
        }
    }
    let first_code = output.tokens.iter().find(|t| t.kind != TokKind::Eof).map(|t| t.start);
    // a `;` closing the last statement may follow the appended comment
    let last_code = output.tokens.iter().rev().find(|t| t.kind != TokKind::Eof && t.text != ";").map(|t| t.start);
    let mut pending_start: Vec<&String> = appended_start.iter().collect();
    let mut pending_end: Vec<&String> = appended_end.iter().collect();
    for ai in extra {
        let c = &output.comments[ai];
        if let Some(pos) = pending_start.iter().position(|t| c.text.contains(t.as_str())) {
            if first_code.map(|f| c.start > f).unwrap_or(false) {
                return Err(format!("the comment appended at the start comes after code\n--- config\n{}\n--- output\n{}", config, out));
            }
            pending_start.remove(pos);
        } else if let Some(pos) = pending_end.iter().position(|t| c.text.contains(t.as_str())) {
            if last_code.map(|l| c.start < l).unwrap_or(false) {
                return Err(format!("the comment appended at the end comes before code\n--- config\n{}\n--- output\n{}", config, out));
            }
            pending_end.remove(pos);
        } else {
            return Err(format!(
                "extra comment {:?} does not contain any appended text verbatim (texts {:?} {:?})\n--- config\n{}\n--- source\n{}\n--- output\n{}",
                c.text, appended_start, appended_end, config, case.source, out
            ));
        }
    }
    // with only `end` appends (and no start append) no original token changes line
    let only_end = case.rules.iter().all(|r| matches!(r, RuleSpec::Append { end: true, .. })) && !case.rules.is_empty();
    if only_end {
        // lines are compared with the output of an empty rule list, so that only movements
        // caused by the rule itself are attributed to it
        let base = dl::process_one(&case.source, "{ rules: [] }").map_err(|e| format!("baseline run failed: {}", e))?;
        let base_lex = lex(&base, Mode::Luau).map_err(|e| format!("baseline output does not lex: {}", e.msg))?;
        let base_tokens = strip_type_parens(&base, &base_lex.tokens);
        for (x, y) in base_tokens.iter().zip(out_tokens.iter()) {
            if x.kind != TokKind::Eof && x.line != y.line {
                return Err(format!(
                    "append_text_comment at the end moved token {:?} from line {} to line {}\n--- config\n{}\n--- source\n{}\n--- output\n{}",
                    x.text, x.line, y.line, config, case.source, out
                ));
            }
        }
    }
    Ok(())
}

const EXCEPTS: [&[&str]; 7] = [&[], &["^--!"], &["TODO"], &[".*"], &["x"], &["^--\\[", "note"], &["nomatch_zzz"]];
const TEXTS: [&str; 22] = [
    "", "plain text", "!native", "[[x", "[=[x", "[x", "x]", "a]]b", "a]=]b", "line1\nline2", "a\rb", "a\r\nb", "-- dashes", "[[\n]]", "]]\n[[", "é à", "]", "[", "\n", "x\n", "]=", "a\n]=]\n]]",
];

/// the text between the delimiters of a comment (`--text`, `--[==[text]==]`)
fn comment_body(c: &str) -> &str {
    let rest = c.strip_prefix("--").unwrap_or(c);
    if let Some(r) = rest.strip_prefix('[') {
        let eq = r.bytes().take_while(|b| *b == b'=').count();
        if r[eq..].starts_with('[') {
            let inner = &r[eq + 1..];
            let close = format!("]{}]", "=".repeat(eq));
            return inner.strip_suffix(close.as_str()).unwrap_or(inner);
        }
    }
    rest
}

fn gen_source(t: &mut Tape) -> (String, usize) {
    match t.weighted(&[2, 8]) {
        0 => {
            let s = ["", "-- only a comment", "-- only\n--[[ comments ]]\n", "return 1 -- trailing without newline", "local x = 1", "--[==[ long ]==]local y = 2\n", "\n\n", "return"][t.choose(8)];
            (s.to_string(), 0)
        }
        _ => {
            let mode = t.weighted(&[3, 3, 2]);
            let (block, luau) = match mode {
                0 => (gen_tree(t, &SynOpts::lua51()).0, false),
                1 => (gen_tree(t, &SynOpts::luau()).0, true),
                _ => (gen_program(t, &GenOpts::luau()).block, true),
            };
            let mut lo = LayoutOpts::all(luau);
            lo.trailing_newline = t.bool(200);
            let (s, ls) = luaprint::print_layout_stats(&block, t, &lo);
            (s, ls.comments)
        }
    }
}

fn gen_rules(t: &mut Tape) -> Vec<RuleSpec> {
    let one = |t: &mut Tape| match t.weighted(&[4, 3, 4]) {
        0 => RuleSpec::RemoveComments(EXCEPTS[t.choose(EXCEPTS.len())].iter().map(|s| s.to_string()).collect()),
        1 => RuleSpec::RemoveSpaces,
        _ => {
            let text = if t.bool(96) {
                // assembled from bracket fragments: closers and openers of several levels next to each other
                const FRAGS: [&str; 14] = ["]", "]]", "]=]", "]==]", "=", "[", "[[", "[=[", "\n", "\r", "x", " ", "--", "é"];
                let k = 1 + t.choose(7);
                (0..k).map(|_| FRAGS[t.choose(FRAGS.len())]).collect::<String>()
            } else {
                TEXTS[t.choose(TEXTS.len())].to_string()
            };
            RuleSpec::Append { text, end: t.bool(128) }
        }
    };
    if t.bool(90) {
        // combination in random order
        let n = 2 + t.choose(2);
        let mut v: Vec<RuleSpec> = (0..n).map(|_| one(t)).collect();
        // whether an `except` pattern keeps an appended comment depends on the form darklua
        // chooses for it (`--text` or a long comment), which the property leaves open: appends
        // are therefore placed after every remove_comments that has exceptions
        if let Some(last_except) = v.iter().rposition(|r| matches!(r, RuleSpec::RemoveComments(e) if !e.is_empty())) {
            let (mut before, after): (Vec<RuleSpec>, Vec<RuleSpec>) = (v[..=last_except].to_vec(), v[last_except + 1..].to_vec());
            let moved: Vec<RuleSpec> = before.iter().filter(|r| matches!(r, RuleSpec::Append { .. })).cloned().collect();
            before.retain(|r| !matches!(r, RuleSpec::Append { .. }));
            before.extend(moved);
            before.extend(after);
            v = before;
        }
        v
    } else {
        vec![one(t)]
    }
}

fn run(ctx: &RunCtx) {
    let avoid_brackets = ctx.avoid("adjacent-closing-brackets");
    let avoid_ellipsis = ctx.avoid("pack-ellipsis-trivia");
    let avoid_merge = ctx.avoid("remove-spaces-merges-line-comments");
    let avoid_attr = ctx.avoid("append-start-after-attributes");
    // exhaustive append texts over a 9-symbol alphabet
    let alphabet = ["[", "]", "=", "\n", "\r", "-", "a", " ", "é"];
    let maxlen = ctx.tier.pick(4u32, 5u32);
    let mut total = 0u64;
    for l in 0..=maxlen {
        total += 9u64.pow(l);
    }
    let hosts = ["", "return 1 -- c", "local x = 1\nreturn x\n"];
    ctx.add_class("exhaustive_append_texts", total);
    ctx.enumerate("append_texts", total * 2 * hosts.len() as u64, |mut i, st| {
        let host = hosts[(i % hosts.len() as u64) as usize];
        i /= hosts.len() as u64;
        let end = i % 2 == 1;
        i /= 2;
        let mut l = 0u32;
        while i >= 9u64.pow(l) {
            i -= 9u64.pow(l);
            l += 1;
        }
        let mut text = String::new();
        for _ in 0..l {
            text.push_str(alphabet[(i % 9) as usize]);
            i /= 9;
        }
        let case = Case { source: host.to_string(), rules: vec![RuleSpec::Append { text: text.clone(), end }] };
        let nt = text.contains(['[', ']', '\n', '\r']);
        if nt {
            st.class("append_text_with_bracket_or_newline");
        }
        match check(&case) {
            Ok(()) => CaseResult::Pass { nontrivial: nt.then(|| hash_str(&case_json(&case).to_string())) },
            Err(m) => CaseResult::Fail(Failure::new(m, case_json(&case))),
        }
    });
    // long-bracket closers of several levels, overlapping or side by side, in texts that take the long
    // comment form: every text over {] = LF x} up to length 8 (quick) / 9 (thorough)
    let closers = ["]", "=", "\n", "x"];
    let cmax = ctx.tier.pick(8u32, 9u32);
    let mut ctotal = 0u64;
    for l in 5..=cmax {
        ctotal += 4u64.pow(l);
    }
    ctx.add_class("exhaustive_closer_texts", ctotal);
    ctx.enumerate("closer_texts", ctotal * 2, |mut i, st| {
        let end = i % 2 == 1;
        i /= 2;
        let mut l = 5u32;
        while i >= 4u64.pow(l) {
            i -= 4u64.pow(l);
            l += 1;
        }
        let mut text = String::new();
        for _ in 0..l {
            text.push_str(closers[(i % 4) as usize]);
            i /= 4;
        }
        let case = Case { source: "return 1 -- c".to_string(), rules: vec![RuleSpec::Append { text: text.clone(), end }] };
        let nt = text.contains('\n') && text.matches(']').count() >= 3;
        if nt {
            st.class("closer_text_multi_line_with_three_brackets");
        }
        match check(&case) {
            Ok(()) => CaseResult::Pass { nontrivial: nt.then(|| hash_str(&case_json(&case).to_string())) },
            Err(m) => CaseResult::Fail(Failure::new(m, case_json(&case))),
        }
    });
    ctx.exhaustive.store(true, std::sync::atomic::Ordering::Relaxed);
    let n = ctx.tier.pick(30_000, 600_000);
    ctx.search("files", n, 500, |tape, st| {
        let mut t = Tape::new(tape);
        let (source, comments) = gen_source(&mut t);
        let rules = gen_rules(&mut t);
        if avoid_brackets && crate::props::c03::has_adjacent_closing_brackets(&source) {
            return CaseResult::Discard("avoided: known finding adjacent-closing-brackets");
        }
        if let Ok(l) = lex(&source, Mode::Luau) {
            // an appended text equal to the body of a comment the file already has: the oracle cannot
            // tell which of the two identical comments is the appended one (harness limit, not a finding)
            let collides = rules.iter().any(|r| matches!(r, RuleSpec::Append { text, .. } if l.comments.iter().any(|c| comment_body(&c.text) == text.as_str())));
            if collides {
                return CaseResult::Discard("appended text equals the body of an existing comment");
            }
        }
        if avoid_ellipsis && crate::props::c03::has_comment_next_to_type_ellipsis(&source) {
            return CaseResult::Discard("avoided: known finding pack-ellipsis-trivia");
        }
        if avoid_attr && rules.iter().any(|r| matches!(r, RuleSpec::Append { end: false, .. })) && lex(&source, Mode::Luau).map(|l| l.tokens.first().map(|t| t.text.starts_with('@')).unwrap_or(false)).unwrap_or(false) {
            return CaseResult::Discard("avoided: known finding append-start-after-attributes");
        }
        if avoid_ellipsis && rules.iter().any(|r| matches!(r, RuleSpec::Append { end: true, .. })) {
            // the comment appended at the end is attached to the last token: when that token is the
            // `...` of a type pack it is dropped with the rest of that token's trivia
            if let Ok(p) = luasyn::parse::parse_with_options(&source, Mode::Luau, luasyn::parse::ParseOptions { check_loop_context: false, check_vararg_context: false }) {
                if let Some(last) = p.tokens.iter().rev().find(|t| t.kind != TokKind::Eof) {
                    if last.text == "..." && p.type_spans.iter().any(|(a, b)| last.start >= *a && last.end <= *b) {
                        return CaseResult::Discard("avoided: known finding pack-ellipsis-trivia");
                    }
                }
            }
        }
        let appends = rules.iter().any(|r| matches!(r, RuleSpec::Append { .. }));
        if avoid_merge && rules.contains(&RuleSpec::RemoveSpaces) && (appends || has_line_comment_followed_by_comment(&source)) {
            return CaseResult::Discard("avoided: known finding remove-spaces-merges-line-comments");
        }
        if !source.is_empty() && luasyn::parse::parse_with_options(&source, Mode::Luau, luasyn::parse::ParseOptions { check_loop_context: false, check_vararg_context: false }).is_err() {
            return CaseResult::Discard("harness: printed text does not parse (printer/parser gap)");
        }
        let case = Case { source, rules };
        for r in &case.rules {
            st.class(match r {
                RuleSpec::RemoveComments(e) if e.is_empty() => "remove_comments",
                RuleSpec::RemoveComments(_) => "remove_comments_except",
                RuleSpec::RemoveSpaces => "remove_spaces",
                RuleSpec::Append { end: true, .. } => "append_end",
                RuleSpec::Append { .. } => "append_start",
            });
        }
        st.class_n("comments", comments as u64);
        st.sample(|| case_json(&case));
        let nt = comments >= 3 || case.rules.iter().any(|r| matches!(r, RuleSpec::Append { text, .. } if text.contains(['[', ']', '\n', '\r'])));
        match check(&case) {
            Ok(()) => CaseResult::Pass { nontrivial: nt.then(|| hash_str(&case_json(&case).to_string())) },
            Err(m) => CaseResult::Fail(Failure::new(m, case_json(&case))),
        }
    });
}

fn replay(v: &Value) -> Result<(), String> {
    let source = v.get("source").and_then(|s| s.as_str()).ok_or("malformed C18 replay")?.to_string();
    let rules = v.get("rules").and_then(|r| r.as_array()).ok_or("malformed C18 replay")?.iter().filter_map(RuleSpec::from_json).collect();
    check(&Case { source, rules })
}
