//! C14 — data files convert to Lua values equal to the data.
//!
//! Documents are spelled by the harness's own writers (`gen::datagen`) from an abstract value.
//! Two observation paths yield Lua text: `darklua_core::convert_data` applied to the document
//! parsed exactly like `darklua convert` does (json5 / serde_yaml / toml), and bundling an entry
//! file that requires the data file.  The Lua text must parse with the independent parser, is
//! evaluated by the reference interpreter, and the value obtained is compared structurally
//! (unordered) with the abstract value.

use crate::dl;
use crate::engine::*;
use crate::gen::datagen::*;
use crate::luaref::{self, Dialect, Outcome};
use crate::luasyn::{self, Mode, TokKind};
use crate::tape::{tape_from_seed, Tape};
use serde_json::{json, Value};

pub fn def() -> PropDef {
    PropDef {
        id: "C14",
        rule: "abstract values (null, booleans, exact-decimal numbers incl. integers around 2^53/2^63/2^64, exponent forms, extremes, -0, inf/nan where the format has them; strings from a pool of escape-relevant pieces, long/multi-line strings and arbitrary scalar values; arrays; objects with identifier / keyword / empty / digits-first / quote / backslash / newline / non-ASCII / NUL keys, YAML integer and boolean keys; nesting <= 5) are spelled as JSON, JSON5, YAML and TOML by the harness's own writers with syntactic variety (escapes, quote styles, bare keys, comments, hex/octal, block and flow YAML, block scalars, TOML dotted keys / inline tables / table headers / arrays of tables / multi-line strings). Each document goes through (1) the crate parser `darklua convert` uses + darklua_core::convert_data and (2) a bundle of `return require(\"./data.<ext>\")` (generator drawn from dense/readable/retain_lines). The emitted Lua must parse (Lua 5.1 unless it uses \\u{..}, always Luau), is run by the reference interpreter and the result compared structurally, key order ignored, with the abstract value (arrays <-> t[1..n] skipping nulls, no other keys; objects <-> exactly the non-null keys; strings bytewise; numbers = correctly rounded double of the decimal spelling; NaN by class). Plus an enumeration: every key of the awkward/keyword lists and every code point U+0000..U+02FF (and selected others) as key and as string content, per format. Non-trivial = the document has a key that is not a Lua identifier, or a string with a byte that needs an escape, or a number that is not an integer of magnitude <= 1000.",
        assumptions: &[
            "the reference for decimal -> double is Rust's str::parse::<f64> (correctly rounded)",
            "an integer literal outside the 64-bit range may be rejected by the format parser (counted as a discard); when accepted it must convert correctly",
            "the sign of zero is only compared for spellings with a fraction or an exponent (integer types have no negative zero)",
            "YAML null/sequence keys, tags, anchors, YAML 1.1-only scalars (yes/no/on/off), TOML datetimes and duplicate keys are not generated",
            "Lua text containing \\u{...} escapes is accepted as Luau-only (same rule as C13)",
        ],
        run,
        replay,
        minimize: None,
    }
}

// ------------------------------------------------------------------------------ snapshot tree

#[derive(Clone, Debug, PartialEq)]
enum Snap {
    Nil,
    Bool(bool),
    Num(f64),
    Str(Vec<u8>),
    Table(Vec<(Snap, Snap)>),
    Other(String),
}

struct SnapParser<'a> {
    b: &'a [u8],
    i: usize,
}

impl<'a> SnapParser<'a> {
    fn eat(&mut self, s: &str) -> bool {
        if self.b[self.i..].starts_with(s.as_bytes()) {
            self.i += s.len();
            true
        } else {
            false
        }
    }
    fn value(&mut self) -> Result<Snap, String> {
        let Some(&c) = self.b.get(self.i) else { return Err("unexpected end of snapshot".into()) };
        match c {
            b'{' => {
                self.i += 1;
                let mut entries = vec![];
                loop {
                    if self.eat("}") {
                        break;
                    }
                    let k = self.value()?;
                    if !self.eat("=") {
                        return Err(format!("expected '=' at byte {} of the snapshot", self.i));
                    }
                    let v = self.value()?;
                    entries.push((k, v));
                    if self.eat(",") {
                        continue;
                    }
                    if self.eat("}") {
                        break;
                    }
                    return Err(format!("expected ',' or '}}' at byte {} of the snapshot", self.i));
                }
                if self.eat("@mt") {
                    return Ok(Snap::Other("table with a metatable".into()));
                }
                Ok(Snap::Table(entries))
            }
            b'"' => {
                self.i += 1;
                let mut out = vec![];
                loop {
                    let Some(&c) = self.b.get(self.i) else { return Err("unterminated string in snapshot".into()) };
                    self.i += 1;
                    match c {
                        b'"' => break,
                        b'\\' => {
                            let Some(&e) = self.b.get(self.i) else { return Err("bad escape in snapshot".into()) };
                            self.i += 1;
                            match e {
                                b'x' => {
                                    let h = std::str::from_utf8(self.b.get(self.i..self.i + 2).ok_or("bad \\x in snapshot")?).map_err(|e| e.to_string())?;
                                    out.push(u8::from_str_radix(h, 16).map_err(|e| e.to_string())?);
                                    self.i += 2;
                                }
                                other => out.push(other),
                            }
                        }
                        other => out.push(other),
                    }
                }
                Ok(Snap::Str(out))
            }
            b'<' => {
                let start = self.i;
                while self.i < self.b.len() && self.b[self.i] != b'>' {
                    self.i += 1;
                }
                self.i = (self.i + 1).min(self.b.len());
                Ok(Snap::Other(String::from_utf8_lossy(&self.b[start..self.i]).to_string()))
            }
            _ => {
                if self.eat("nil") {
                    return Ok(Snap::Nil);
                }
                if self.eat("true") {
                    return Ok(Snap::Bool(true));
                }
                if self.eat("false") {
                    return Ok(Snap::Bool(false));
                }
                if self.eat("nan") {
                    return Ok(Snap::Num(f64::NAN));
                }
                if self.eat("inf") {
                    return Ok(Snap::Num(f64::INFINITY));
                }
                if self.eat("-inf") {
                    return Ok(Snap::Num(f64::NEG_INFINITY));
                }
                let start = self.i;
                while self.i < self.b.len() && matches!(self.b[self.i], b'0'..=b'9' | b'.' | b'e' | b'+' | b'-') {
                    self.i += 1;
                }
                let text = std::str::from_utf8(&self.b[start..self.i]).map_err(|e| e.to_string())?;
                text.parse::<f64>().map(Snap::Num).map_err(|_| format!("cannot read snapshot at byte {}: {:?}", start, text))
            }
        }
    }
}

fn parse_snap(s: &str) -> Result<Snap, String> {
    let mut p = SnapParser { b: s.as_bytes(), i: 0 };
    let v = p.value()?;
    if p.i != s.len() {
        return Err(format!("trailing text in snapshot at byte {}", p.i));
    }
    Ok(v)
}

fn show_bytes(b: &[u8]) -> String {
    let mut s = String::from("\"");
    for &c in b.iter().take(200) {
        if (0x20..=0x7e).contains(&c) && c != b'"' && c != b'\\' {
            s.push(c as char);
        } else {
            s.push_str(&format!("\\x{:02X}", c));
        }
    }
    s.push('"');
    s
}

fn show_snap(s: &Snap) -> String {
    match s {
        Snap::Nil => "nil".into(),
        Snap::Bool(b) => b.to_string(),
        Snap::Num(n) => format!("number {:?}", n),
        Snap::Str(b) => format!("string {}", show_bytes(b)),
        Snap::Table(e) => format!("table with {} entries", e.len()),
        Snap::Other(o) => o.clone(),
    }
}

fn num_matches(n: &Num, got: f64) -> bool {
    let want = n.expected();
    if want.is_nan() {
        return got.is_nan();
    }
    if want == 0.0 && got == 0.0 {
        // sign of zero: only demanded for a negative zero that was spelled as a float
        return match n {
            Num::Dec { neg: true, float_only: true, .. } => got.is_sign_negative(),
            Num::Dec { neg: true, .. } => true,
            _ => got.is_sign_positive(),
        };
    }
    want == got
}

fn key_snap(k: &Key) -> Snap {
    match k {
        Key::Str(s) => Snap::Str(s.as_bytes().to_vec()),
        Key::Int(i) => Snap::Num(*i as f64),
        Key::Bool(b) => Snap::Bool(*b),
    }
}

fn snap_key_eq(a: &Snap, b: &Snap) -> bool {
    match (a, b) {
        (Snap::Num(x), Snap::Num(y)) => x == y,
        _ => a == b,
    }
}

/// does the Lua value `got` equal the abstract value `want`?
fn matches(want: &Val, got: &Snap, path: &str) -> Result<(), String> {
    match (want, got) {
        (Val::Null, Snap::Nil) => Ok(()),
        (Val::Bool(a), Snap::Bool(b)) if a == b => Ok(()),
        (Val::Num(n), Snap::Num(g)) => {
            if num_matches(n, *g) {
                Ok(())
            } else {
                Err(format!("at {}: expected the number {:?} ({:?}), the Lua value is {:?}", path, n.expected(), n, g))
            }
        }
        (Val::Str(s), Snap::Str(b)) => {
            if s.as_bytes() == b.as_slice() {
                Ok(())
            } else {
                Err(format!("at {}: expected the string {}, the Lua value is {}", path, show_bytes(s.as_bytes()), show_bytes(b)))
            }
        }
        (Val::Arr(items), Snap::Table(entries)) => {
            let expected: Vec<(Snap, &Val)> =
                items.iter().enumerate().filter(|(_, v)| !matches!(v, Val::Null)).map(|(i, v)| (Snap::Num((i + 1) as f64), v)).collect();
            table_matches(&expected, entries, path)
        }
        (Val::Obj(o), Snap::Table(entries)) => {
            let expected: Vec<(Snap, &Val)> = o.iter().filter(|(_, v)| !matches!(v, Val::Null)).map(|(k, v)| (key_snap(k), v)).collect();
            table_matches(&expected, entries, path)
        }
        (w, g) => Err(format!("at {}: expected {}, the Lua value is {}", path, describe_val(w), show_snap(g))),
    }
}

fn describe_val(v: &Val) -> String {
    match v {
        Val::Null => "nil".into(),
        Val::Bool(b) => b.to_string(),
        Val::Num(n) => format!("the number {:?}", n.expected()),
        Val::Str(s) => format!("the string {}", show_bytes(s.as_bytes())),
        Val::Arr(a) => format!("a sequence of {} elements", a.len()),
        Val::Obj(o) => format!("a table with {} keys", o.len()),
    }
}

fn table_matches(expected: &[(Snap, &Val)], entries: &[(Snap, Snap)], path: &str) -> Result<(), String> {
    for (k, v) in expected {
        let sub = format!("{}[{}]", path, show_snap(k));
        match entries.iter().find(|(ek, _)| snap_key_eq(ek, k)) {
            Some((_, ev)) => matches(v, ev, &sub)?,
            None => return Err(format!("at {}: the key is missing from the Lua table (expected {})", sub, describe_val(v))),
        }
    }
    for (ek, ev) in entries {
        if !expected.iter().any(|(k, _)| snap_key_eq(ek, k)) {
            return Err(format!("at {}: the Lua table has an unexpected key {} (value {})", path, show_snap(ek), show_snap(ev)));
        }
    }
    if entries.len() != expected.len() {
        return Err(format!("at {}: the Lua table has {} entries, expected {}", path, entries.len(), expected.len()));
    }
    Ok(())
}

// ------------------------------------------------------------------------------ observations

enum ConvErr {
    /// the format parser rejected the document
    Parse(String),
    Convert(String),
}

/// mirror of `darklua convert` (src/cli/convert.rs): same crate, same target type per format
fn convert_via_api(fmt: Fmt, text: &str) -> Result<String, ConvErr> {
    let r = catch(|| match fmt {
        Fmt::Json | Fmt::Json5 => match json5::from_str::<serde_json::Value>(text) {
            Ok(v) => darklua_core::convert_data(v).map_err(|e| ConvErr::Convert(e.to_string())),
            Err(e) => Err(ConvErr::Parse(e.to_string())),
        },
        Fmt::Yaml => match serde_yaml::from_str::<serde_yaml::Value>(text) {
            Ok(v) => darklua_core::convert_data(v).map_err(|e| ConvErr::Convert(e.to_string())),
            Err(e) => Err(ConvErr::Parse(e.to_string())),
        },
        Fmt::Toml => match toml::from_str::<toml::Value>(text) {
            Ok(v) => darklua_core::convert_data(v).map_err(|e| ConvErr::Convert(e.to_string())),
            Err(e) => Err(ConvErr::Parse(e.to_string())),
        },
    });
    match r {
        Ok(x) => x,
        Err(p) => Err(ConvErr::Convert(format!("PANIC {}", p))),
    }
}

pub static CLI_RUNS: std::sync::atomic::AtomicU64 = std::sync::atomic::AtomicU64::new(0);

/// the command-line binary built by ./check (DLV_DARKLUA_BIN), when it exists
fn cli_binary() -> Option<std::path::PathBuf> {
    let p = std::path::PathBuf::from(std::env::var("DLV_DARKLUA_BIN").ok()?);
    p.is_file().then_some(p)
}

/// one document out of N goes through the command
fn cli_sampling() -> u64 {
    std::env::var("DLV_CLI_SAMPLING").ok().and_then(|s| s.parse().ok()).unwrap_or(12).max(1)
}

fn convert_via_cli(bin: &std::path::Path, ext: &str, text: &str) -> Result<String, String> {
    let dir = tempfile::tempdir().map_err(|e| format!("harness: {}", e))?;
    let file = dir.path().join(format!("data.{}", ext));
    std::fs::write(&file, text).map_err(|e| format!("harness: {}", e))?;
    let out = std::process::Command::new(bin).arg("convert").arg(&file).output().map_err(|e| format!("harness: cannot run {}: {}", bin.display(), e))?;
    if !out.status.success() {
        return Err(format!("exit status {:?}: {}", out.status.code(), String::from_utf8_lossy(&out.stderr).chars().take(600).collect::<String>()));
    }
    String::from_utf8(out.stdout).map_err(|_| "the command printed text that is not UTF-8".to_string())
}

const GENERATORS: [&str; 3] = ["dense", "readable", "retain_lines"];

fn convert_via_bundle(ext: &str, text: &str, generator: &str) -> Result<String, String> {
    let config_text = format!("{{ rules: [], generator: \"{}\", bundle: {{ require_mode: \"path\" }} }}", generator);
    let config = dl::parse_config(&config_text).map_err(|e| format!("harness: configuration rejected: {}", e))?;
    let files = vec![
        ("src/main.lua".to_string(), format!("return require(\"./data.{}\")\n", ext)),
        (format!("src/data.{}", ext), text.to_string()),
    ];
    match dl::process_project(&files, "src/main.lua", "out/main.lua", config) {
        Err(e) => Err(format!("{}", e)),
        Ok((resources, errs)) => {
            if !errs.is_empty() {
                return Err(format!("errors: {}", errs.join(" | ")));
            }
            resources.get("out/main.lua").map_err(|_| "no bundle output written".to_string())
        }
    }
}

fn eval_cfg(d: Dialect) -> luaref::Config {
    luaref::Config { dialect: d, step_budget: 400_000, ..luaref::Config::default() }
}

fn run_one(text: &str, mode: Mode, dialect: Dialect) -> Result<Snap, String> {
    let p = luasyn::parse(text, mode).map_err(|e| format!("the emitted text does not parse as {:?}: {}", mode, e))?;
    match luaref::run(&p.block, &eval_cfg(dialect)) {
        Outcome::Done { ret, .. } => {
            if ret.len() != 1 {
                return Err(format!("the emitted chunk returned {} values under {:?}", ret.len(), dialect));
            }
            parse_snap(&ret[0]).map_err(|e| format!("harness: {} in {:?}", e, ret[0]))
        }
        Outcome::Error { class, .. } => Err(format!("running the emitted text under {:?} raised an error ({})", dialect, class)),
        Outcome::OutOfSteps { .. } => Err(format!("harness: step budget exhausted under {:?}", dialect)),
    }
}

/// parse + evaluate the emitted Lua and compare with the abstract value; Ok(true) = also
/// checked under Lua 5.1 rules
fn check_lua(lua: &str, want: &Val, try_lua51: bool) -> Result<bool, String> {
    let luau = luasyn::parse(lua, Mode::Luau).map_err(|e| format!("the emitted text does not parse: {}", e))?;
    let luau_only = luau.tokens.iter().any(|t| t.kind == TokKind::Str && luasyn::uses_luau_only_escape(&t.text));
    let got = run_one(lua, Mode::Luau, Dialect::Luau)?;
    matches(want, &got, "value").map_err(|e| format!("{} (Luau rules)", e))?;
    let lua51 = try_lua51 && !luau_only;
    if lua51 {
        let got = run_one(lua, Mode::Lua51, Dialect::Lua51)?;
        matches(want, &got, "value").map_err(|e| format!("{} (Lua 5.1 rules)", e))?;
    }
    Ok(lua51)
}

// ------------------------------------------------------------------------------ cases

#[derive(Clone, Debug)]
struct Case {
    fmt: Fmt,
    ext: String,
    generator: String,
    text: String,
    value: Val,
    wide_int_spelling: bool,
}

impl Case {
    fn to_json(&self) -> Value {
        json!({
            "format": self.fmt.name(),
            "ext": self.ext,
            "generator": self.generator,
            "text": self.text,
            "expected": self.value.to_json(),
            "wide_int_spelling": self.wide_int_spelling,
        })
    }
    fn from_json(v: &Value) -> Option<Case> {
        Some(Case {
            fmt: Fmt::from_name(v.get("format")?.as_str()?)?,
            ext: v.get("ext")?.as_str()?.to_string(),
            generator: v.get("generator")?.as_str()?.to_string(),
            text: v.get("text")?.as_str()?.to_string(),
            value: Val::from_json(v.get("expected")?)?,
            wide_int_spelling: v.get("wide_int_spelling").and_then(|b| b.as_bool()).unwrap_or(false),
        })
    }
}

fn pick_ext(t: &mut Tape, fmt: Fmt) -> &'static str {
    match fmt {
        Fmt::Json => "json",
        Fmt::Json5 => {
            if t.bool(128) {
                "json5"
            } else {
                "json"
            }
        }
        Fmt::Yaml => {
            if t.bool(128) {
                "yaml"
            } else {
                "yml"
            }
        }
        Fmt::Toml => "toml",
    }
}

enum Checked {
    Ok { lua51: u32 },
    Discard(&'static str),
}

fn check(case: &Case) -> Result<Checked, String> {
    let ctx_text = |lua: Option<&str>| -> String {
        format!(
            "--- {} document\n{}\n--- emitted Lua\n{}",
            case.fmt.name(),
            case.text,
            lua.map(|l| l.chars().take(4000).collect::<String>()).unwrap_or_else(|| "<none>".into())
        )
    };
    let mut lua51 = 0;
    // path 1: the library function behind `darklua convert`
    let lua = match convert_via_api(case.fmt, &case.text) {
        Ok(l) => l,
        Err(ConvErr::Parse(e)) => {
            if case.wide_int_spelling {
                return Ok(Checked::Discard("integer literal outside the 64-bit range rejected by the format parser"));
            }
            return Err(format!("convert: a valid document was rejected by the parser: {}\n{}", e, ctx_text(None)));
        }
        Err(ConvErr::Convert(e)) => return Err(format!("convert: convert_data failed: {}\n{}", e, ctx_text(None))),
    };
    match check_lua(&lua, &case.value, true) {
        Ok(b) => lua51 += b as u32,
        Err(e) => return Err(format!("convert: {}\n{}", e, ctx_text(Some(&lua)))),
    }
    // path 1b: the `darklua convert` command itself (the binary built from /repo's working tree by
    // ./check), on a sample of the documents: it must print exactly what the library path gives
    if let Some(bin) = cli_binary() {
        if hash_str(&case.text) % cli_sampling() == 0 {
            match convert_via_cli(&bin, &case.ext, &case.text) {
                Ok(out) => {
                    if out.trim_end_matches('\n') != lua.trim_end_matches('\n') {
                        return Err(format!(
                            "`darklua convert data.{}` prints something else than darklua_core::convert_data on the value read by the documented parser\n--- command output\n{}\n{}",
                            case.ext,
                            out.chars().take(2000).collect::<String>(),
                            ctx_text(Some(&lua))
                        ));
                    }
                    CLI_RUNS.fetch_add(1, std::sync::atomic::Ordering::Relaxed);
                }
                Err(e) => return Err(format!("`darklua convert data.{}` fails on a valid document: {}\n{}", case.ext, e, ctx_text(Some(&lua)))),
            }
        }
    }
    // path 2: a bundled require of the data file
    let bundled = match convert_via_bundle(&case.ext, &case.text, &case.generator) {
        Ok(b) => b,
        Err(e) => return Err(format!("bundle (data.{}, generator {}): bundling failed: {}\n{}", case.ext, case.generator, e, ctx_text(None))),
    };
    // a module whose value is nil is outside the claim (`require` of a nil-valued module)
    if !matches!(case.value, Val::Null) {
        // (the bundle wrapper itself is Luau: it carries type annotations)
        match check_lua(&bundled, &case.value, false) {
            Ok(b) => lua51 += b as u32,
            Err(e) => return Err(format!("bundle (data.{}, generator {}): {}\n{}", case.ext, case.generator, e, ctx_text(Some(&bundled)))),
        }
    } else if let Err(e) = luasyn::parse(&bundled, Mode::Luau) {
        return Err(format!("bundle (data.{}): the emitted text does not parse: {}\n{}", case.ext, e, ctx_text(Some(&bundled))));
    }
    Ok(Checked::Ok { lua51 })
}

fn record(case: &Case, info: Option<&DocInfo>, st: &mut Stats) -> Census {
    let mut c = Census::default();
    case.value.census(&mut c);
    st.class(&format!("format:{}", case.fmt.name()));
    st.class(&format!("ext:{}", case.ext));
    if let Some(info) = info {
        for f in &info.features {
            st.class(f);
        }
    }
    let mut flag = |name: &str, n: u64| {
        if n > 0 {
            st.class(name);
        }
    };
    flag("has:keyword-key", c.keyword_keys);
    flag("has:non-identifier-key", c.non_ident_keys);
    flag("has:key-needing-escape", c.escape_keys);
    flag("has:non-string-key", c.non_string_keys);
    flag("has:string-needing-escape", c.escape_strings);
    flag("has:long-string", c.long_strings);
    flag("has:number-not-small-int", c.hard_numbers);
    flag("has:integer>2^53", c.big_ints);
    flag("has:negative-zero", c.neg_zero);
    flag("has:non-finite", c.non_finite);
    flag("has:null", c.nulls);
    flag("has:null-in-array", c.arrays_with_null);
    flag("has:empty-container", c.empty_containers);
    c
}

fn finish(case: &Case, census: &Census, st: &mut Stats) -> CaseResult {
    match check(case) {
        Ok(Checked::Ok { lua51 }) => {
            st.class_n("evaluated-under-lua51-too", lua51 as u64);
            let nt = census.nontrivial();
            if nt {
                st.class("nontrivial");
            }
            CaseResult::Pass { nontrivial: nt.then(|| hash_parts(&[case.fmt.name().as_bytes(), case.text.as_bytes()])) }
        }
        Ok(Checked::Discard(why)) => CaseResult::Discard(why),
        Err(m) => CaseResult::Fail(Failure::new(m, case.to_json())),
    }
}

fn avoid_of(ctx: &RunCtx) -> Avoid {
    Avoid {
        json_non_finite: ctx.avoid("json5-non-finite"),
        wide_int_spelling: ctx.avoid("wide-int-spelling"),
        long_bracket_trailing_equals: ctx.avoid("long-bracket-trailing-equals"),
        ..Avoid::default()
    }
}

/// code points of the per-character enumeration
fn enum_chars() -> Vec<char> {
    let mut v: Vec<char> = (0u32..0x300).filter_map(char::from_u32).collect();
    for cp in [0x7ffu32, 0x800, 0x2028, 0x2029, 0xd7ff, 0xe000, 0xfeff, 0xfffd, 0xfffe, 0xffff, 0x10000, 0x1f600, 0x10ffff] {
        v.push(char::from_u32(cp).unwrap());
    }
    v
}

fn enum_keys() -> Vec<String> {
    let mut keys: Vec<String> = vec![];
    for k in LUA_KEYWORDS {
        keys.push(k.to_string());
    }
    for k in ["continue", "goto", "type", "export", "self", "typeof", "name", "path", "rule", "_", "_0", "a1", "A", "é", "aé"] {
        keys.push(k.to_string());
    }
    for k in crate::gen::datagen::awkward_keys() {
        keys.push(k.to_string());
    }
    keys
}

fn run(ctx: &RunCtx) {
    let avoid = avoid_of(ctx);
    if avoid.json_non_finite {
        ctx.add_class("avoid:json5-non-finite", 1);
    }
    if avoid.wide_int_spelling {
        ctx.add_class("avoid:wide-int-spelling", 1);
    }
    // samples for the evidence file: two documents per format
    for fmt in Fmt::ALL {
        for j in 0..2u64 {
            let tape = tape_from_seed(crate::tape::mix(ctx.seed, hash_str(fmt.name()), 1_000_000 + j), 700);
            let mut t = Tape::new(&tape);
            let doc = gen_doc(&mut t, fmt, &avoid);
            ctx.stats.lock().unwrap().samples.push(json!({"format": fmt.name(), "text": doc.text}));
        }
    }
    // 1. enumeration: every awkward key, every code point of the first planes, per format
    let chars = enum_chars();
    let keys = enum_keys();
    for fmt in Fmt::ALL {
        let n = (keys.len() + chars.len()) as u64;
        ctx.enumerate(&format!("enum-{}", fmt.name()), n, |i, st| {
            let i = i as usize;
            let value = if i < keys.len() {
                let k = &keys[i];
                Val::Obj(vec![
                    (Key::Str(k.clone()), Val::Num(Num::int(1))),
                    (Key::Str("nested".into()), Val::Obj(vec![(Key::Str(k.clone()), Val::Arr(vec![Val::Str(k.clone())]))])),
                ])
            } else {
                let c = chars[i - keys.len()];
                Val::Obj(vec![
                    (Key::Str(c.to_string()), Val::Str(format!("{}1", c))),
                    (Key::Str(format!("a{}", c)), Val::Arr(vec![Val::Str(c.to_string()), Val::Str(format!("x{}{}y", c, c))])),
                ])
            };
            let tape = tape_from_seed(crate::tape::mix(ctx.seed, hash_str(fmt.name()), i as u64), 400);
            let mut t = Tape::new(&tape);
            let (text, info) = write_doc(&mut t, &value, fmt, &avoid);
            let case = Case {
                fmt,
                ext: pick_ext(&mut t, fmt).to_string(),
                generator: (*t.pick(&GENERATORS)).to_string(),
                text,
                value,
                wide_int_spelling: info.wide_int_spelling,
            };
            st.class("phase:enumeration");
            let census = record(&case, Some(&info), st);
            finish(&case, &census, st)
        });
    }
    if avoid.long_bracket_trailing_equals {
        ctx.add_class("avoid:long-bracket-trailing-equals", 1);
    }
    // 2. random documents
    let cases = ctx.tier.pick(8_000, 400_000);
    for fmt in Fmt::ALL {
        ctx.search(&format!("docs-{}", fmt.name()), cases, 1000, |tape, st| {
            let mut t = Tape::new(tape);
            let doc = gen_doc(&mut t, fmt, &avoid);
            let case = Case {
                fmt,
                ext: pick_ext(&mut t, fmt).to_string(),
                generator: (*t.pick(&GENERATORS)).to_string(),
                text: doc.text,
                value: doc.value,
                wide_int_spelling: doc.info.wide_int_spelling,
            };
            st.class("phase:random");
            let census = record(&case, Some(&doc.info), st);
            finish(&case, &census, st)
        });
    }
    let n = avoid.long_bracket_applied.load(std::sync::atomic::Ordering::Relaxed);
    if n > 0 {
        ctx.add_class("avoid-applied:long-bracket-trailing-equals", n);
    }
    match cli_binary() {
        Some(bin) => {
            ctx.add_class("documents_also_converted_by_the_darklua_command", CLI_RUNS.load(std::sync::atomic::Ordering::Relaxed));
            ctx.note(format!("`darklua convert` was run from {} on one document out of {}", bin.display(), cli_sampling()));
        }
        None => ctx.note("the `darklua convert` command was not exercised: no binary at DLV_DARKLUA_BIN (./check builds it)"),
    }
}

fn replay(v: &Value) -> Result<(), String> {
    let case = Case::from_json(v).ok_or("malformed C14 replay file")?;
    check(&case).map(|_| ())
}
