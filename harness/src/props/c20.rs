//! C20 — file and rule filters select exactly the matching files.

use crate::dl;
use crate::engine::*;
use crate::model::glob::selected;
use crate::tape::Tape;
use darklua_core::{Options, Resources};
use serde_json::{json, Value};
use std::path::Path;

pub fn def() -> PropDef {
    PropDef {
        id: "C20",
        rule: "trees of <= 8 Lua files under src/ x pipelines of 2-4 visibly-acting rules, each with optional apply_to_files/skip_files (string or array) plus optional top-level filters; patterns are built by generalising real paths (literal, ?, *, **, {a,b}). Oracle: a model glob matcher decides per file and rule; expected output = darklua on that file alone with the filtered-out rules deleted and no filters; filtered-out files must be absent or identical copies. Non-trivial = some pattern list separates the files (matches one, not another) AND a filter sits on a rule that is not first.",
        assumptions: &[
            "model matcher covers the documented glob core only (literals ? * ** {a,b}); other wax features are not generated",
            "per-file reference runs use darklua itself without filters (metamorphic relation)",
        ],
        run,
        replay,
        minimize: None,
    }
}

const PATHS: [&str; 15] = [
    "src/a.lua",
    "src/b.luau",
    "src/sub/c.lua",
    "src/sub/deep/d.lua",
    "src/vendor/e.lua",
    "src/x.test.lua",
    "src/sub/g.test.luau",
    "src/sub/deep/more/h.luau",
    "src/ab.lua",
    "src/vendor/sub/c.lua",
    "src/with space/i.lua",
    "src/dot.dir/j.lua",
    // same names in another letter case: patterns are case sensitive
    "src/A.lua",
    "src/Sub/c.lua",
    "src/vendor/E.LUA.lua",
];

fn content(i: usize) -> String {
    // every rule of the pool visibly changes this text
    format!(
        "-- header comment {i}\nlocal longVariableName{i} = GA --[[ inline ]]\nlocal tbl = {{ field = GB }}\ndo end\nprint(longVariableName{i}, tbl[\"field\"], 1 + {i}) -- trailing\nreturn tbl\n"
    )
}

const RULES: [&str; 8] = [
    r#"{"rule":"inject_global_value","identifier":"GA","value":1}"#,
    r#"{"rule":"inject_global_value","identifier":"GB","value":"x"}"#,
    r#"{"rule":"remove_comments"}"#,
    r#"{"rule":"rename_variables"}"#,
    r#"{"rule":"append_text_comment","text":"appended"}"#,
    r#"{"rule":"compute_expression"}"#,
    r#"{"rule":"remove_empty_do"}"#,
    r#"{"rule":"convert_index_to_field"}"#,
];

fn gen_pattern(t: &mut Tape) -> String {
    let base = *t.pick(&PATHS);
    let comps: Vec<&str> = base.split('/').collect();
    let mut out: Vec<String> = vec![];
    // optionally replace a leading run by `**`
    let star_run = t.weighted(&[5, 2, 2]); // none / leading / middle
    let mut i = 0;
    if star_run == 1 {
        let k = 1 + t.choose(comps.len() - 1);
        out.push("**".into());
        i = k;
    }
    while i < comps.len() {
        let c = comps[i];
        if star_run == 2 && i == 1 {
            out.push("**".into());
            let k = t.choose(comps.len() - 1);
            i += k;
            if i >= comps.len() {
                break;
            }
            let c = comps[i];
            out.push(gen_segment(t, c));
            i += 1;
            continue;
        }
        out.push(gen_segment(t, c));
        i += 1;
    }
    if t.bool(30) {
        // trailing tree wildcard instead of the last component
        out.pop();
        out.push("**".into());
    }
    out.dedup_by(|a, b| a == "**" && b == "**");
    out.join("/")
}

fn gen_segment(t: &mut Tape, c: &str) -> String {
    match t.weighted(&[6, 3, 2, 2, 2, 1]) {
        0 => c.to_string(),
        1 => "*".to_string(),
        2 => {
            // keep the extension, wildcard the stem
            match c.rfind('.') {
                Some(p) => format!("*{}", &c[p..]),
                None => "*".into(),
            }
        }
        3 => {
            // keep the first char
            let mut s: String = c.chars().take(1).collect();
            s.push('*');
            s
        }
        4 => {
            // `?` for one char
            let n = c.chars().count();
            let k = t.choose(n);
            c.chars().enumerate().map(|(i, ch)| if i == k { '?' } else { ch }).collect()
        }
        _ => {
            let other = *t.pick(&["a.lua", "sub", "c.lua", "vendor", "b.luau", "deep"]);
            if t.bool(128) {
                format!("{{{},{}}}", c, other)
            } else {
                format!("{{{},{}}}", other, c)
            }
        }
    }
}

fn gen_filter_lists(t: &mut Tape) -> (Vec<String>, Vec<String>) {
    let mode = t.weighted(&[3, 3, 3, 3]); // none / apply / skip / both
    let mut apply = vec![];
    let mut skip = vec![];
    if mode == 1 || mode == 3 {
        for _ in 0..1 + t.choose(3) {
            apply.push(gen_pattern(t));
        }
    }
    if mode == 2 || mode == 3 {
        for _ in 0..1 + t.choose(2) {
            skip.push(gen_pattern(t));
        }
    }
    (apply, skip)
}

#[derive(Clone, Debug)]
struct RuleSpec {
    base: Value,
    apply: Vec<String>,
    skip: Vec<String>,
}

#[derive(Clone, Debug)]
struct Case {
    files: Vec<(String, String)>,
    top_apply: Vec<String>,
    top_skip: Vec<String>,
    rules: Vec<RuleSpec>,
    single_form: bool,
    in_place: bool,
    /// "" = not given (retain_lines), else a generator name
    generator: String,
    /// Some((spelling, normalized path)): the input is this single file, written in a
    /// non-normalized way (`./src/a.lua`, `src/./a.lua`, `src/x/../a.lua`), with an output file
    single: Option<(String, String)>,
    /// Some(path): the configuration is read from this file (patterns still match the path of the
    /// source as darklua sees it, wherever the configuration file sits); None: given as a value
    config_at: Option<String>,
    /// rotates the position of the filter keys inside the rule objects
    key_order: u8,
}

fn list_json(l: &[String], single_form: bool) -> Value {
    if l.len() == 1 && single_form {
        json!(l[0])
    } else {
        json!(l)
    }
}

impl Case {
    fn config_json(&self) -> String {
        // the members of a rule object in every order: filters before, after and around the rule's own
        // keys, `skip_files` before or after `apply_to_files` (the text is assembled by hand: the
        // JSON library would sort the keys)
        let mut rule_texts = vec![];
        for (i, r) in self.rules.iter().enumerate() {
            let own = r.base.to_string();
            let mut members: Vec<String> = vec![own.trim_start_matches('{').trim_end_matches('}').to_string()];
            let apply = (!r.apply.is_empty()).then(|| format!("\"apply_to_files\":{}", list_json(&r.apply, self.single_form)));
            let skip = (!r.skip.is_empty()).then(|| format!("\"skip_files\":{}", list_json(&r.skip, self.single_form)));
            match (self.key_order as usize + i) % 4 {
                0 => {
                    members.extend(apply);
                    members.extend(skip);
                }
                1 => {
                    let mut front: Vec<String> = skip.into_iter().chain(apply).collect();
                    front.append(&mut members);
                    members = front;
                }
                2 => {
                    let mut front: Vec<String> = apply.into_iter().collect();
                    front.append(&mut members);
                    members = front;
                    members.extend(skip);
                }
                _ => {
                    let mut front: Vec<String> = skip.into_iter().collect();
                    front.append(&mut members);
                    members = front;
                    members.extend(apply);
                }
            }
            rule_texts.push(format!("{{{}}}", members.into_iter().filter(|m| !m.is_empty()).collect::<Vec<_>>().join(",")));
        }
        let mut c = json!({ "rules": "@RULES@" });
        if !self.generator.is_empty() {
            c["generator"] = json!(self.generator);
        }
        if !self.top_apply.is_empty() {
            c["apply_to_files"] = list_json(&self.top_apply, self.single_form);
        }
        if !self.top_skip.is_empty() {
            c["skip_files"] = list_json(&self.top_skip, self.single_form);
        }
        c.to_string().replace("\"@RULES@\"", &format!("[{}]", rule_texts.join(",")))
    }
    fn to_json(&self) -> Value {
        json!({
            "files": self.files,
            "config": self.config_json(),
            "top_apply": self.top_apply, "top_skip": self.top_skip,
            "rules": self.rules.iter().map(|r| json!({"base": r.base, "apply": r.apply, "skip": r.skip})).collect::<Vec<_>>(),
            "single_form": self.single_form,
            "in_place": self.in_place,
            "generator": self.generator,
            "single": self.single.as_ref().map(|(a, b)| json!([a, b])),
            "config_at": self.config_at,
            "key_order": self.key_order,
        })
    }
    fn from_json(v: &Value) -> Option<Case> {
        let strs = |x: &Value| -> Vec<String> {
            x.as_array().map(|a| a.iter().filter_map(|s| s.as_str().map(|s| s.to_string())).collect()).unwrap_or_default()
        };
        Some(Case {
            files: v.get("files")?.as_array()?.iter().filter_map(|p| Some((p.get(0)?.as_str()?.to_string(), p.get(1)?.as_str()?.to_string()))).collect(),
            top_apply: strs(v.get("top_apply")?),
            top_skip: strs(v.get("top_skip")?),
            rules: v.get("rules")?.as_array()?.iter().map(|r| RuleSpec { base: r["base"].clone(), apply: strs(&r["apply"]), skip: strs(&r["skip"]) }).collect(),
            single_form: v.get("single_form")?.as_bool()?,
            in_place: v.get("in_place").and_then(|b| b.as_bool()).unwrap_or(false),
            generator: v.get("generator").and_then(|g| g.as_str()).unwrap_or("").to_string(),
            single: v.get("single").and_then(|s| s.as_array()).and_then(|a| Some((a.first()?.as_str()?.to_string(), a.get(1)?.as_str()?.to_string()))),
            config_at: v.get("config_at").and_then(|s| s.as_str()).map(|s| s.to_string()),
            key_order: v.get("key_order").and_then(|k| k.as_u64()).unwrap_or(0) as u8,
        })
    }
}

fn gen_case(t: &mut Tape) -> Case {
    let n = 3 + t.choose(6);
    let mut idx: Vec<usize> = vec![];
    while idx.len() < n {
        let k = t.choose(PATHS.len());
        let mut k2 = k;
        while idx.contains(&k2) {
            k2 = (k2 + 1) % PATHS.len();
        }
        idx.push(k2);
    }
    idx.sort();
    let files = idx.iter().map(|i| (PATHS[*i].to_string(), content(*i))).collect();
    let nr = 2 + t.choose(3);
    let mut rules = vec![];
    let mut used = vec![];
    for _ in 0..nr {
        let mut k = t.choose(RULES.len());
        while used.contains(&k) {
            k = (k + 1) % RULES.len();
        }
        used.push(k);
        let (apply, skip) = gen_filter_lists(t);
        rules.push(RuleSpec { base: serde_json::from_str(RULES[k]).unwrap(), apply, skip });
    }
    let (top_apply, top_skip) = if t.bool(110) { gen_filter_lists(t) } else { (vec![], vec![]) };
    let files: Vec<(String, String)> = files;
    let generator = ["", "", "retain_lines", "dense", "readable"][t.choose(5)].to_string();
    let in_place = t.bool(60);
    let single = if !in_place && t.bool(40) {
        let (p, _) = &files[t.choose(files.len())];
        let (dir, name) = p.rsplit_once('/').unwrap_or(("", p));
        let spelled = match t.choose(4) {
            0 => format!("./{}", p),
            1 => format!("{}/./{}", dir, name),
            2 => format!("{}/zz/../{}", dir, name),
            _ => format!("./{}/./{}", dir, name),
        };
        Some((spelled, p.clone()))
    } else {
        None
    };
    let single_form = t.bool(128);
    let config_at = match t.choose(8) {
        0 => Some(".darklua.json".to_string()),
        1 => Some("src/.darklua.json".to_string()),
        2 => Some("src/sub/conf.json5".to_string()),
        3 => Some("conf/settings.json".to_string()),
        _ => None,
    };
    let key_order = t.choose(4) as u8;
    Case { files, top_apply, top_skip, rules, single_form, in_place, generator, single, config_at, key_order }
}

fn check(case: &Case) -> Result<bool, String> {
    let config_text = case.config_json();
    let config = dl::parse_config(&config_text).map_err(|e| format!("valid configuration rejected: {}\n{}", e, config_text))?;
    let resources = Resources::from_memory();
    for (p, c) in &case.files {
        resources.write(p, c).unwrap();
    }
    if let Some(at) = &case.config_at {
        resources.write(at, &config_text).unwrap();
    }
    let r = catch(|| {
        let options = match &case.single {
            Some((spelled, _)) => Options::new(Path::new(spelled)),
            None => Options::new(Path::new("src")),
        };
        let mut options = match &case.config_at {
            Some(at) => options.with_configuration_at(Path::new(at)),
            None => options.with_configuration(config),
        };
        if case.single.is_some() {
            options = options.with_output(Path::new("out/one.lua"));
        } else if !case.in_place {
            options = options.with_output(Path::new("out"));
        }
        darklua_core::process(&resources, options)
    });
    let tree = match r {
        Err(p) => return Err(format!("panic: {}", p)),
        Ok(Err(e)) => return Err(format!("process failed: {}", e)),
        Ok(Ok(t)) => t,
    };
    let errs = tree.collect_errors();
    if !errs.is_empty() {
        return Err(format!("unexpected errors: {:?}", errs.iter().map(|e| e.to_string()).collect::<Vec<_>>()));
    }
    let mut separates = false;
    let mut lists: Vec<(&[String], &[String])> = vec![(&case.top_apply, &case.top_skip)];
    for r in &case.rules {
        lists.push((&r.apply, &r.skip));
    }
    for (a, s) in &lists {
        if a.is_empty() && s.is_empty() {
            continue;
        }
        let m: Vec<bool> = case.files.iter().map(|(p, _)| selected(a, s, p)).collect();
        if m.iter().any(|x| *x) && m.iter().any(|x| !*x) {
            separates = true;
        }
    }
    let later_filter = case.rules.iter().skip(1).any(|r| !r.apply.is_empty() || !r.skip.is_empty());
    for (p, c) in &case.files {
        if let Some((_, only)) = &case.single {
            if only != p {
                continue;
            }
        }
        let out_path = if case.single.is_some() {
            "out/one.lua".to_string()
        } else if case.in_place {
            p.clone()
        } else {
            format!("out/{}", &p["src/".len()..])
        };
        let actual = resources.get(&out_path).ok();
        if !case.in_place {
            // inputs are never modified
            if resources.get(p).ok().as_deref() != Some(c.as_str()) {
                return Err(format!("input {} was modified although an output folder was given", p));
            }
        }
        if !selected(&case.top_apply, &case.top_skip, p) {
            match actual {
                None => {}
                Some(a) if a == *c => {}
                Some(a) => {
                    return Err(format!(
                        "file {} is filtered out by the top-level filters (apply={:?} skip={:?}) but was transformed:\n--- source\n{}\n--- output\n{}",
                        p, case.top_apply, case.top_skip, c, a
                    ))
                }
            }
            continue;
        }
        let reduced: Vec<String> = case.rules.iter().filter(|r| selected(&r.apply, &r.skip, p)).map(|r| r.base.to_string()).collect();
        let ref_cfg = if case.generator.is_empty() {
            format!("{{\"rules\":[{}]}}", reduced.join(","))
        } else {
            format!("{{\"rules\":[{}],\"generator\":\"{}\"}}", reduced.join(","), case.generator)
        };
        let expected = dl::process_one_named(c, &ref_cfg, p).map_err(|e| format!("reference run failed for {}: {}", p, e))?;
        match actual {
            None => return Err(format!("file {} matches the top-level filters but no output was written", p)),
            Some(a) if a == expected => {}
            Some(a) => {
                let which: Vec<String> = case
                    .rules
                    .iter()
                    .map(|r| format!("{} apply={:?} skip={:?} -> model says {}", r.base["rule"], r.apply, r.skip, selected(&r.apply, &r.skip, p)))
                    .collect();
                return Err(format!(
                    "file {}: output differs from the pipeline with filtered-out rules deleted\n{}\n--- expected\n{}\n--- actual\n{}",
                    p,
                    which.join("\n"),
                    expected,
                    a
                ));
            }
        }
    }
    // nothing else appears under out/
    if !case.in_place && case.single.is_none() {
        for w in resources.walk("out") {
            let w = w.to_string_lossy().replace('\\', "/");
            let rel = w.trim_start_matches("out/");
            if !case.files.iter().any(|(p, _)| &p["src/".len()..] == rel) {
                return Err(format!("unexpected file in output: {}", w));
            }
        }
    }
    Ok(separates && later_filter)
}

fn run(ctx: &RunCtx) {
    let cases = ctx.tier.pick(9_000, 450_000);
    ctx.search("filters", cases, 160, |tape, st| {
        let mut t = Tape::new(tape);
        let case = gen_case(&mut t);
        if !case.top_apply.is_empty() || !case.top_skip.is_empty() {
            st.class("top_level_filter");
        }
        if case.in_place {
            st.class("in_place");
        }
        st.class_n("rule_filters", case.rules.iter().filter(|r| !r.apply.is_empty() || !r.skip.is_empty()).count() as u64);
        st.sample(|| json!({"config": case.config_json(), "files": case.files.iter().map(|f| f.0.clone()).collect::<Vec<_>>()}));
        match check(&case) {
            Ok(nt) => {
                if nt {
                    st.class("nontrivial");
                }
                CaseResult::Pass { nontrivial: nt.then(|| hash_str(&case.to_json().to_string())) }
            }
            Err(m) => CaseResult::Fail(Failure::new(m, case.to_json())),
        }
    });
}

fn replay(v: &Value) -> Result<(), String> {
    let case = Case::from_json(v).ok_or("malformed C20 replay file")?;
    check(&case).map(|_| ())
}
