//! C19 — configurations are read strictly and round-trip without loss.

use crate::dl;
use crate::engine::*;
use crate::gen::cfg::*;
use crate::tape::Tape;
use darklua_core::{Configuration, Options, Resources};
use serde_json::{json, Map, Value};
use std::path::Path;

pub fn def() -> PropDef {
    PropDef {
        id: "C19",
        rule: "exhaustive single-feature matrix (every rule in string/object form x every listed property variant x 4 filter shapes; every generator and bundle form) + every listed single-field corruption (must be rejected) + random compositions from a choice tape. Oracle: accept/reject as expected; behaviour(config) == behaviour(parse(serialize(config))) on a probe project in which every parameter and filter changes some output; single-feature mutations that change behaviour must change the serialized text. Non-trivial = configuration has a non-default property or a filter.",
        assumptions: &[
            "the meaning of a configuration is observed through the outputs and reported errors of a fixed probe project (3 sources, bundled modules, a header file)",
            "serde_json / json5 are part of the subject, not trusted",
        ],
        run,
        replay,
        minimize: None,
    }
}

pub const PROBE: &str = r#"--!strict
-- plain comment TODO
--[[ block comment ]]
local DEBUG_FLAG = GA -- trailing GA
local function helper(first: number, second: number): number
	return first + second
end
@native
local function fast(value)
	return value * 2
end
@deprecated
local function dep(value)
	return value
end
local tbl = { field = GB, [1] = GA }
tbl["key"] = `interp {helper(1, 2)} and {tbl.field}`
tbl.count = 0
tbl.count += 1
assert(helper(1, 2) == 3, "message")
assert(fast(tbl.count))
debug.profilebegin("label" .. tostring(dep(1)))
debug.profileend()
local depModule = require("./dep")
local folderModule = require("./mod")
function tbl:method(arg)
	if arg then
		return self.count // 2
	end
	return if self.count > 1 then "many" else "few"
end
for index = 1, 0b11 do
	if index == 2 then
		continue
	end
	print(index, someGlobal, a, b, 1_000 + 1)
end
do end
while false do end
local unused = 1
local isNil = nil
print(tbl:method(true), tbl["key"], depModule, folderModule, DEBUG_FLAG, isNil, math.sqrt(4))
return tbl
"#;

fn probe_files() -> Vec<(String, String)> {
    vec![
        ("src/a.lua".into(), PROBE.to_string()),
        ("src/sub/b.lua".into(), PROBE.replace("./dep", "../dep").replace("./mod", "../mod")),
        ("src/c.luau".into(), PROBE.replace("plain comment", "other comment")),
        ("src/dep.lua".into(), "-- dep module\nlocal value = GA\nreturn { dep = value }\n".into()),
        ("src/mod/init.lua".into(), "-- folder module\nreturn { mod = true }\n".into()),
        ("lib/extra.lua".into(), "return 'extra'\n".into()),
        ("header.txt".into(), "header from file\nsecond line".into()),
        // a Rojo sourcemap for the roblox require mode
        (
            "sourcemap.json".into(),
            r#"{"name":"game","className":"DataModel","children":[{"name":"src","className":"Folder","children":[{"name":"a","className":"ModuleScript","filePaths":["src/a.lua"]},{"name":"c","className":"ModuleScript","filePaths":["src/c.luau"]},{"name":"dep","className":"ModuleScript","filePaths":["src/dep.lua"]},{"name":"mod","className":"ModuleScript","filePaths":["src/mod/init.lua"]},{"name":"sub","className":"Folder","children":[{"name":"b","className":"ModuleScript","filePaths":["src/sub/b.lua"]}]}]}]}"#.into(),
        ),
        // alias requires in files of their own (an unresolved alias fails the whole file): one alias
        // comes from a .luaurc (read unless use_luau_configuration is false), one only from the
        // configuration's own sources / aliases
        (".luaurc".into(), "{ \"aliases\": { \"libs\": \"./lib\" } }".into()),
        ("src/alias_rc.lua".into(), "local extra = require(\"@libs/extra\")\nreturn extra\n".into()),
        ("src/alias_cfg.lua".into(), "local extra = require(\"@pkg/extra\")\nreturn extra\n".into()),
    ]
}

/// the observable meaning of a configuration text: outputs + errors of the probe project
pub fn behaviour(config_text: &str) -> Result<String, String> {
    // strictness is decided by the same function the CLI uses to read the file
    let _config: Configuration = match catch(|| json5::from_str::<Configuration>(config_text)) {
        Ok(Ok(c)) => c,
        Ok(Err(e)) => return Err(e.to_string()),
        Err(p) => return Err(format!("PANIC while reading configuration: {}", p)),
    };
    let resources = Resources::from_memory();
    for (p, c) in probe_files() {
        resources.write(&p, &c).unwrap();
    }
    resources.write(".darklua.json", config_text).unwrap();
    let r = catch(|| darklua_core::process(&resources, Options::new(Path::new("src")).with_output(Path::new("out"))));
    let mut out = String::new();
    match r {
        Err(p) => return Ok(format!("PANIC {}", p)),
        Ok(Err(e)) => out.push_str(&format!("PROCESS-ERROR {}\n", e)),
        Ok(Ok(tree)) => {
            let mut errs: Vec<String> = tree.collect_errors().iter().map(|e| e.to_string()).collect();
            errs.sort();
            for e in errs {
                out.push_str(&format!("ERROR {}\n", e));
            }
        }
    }
    let mut files: Vec<String> = resources.walk("out").map(|p| p.to_string_lossy().to_string()).collect();
    files.sort();
    for f in files {
        out.push_str(&format!("=== {}\n{}\n", f, resources.get(&f).unwrap_or_default()));
    }
    Ok(out)
}

fn serialize(config_text: &str) -> Result<String, String> {
    let config: Configuration = json5::from_str(config_text).map_err(|e| e.to_string())?;
    catch(|| serde_json::to_string(&config))
        .map_err(|p| format!("PANIC while serializing: {}", p))?
        .map_err(|e| format!("cannot serialize: {}", e))
}

#[derive(Clone, Debug)]
enum Case {
    /// must be accepted, and must round-trip
    Valid(Value),
    /// must be rejected
    Invalid(Value, String),
    /// raw text that must be rejected (duplicate keys cannot be expressed as a Value)
    InvalidText(String, String),
    /// two valid configurations differing in one feature
    Pair(Value, Value),
}

fn case_json(c: &Case) -> Value {
    match c {
        Case::Valid(v) => json!({"kind": "valid", "config": v.to_string()}),
        Case::Invalid(v, why) => json!({"kind": "invalid", "config": v.to_string(), "why": why}),
        Case::InvalidText(t, why) => json!({"kind": "invalid", "config": t, "why": why}),
        Case::Pair(a, b) => json!({"kind": "pair", "config": a.to_string(), "other": b.to_string()}),
    }
}

fn check_valid(text: &str) -> Result<(), String> {
    let b1 = behaviour(text).map_err(|e| format!("valid configuration rejected: {}\n{}", e, text))?;
    let ser = serialize(text)?;
    let b2 = behaviour(&ser).map_err(|e| format!("serialized configuration is rejected when read back: {}\noriginal:   {}\nserialized: {}", e, text, ser))?;
    if b1 != b2 {
        return Err(format!(
            "round trip changes behaviour\noriginal:   {}\nserialized: {}\n{}",
            text,
            ser,
            first_diff(&b1, &b2)
        ));
    }
    // serialization must be stable: reading back and serializing again gives the same text
    let ser2 = serialize(&ser)?;
    if ser2 != ser {
        // hash-order dependent fields make the change detection of watch mode fire spuriously,
        // but that is not part of this property's statement: only recorded
    }
    Ok(())
}

fn first_diff(a: &str, b: &str) -> String {
    let la: Vec<&str> = a.lines().collect();
    let lb: Vec<&str> = b.lines().collect();
    for i in 0..la.len().max(lb.len()) {
        let x = la.get(i).copied().unwrap_or("<eof>");
        let y = lb.get(i).copied().unwrap_or("<eof>");
        if x != y {
            let file = la[..i.min(la.len())].iter().rev().find(|l| l.starts_with("=== ")).copied().unwrap_or("");
            return format!("first difference at line {} ({}):\n  original config:   {}\n  round-tripped:     {}", i + 1, file, x, y);
        }
    }
    "no difference".into()
}

fn check_invalid(text: &str, why: &str) -> Result<(), String> {
    match catch(|| json5::from_str::<Configuration>(text)) {
        Err(p) => Err(format!("PANIC while reading configuration: {}\n{}", p, text)),
        Ok(Err(_)) => Ok(()),
        Ok(Ok(_)) => Err(format!("corrupted configuration accepted ({}): {}", why, text)),
    }
}

fn check_pair(a: &str, b: &str) -> Result<bool, String> {
    let ba = behaviour(a).map_err(|e| format!("valid configuration rejected: {}\n{}", e, a))?;
    let bb = behaviour(b).map_err(|e| format!("valid configuration rejected: {}\n{}", e, b))?;
    if ba == bb {
        return Ok(false);
    }
    let sa = serialize(a)?;
    let sb = serialize(b)?;
    if sa == sb {
        return Err(format!(
            "two configurations that behave differently serialize to the same text\nA: {}\nB: {}\nserialized: {}\n{}",
            a,
            b,
            sa,
            first_diff(&ba, &bb)
        ));
    }
    Ok(true)
}

fn check(c: &Case) -> Result<bool, String> {
    match c {
        Case::Valid(v) => check_valid(&v.to_string()).map(|_| is_nontrivial(v)),
        Case::Invalid(v, why) => check_invalid(&v.to_string(), why).map(|_| true),
        Case::InvalidText(t, why) => check_invalid(t, why).map(|_| true),
        Case::Pair(a, b) => check_pair(&a.to_string(), &b.to_string()),
    }
}

fn is_nontrivial(v: &Value) -> bool {
    let Some(o) = v.as_object() else { return false };
    if o.contains_key("apply_to_files") || o.contains_key("skip_files") || o.contains_key("bundle") {
        return true;
    }
    if let Some(g) = o.get("generator") {
        if g.is_object() {
            return true;
        }
    }
    let rules = o.get("rules").or_else(|| o.get("process")).and_then(|r| r.as_array());
    rules.map(|rs| rs.iter().any(|r| r.as_object().map(|m| m.len() > 1).unwrap_or(false))).unwrap_or(false)
}

fn filter_shapes() -> Vec<Vec<(&'static str, Value)>> {
    vec![
        vec![],
        vec![("apply_to_files", json!("**/a.lua"))],
        vec![("skip_files", json!("**/a.lua"))],
        vec![("apply_to_files", json!(["src/*.lua", "**/c.luau"])), ("skip_files", json!(["**/a.lua"]))],
        vec![("apply_to_files", json!(["**/a.lua"])), ("skip_files", json!("src/sub/**"))],
    ]
}

/// the exhaustive single-feature matrix
fn matrix() -> Vec<Case> {
    let mut out = vec![];
    // a context pipeline so that every rule has something to act on and is followed by another rule
    for rule in ALL_RULES {
        for props in valid_variants(rule) {
            for fs in filter_shapes() {
                let mut r = with_rule(rule, &props);
                for (k, v) in &fs {
                    r[*k] = v.clone();
                }
                out.push(Case::Valid(json!({"rules": [r.clone()]})));
                out.push(Case::Valid(json!({"rules": ["remove_empty_do", r, "remove_unused_while"], "generator": "dense"})));
            }
            let empty = props.as_object().map(|o| o.is_empty()).unwrap_or(true);
            if empty && !requires_object_form(rule) {
                out.push(Case::Valid(json!({"rules": [rule]})));
            }
        }
        for (props, why) in invalid_variants(rule) {
            out.push(Case::Invalid(json!({"rules": [with_rule(rule, &props)]}), format!("{}: {}", rule, why)));
        }
        // duplicate keys: every property of every accepted variant given twice (same value, and
        // first a different one: "the last one wins" is silently ignoring the first)
        for props in valid_variants(rule) {
            let Some(obj) = props.as_object() else { continue };
            for (k, v) in obj {
                let full = with_rule(rule, &props).to_string();
                for first in [v.clone(), json!(null), json!("other")] {
                    // `{"k":first,` + the rest of the object, which holds k again
                    let text = format!("{{\"rules\": [{{{}:{},{}]}}", json!(k), first, &full[1..]);
                    out.push(Case::InvalidText(text, format!("{}: property `{}` given twice", rule, k)));
                }
            }
        }
        out.push(Case::InvalidText(format!("{{rules: [{{rule: '{}', skip_files: '**', skip_files: '**'}}]}}", rule), format!("{}: duplicate skip_files", rule)));
        out.push(Case::InvalidText(format!("{{rules: [{{rule: '{}', rule: '{}'}}]}}", rule, rule), format!("{}: duplicate `rule` key", rule)));
        out.push(Case::InvalidText(
            format!("{{rules: [{{rule: '{}', apply_to_files: '**', apply_to_files: '**'}}]}}", rule),
            format!("{}: duplicate apply_to_files", rule),
        ));
        // ill-typed / invalid filters
        for (k, v, why) in [
            ("apply_to_files", json!(5), "filter is a number"),
            ("skip_files", json!([1]), "filter list of numbers"),
            ("apply_to_files", json!("**a"), "invalid glob"),
            ("skip_files", json!(["{a"]), "invalid glob"),
            ("apply_to_file", json!("**"), "misspelt filter key"),
        ] {
            let variants = valid_variants(rule);
            let mut r = with_rule(rule, &variants[0]);
            r[k] = v;
            out.push(Case::Invalid(json!({"rules": [r]}), format!("{}: {}", rule, why)));
        }
    }
    out.push(Case::Invalid(json!({"rules": ["remove_space"]}), "misspelt rule name".into()));
    out.push(Case::Invalid(json!({"rules": [{"rule": "remove_space"}]}), "misspelt rule name".into()));
    out.push(Case::Invalid(json!({"rules": [{"name": "remove_spaces"}]}), "rule object without `rule`".into()));
    out.push(Case::Invalid(json!({"rules": [5]}), "rule is a number".into()));
    out.push(Case::Invalid(json!({"rules": "remove_spaces"}), "rules is a string".into()));
    out.push(Case::Invalid(json!({"rule": ["remove_spaces"]}), "misspelt top-level key".into()));
    out.push(Case::Invalid(json!({"rules": [], "generators": "dense"}), "misspelt top-level key".into()));
    out.push(Case::Invalid(json!({"rules": [], "location": "x"}), "internal key".into()));
    out.push(Case::InvalidText("{rules: [], rules: []}".into(), "duplicate top-level key".into()));
    out.push(Case::InvalidText("{rules: [], process: []}".into(), "rules and its alias together".into()));
    out.push(Case::InvalidText("{generator: 'dense', generator: 'dense'}".into(), "duplicate generator".into()));
    out.push(Case::InvalidText("[]".into(), "configuration is a list".into()));
    for g in valid_generators() {
        if let Some(obj) = g.as_object() {
            for (k, v) in obj {
                out.push(Case::InvalidText(format!("{{\"generator\": {{{}:{},{}}}", json!(k), v, &g.to_string()[1..]), format!("generator key `{}` given twice", k)));
            }
        }
    }
    for b in valid_bundles() {
        if let Some(obj) = b.as_object() {
            for (k, v) in obj {
                out.push(Case::InvalidText(format!("{{\"bundle\": {{{}:{},{}}}", json!(k), v, &b.to_string()[1..]), format!("bundle key `{}` given twice", k)));
            }
        }
    }
    for k in ["bundle", "apply_to_files", "skip_files"] {
        let v = if k == "bundle" { json!({"require_mode": "path"}) } else { json!("**") };
        out.push(Case::InvalidText(format!("{{{k}: {v}, {k}: {v}}}"), format!("duplicate top-level key {}", k)));
    }
    out.push(Case::Valid(json!({})));
    out.push(Case::Valid(json!({"process": ["remove_spaces"]})));
    for g in valid_generators() {
        out.push(Case::Valid(json!({"generator": g})));
        out.push(Case::Valid(json!({"rules": ["remove_comments", "rename_variables"], "generator": g})));
    }
    for (g, why) in invalid_generators() {
        out.push(Case::Invalid(json!({"generator": g}), why.into()));
    }
    for b in valid_bundles() {
        out.push(Case::Valid(json!({"rules": [], "bundle": b})));
        out.push(Case::Valid(json!({"bundle": b, "generator": "dense"})));
    }
    for (b, why) in invalid_bundles() {
        out.push(Case::Invalid(json!({"rules": [], "bundle": b}), why.into()));
    }
    for fs in filter_shapes().into_iter().skip(1) {
        let mut m = Map::new();
        m.insert("rules".into(), json!(["remove_comments"]));
        for (k, v) in fs {
            m.insert(k.into(), v);
        }
        out.push(Case::Valid(Value::Object(m)));
    }
    for (k, v, why) in [
        ("apply_to_files", json!(5), "filter is a number"),
        ("skip_files", json!([1]), "filter list of numbers"),
        ("apply_to_files", json!("**a"), "invalid glob"),
        ("skip_files", json!(["{a"]), "invalid glob"),
    ] {
        let mut c = json!({"rules": []});
        c[k] = v;
        out.push(Case::Invalid(c, why.into()));
    }
    out
}

/// single-feature mutations of a valid configuration (for the distinguishability check)
fn mutate(t: &mut Tape, v: &Value) -> Value {
    let mut c = v.clone();
    let o = c.as_object_mut().unwrap();
    let key = if o.contains_key("process") { "process" } else { "rules" };
    let rules_len = o.get(key).and_then(|r| r.as_array()).map(|a| a.len()).unwrap_or(0);
    match t.weighted(&[if rules_len > 0 { 6 } else { 0 }, 2, 2, 2]) {
        0 => {
            // change one rule's properties or filters
            let i = t.choose(rules_len);
            let rules = o.get_mut(key).unwrap().as_array_mut().unwrap();
            let name = match &rules[i] {
                Value::String(s) => s.clone(),
                other => other["rule"].as_str().unwrap_or("remove_spaces").to_string(),
            };
            if t.bool(128) {
                let variants = valid_variants(&name);
                let mut r = with_rule(&name, &variants[t.choose(variants.len())]);
                if let Some(old) = rules[i].as_object() {
                    for k in ["apply_to_files", "skip_files"] {
                        if let Some(f) = old.get(k) {
                            r[k] = f.clone();
                        }
                    }
                }
                rules[i] = r;
            } else {
                let mut r = if rules[i].is_string() { json!({"rule": name}) } else { rules[i].clone() };
                let k = if t.bool(128) { "apply_to_files" } else { "skip_files" };
                if r.get(k).is_some() && t.bool(100) {
                    r.as_object_mut().unwrap().remove(k);
                } else {
                    r[k] = gen_filter_value(t);
                }
                rules[i] = r;
            }
        }
        1 => {
            let g = valid_generators();
            o.insert("generator".into(), g[t.choose(g.len())].clone());
        }
        2 => {
            let k = if t.bool(128) { "apply_to_files" } else { "skip_files" };
            if o.contains_key(k) && t.bool(100) {
                o.remove(k);
            } else {
                o.insert(k.into(), gen_filter_value(t));
            }
        }
        _ => {
            if o.contains_key("bundle") && t.bool(80) {
                o.remove("bundle");
            } else {
                let b = valid_bundles();
                o.insert("bundle".into(), b[t.choose(b.len())].clone());
            }
        }
    }
    c
}

/// random corruption of a valid configuration: one field
fn corrupt(t: &mut Tape, v: &Value) -> Option<(Value, String)> {
    let mut c = v.clone();
    let o = c.as_object_mut()?;
    let key = if o.contains_key("process") { "process" } else { "rules" };
    let rules_len = o.get(key).and_then(|r| r.as_array()).map(|a| a.len()).unwrap_or(0);
    match t.weighted(&[if rules_len > 0 { 6 } else { 0 }, 2, 2, 1]) {
        0 => {
            let i = t.choose(rules_len);
            let rules = o.get_mut(key)?.as_array_mut()?;
            let name = match &rules[i] {
                Value::String(s) => s.clone(),
                other => other["rule"].as_str()?.to_string(),
            };
            let inv = invalid_variants(&name);
            let (props, why) = inv[t.choose(inv.len())].clone();
            let mut r = with_rule(&name, &props);
            if let Some(old) = rules[i].as_object() {
                for k in ["apply_to_files", "skip_files"] {
                    if let Some(f) = old.get(k) {
                        r[k] = f.clone();
                    }
                }
            }
            rules[i] = r;
            Some((c, format!("{}: {}", name, why)))
        }
        1 => {
            let g = invalid_generators();
            let (gv, why) = g[t.choose(g.len())].clone();
            o.insert("generator".into(), gv);
            Some((c, why.to_string()))
        }
        2 => {
            let b = invalid_bundles();
            let (bv, why) = b[t.choose(b.len())].clone();
            o.insert("bundle".into(), bv);
            Some((c, why.to_string()))
        }
        _ => {
            let k = *t.pick(&["rulez", "generators", "bundles", "apply_to_file", "skip_file", "Rules", "location"]);
            o.insert(k.into(), json!([]));
            Some((c, format!("unknown top-level key {}", k)))
        }
    }
}

fn run(ctx: &RunCtx) {
    setup_env();
    let avoid_excl = ctx.avoid("invalid-exclude-glob");
    let avoid_unit = ctx.avoid("retain-lines-extra-key");
    let skip_case = |c: &Case| -> bool {
        if let Case::Invalid(_, why) = c {
            if avoid_excl && why == "invalid glob in excludes" {
                return true;
            }
            if avoid_unit && why == "column_span on retain_lines" {
                return true;
            }
        }
        false
    };
    static MATRIX: std::sync::OnceLock<Vec<Case>> = std::sync::OnceLock::new();
    let m = MATRIX.get_or_init(matrix);
    ctx.add_class("matrix_cases", m.len() as u64);
    ctx.enumerate("matrix", m.len() as u64, |i, st| {
        let c = &m[i as usize];
        if skip_case(c) {
            return CaseResult::Discard("avoided: known finding");
        }
        st.class(match c {
            Case::Valid(_) => "matrix_valid",
            Case::Invalid(..) | Case::InvalidText(..) => "matrix_corruption",
            Case::Pair(..) => "pair",
        });
        if i % 97 == 0 {
            st.sample(|| case_json(c));
        }
        match check(c) {
            Ok(nt) => CaseResult::Pass { nontrivial: nt.then(|| hash_str(&case_json(c).to_string())) },
            Err(msg) => CaseResult::Fail(Failure::new(msg, case_json(c))),
        }
    });
    ctx.exhaustive.store(true, std::sync::atomic::Ordering::Relaxed);
    let opts = CfgOpts { max_rules: 5, allow_filters: true, allow_bundle: true, allow_convert_require: true };
    let n = ctx.tier.pick(6_000, 300_000);
    ctx.search("random", n, 200, |tape, st| {
        let mut t = Tape::new(tape);
        let base = gen_config(&mut t, &opts);
        let c = match t.weighted(&[4, 3, 3]) {
            0 => Case::Valid(base),
            1 => {
                let other = mutate(&mut t, &base);
                Case::Pair(base, other)
            }
            _ => match corrupt(&mut t, &base) {
                Some((v, why)) => Case::Invalid(v, why),
                None => Case::Valid(base),
            },
        };
        if skip_case(&c) {
            return CaseResult::Discard("avoided: known finding");
        }
        st.class(match &c {
            Case::Valid(_) => "random_valid",
            Case::Invalid(..) | Case::InvalidText(..) => "random_corruption",
            Case::Pair(..) => "random_pair",
        });
        st.sample(|| case_json(&c));
        match check(&c) {
            Ok(nt) => {
                if matches!(c, Case::Pair(..)) && nt {
                    st.class("pair_behaviour_differs");
                }
                CaseResult::Pass { nontrivial: nt.then(|| hash_str(&case_json(&c).to_string())) }
            }
            Err(msg) => CaseResult::Fail(Failure::new(msg, case_json(&c))),
        }
    });
}

fn replay(v: &Value) -> Result<(), String> {
    setup_env();
    let kind = v.get("kind").and_then(|k| k.as_str()).ok_or("malformed C19 replay")?;
    let config = v.get("config").and_then(|k| k.as_str()).ok_or("malformed C19 replay")?;
    match kind {
        "valid" => check_valid(config),
        "invalid" => check_invalid(config, v.get("why").and_then(|k| k.as_str()).unwrap_or("")),
        "pair" => check_pair(config, v.get("other").and_then(|k| k.as_str()).ok_or("malformed C19 replay")?).map(|_| ()),
        _ => Err("malformed C19 replay".into()),
    }
}

#[allow(dead_code)]
fn unused(_: &dl::DlError) {}
