//! C12 — no input or configuration crashes darklua.

use crate::dl;
use crate::engine::*;
use crate::gen::cfg::{self, CfgOpts};
use crate::gen::progen::{gen_program, GenOpts};
use crate::gen::syngen::{gen_tree, SynOpts};
use crate::luaprint::{self, LayoutOpts};
use crate::luasyn::{self, Mode};
use crate::tape::Tape;
use serde_json::{json, Value};

pub fn def() -> PropDef {
    PropDef {
        id: "C12",
        rule: "(a) source texts up to 2 KB: random characters incl. multi-byte ones, token soup from a Lua / Luau dictionary, every kind of prefix of valid programs, valid programs with deleted / duplicated / swapped ranges and multi-byte characters spliced at token boundaries; oracle: Parser::parse (token-preserving and not) returns Ok or Err without panicking; (b) valid programs (syntactic generator on all surfaces, executable generator) x sequences of <= 6 rules drawn from all 32 rule names with randomised accepted properties (configuration generator of C19) x 3 generators x column spans incl. 0 and 1; oracle: process returns, every error is a value, every written output parses again with darklua's parser and with the independent parser; (c) nesting families (parentheses, tables, function bodies, unary / binary chains, if-expressions, types) at every depth 1..=40 through parse and the default pipeline. Phases (a) and (b) run in child processes: an abort (stack overflow, double panic) is attributed to the input that caused it. A panic listed as a known finding is recognised by its exact location + message. Non-trivial = (a) the text lexes into >= 3 tokens and is rejected, or is accepted with >= 10 tokens; (b) >= 2 rules ran and the output was re-parsed.",
        assumptions: &[
            "source texts are valid UTF-8 (darklua reads sources into String; undecodable files are a read error, covered by C11)",
            "hangs are monitored by the engine's watchdog (exit 2), not decided",
            "nesting beyond depth 40 is outside the claim (native stack of the parser dependency)",
        ],
        run,
        replay,
        minimize: Some(minimize),
    }
}

const DICT: [&str; 105] = [
    "local", "function", "end", "if", "then", "else", "elseif", "while", "do", "repeat", "until", "for", "in", "return", "break", "continue", "and", "or", "not", "nil", "true", "false", "type", "export", "typeof", "const", "(", ")", "{", "}", "[", "]", "[[", "]]", "[=[", "]=]", "--", "--[[", "`", "{{", "\"", "'", "\\", ";", ":", "::", ",", ".", "..", "...", "=", "==", "~=", "<", ">", "<=", ">=", "<<", ">>", "+", "-", "*", "/", "//", "%", "^", "#", "+=", "..=", "->", "?", "|", "&", "@", "x", "1", "0x", "1e", "\\u{", "\\u{D800}", "\\u{110000}", "\\u{}", "\\x", "\\xZZ", "\\z", "\\999", "\\256", "\\", "\\\n", "0x", "0b", "0b2", "1e+", "1__", "0x_", "1e309", "0xffffffffffffffffff", ".5.", "..=", "<<", ">>", "@native", "::", "->", "...",
];

fn valid_program(t: &mut Tape) -> String {
    valid_program_with(t, false)
}

fn valid_program_with(t: &mut Tape, always_laid_out: bool) -> String {
    let body = valid_program_body(t, always_laid_out);
    if t.bool(10) {
        // an interpreter line in front of the program
        return format!("#!/usr/bin/env lua\n{}", body);
    }
    body
}

fn valid_program_body(t: &mut Tape, always_laid_out: bool) -> String {
    let mode = t.weighted(&[3, 4, 2]);
    let block = match mode {
        0 => gen_tree(t, &SynOpts::lua51()).0,
        1 => gen_tree(t, &SynOpts::luau()).0,
        _ => gen_program(t, &GenOpts::luau()).block,
    };
    let block = crate::gen::context::maybe_wrap(block, t, mode != 0, 40).0;
    if always_laid_out || t.bool(100) {
        let mut lo = LayoutOpts::all(true);
        lo.trailing_newline = t.bool(200);
        luaprint::print_layout(&block, t, &lo)
    } else {
        luaprint::print_plain(&block)
    }
}

fn char_boundary(s: &str, mut i: usize) -> usize {
    i = i.min(s.len());
    while i > 0 && !s.is_char_boundary(i) {
        i -= 1;
    }
    i
}

fn gen_text(t: &mut Tape, st: &mut Stats) -> String {
    let mut s = match t.weighted(&[2, 3, 3, 5, 2]) {
        4 => {
            // literal soup: string / number / interpolation spellings built from escape fragments
            st.class("literal_soup");
            let open = ["\"", "'", "`", "[[", "[==["][t.choose(5)];
            let close = match open {
                "[[" => "]]",
                "[==[" => "]==]",
                o => o,
            };
            let frag = ["\\u{", "D800", "DFFF", "10FFFF", "110000", "FFFFFFFFFF", "}", "\\x", "4", "G", "\\z", " \n ", "\\", "\\\n", "\\\r\n", "\\1", "\\255", "\\256", "\\0009", "{", "{{", "}", "{x}", "{`a`}", "\u{e9}", "\u{feff}", "a", "\r", "\n"];
            let mut s = String::from(["return ", "local x = ", "f", "x = x .. ", "type T = "][t.choose(5)]);
            s.push_str(open);
            for _ in 0..t.choose(8) {
                s.push_str(frag[t.choose(frag.len())]);
            }
            if t.bool(220) {
                s.push_str(close);
            }
            s
        }
        0 => {
            st.class("random_characters");
            let n = t.choose(200);
            let pool: Vec<char> = " \n\t\r()[]{}=.,;:'\"\\`-+*/<>#%^~&|?@$!_aZ09\u{e9}\u{65e5}\u{1f600}\u{0}\u{7f}\u{feff}".chars().collect();
            (0..n).map(|_| if t.bool(200) { pool[t.choose(pool.len())] } else { char::from_u32(t.byte() as u32 * 7 + 32).unwrap_or('x') }).collect()
        }
        1 => {
            st.class("token_soup");
            let n = t.choose(60);
            let mut s = String::new();
            for _ in 0..n {
                s.push_str(DICT[t.choose(DICT.len())]);
                if t.bool(150) {
                    s.push(' ');
                }
            }
            s
        }
        2 => {
            st.class("prefix_of_valid_program");
            let p = valid_program(t);
            let cut = char_boundary(&p, (t.choose(256) * p.len()) >> 8);
            p[..cut].to_string()
        }
        _ => {
            st.class("mutated_valid_program");
            let mut p = valid_program(t);
            let n = 1 + t.choose(3);
            for _ in 0..n {
                if p.is_empty() {
                    break;
                }
                let a = char_boundary(&p, (t.choose(256) * p.len()) >> 8);
                let b = char_boundary(&p, (a + t.choose(24)).min(p.len()));
                match t.choose(5) {
                    0 => p.replace_range(a..b, ""),
                    1 => {
                        let piece = p[a..b].to_string();
                        p.insert_str(a, &piece);
                    }
                    2 => {
                        let c = char_boundary(&p, (t.choose(256) * p.len()) >> 8);
                        let piece = p[a..b].to_string();
                        p.insert_str(c, &piece);
                    }
                    3 => {
                        // a multi-byte character at a token boundary
                        let ch = ["\u{e9}", "\u{65e5}", "\u{1f600}", "\u{feff}", "$", "\u{a0}"][t.choose(6)];
                        if let Ok(l) = luasyn::lex::lex(&p, Mode::Luau) {
                            if !l.tokens.is_empty() {
                                let tok = &l.tokens[t.choose(l.tokens.len())];
                                let pos = char_boundary(&p, if t.bool(128) { tok.start } else { tok.end });
                                p.insert_str(pos, ch);
                            }
                        } else {
                            p.insert_str(a, ch);
                        }
                    }
                    _ => {
                        let piece = DICT[t.choose(DICT.len())];
                        p.insert_str(a, piece);
                    }
                }
            }
            p
        }
    };
    if s.len() > 2048 {
        let cut = char_boundary(&s, 2048);
        s.truncate(cut);
    }
    s
}

fn panic_failure(what: &str, panic: String, replay: Value) -> Failure {
    // the signature is the exact panic location + message: only used to recognise listed findings
    Failure::new(format!("{}: PANIC {}", what, panic), replay).with_signature(panic)
}

pub fn check_parse(text: &str) -> Result<(bool, bool), Failure> {
    let mut accepted = false;
    for preserve in [false, true] {
        match dl::dl_parse(text, preserve) {
            Err(p) => return Err(panic_failure(&format!("Parser::parse (preserve_tokens = {})", preserve), p, json!({"kind": "parse", "text": text}))),
            Ok(Ok(_)) => accepted = true,
            Ok(Err(_)) => {}
        }
    }
    let tokens = luasyn::lex::lex(text, Mode::Luau).map(|l| l.tokens.len()).unwrap_or(0);
    let nt = (!accepted && tokens >= 3) || (accepted && tokens >= 10);
    Ok((accepted, nt))
}

pub fn check_pipeline(source: &str, config: &str) -> Result<(bool, bool), Failure> {
    let replay = json!({"kind": "pipeline", "source": source, "config": config});
    match dl::process_one(source, config) {
        Err(dl::DlError::Panic(p)) => Err(panic_failure("process", p, replay)),
        Err(dl::DlError::Config(_)) => Ok((false, false)),
        Err(dl::DlError::Process(errs)) => {
            // errors are values naming the file
            if errs.iter().any(|e| !e.contains("main.lua")) {
                return Err(Failure::new(format!("an error does not name the file it is about: {:?}", errs), replay));
            }
            Ok((false, false))
        }
        Err(dl::DlError::NoOutput) => Ok((false, false)),
        Ok(out) => {
            match dl::dl_parse(&out, false) {
                Err(p) => return Err(panic_failure("re-parsing the output", p, replay)),
                Ok(Err(e)) => return Err(Failure::new(format!("the output does not parse again with darklua's own parser: {}\n--- config\n{}\n--- source\n{}\n--- output\n{}", e, config, source, out), replay)),
                Ok(Ok(_)) => {}
            }
            if let Err(e) = luasyn::parse::parse_with_options(&out, Mode::Luau, luasyn::parse::ParseOptions { check_loop_context: false, check_vararg_context: false }) {
                // only meaningful when the independent parser accepts the input as well
                if luasyn::parse::parse_with_options(source, Mode::Luau, luasyn::parse::ParseOptions { check_loop_context: false, check_vararg_context: false }).is_ok() {
                    return Err(Failure::new(
                        format!("the output is not valid Luau for the independent parser: {} (line {})\n--- config\n{}\n--- source\n{}\n--- output\n{}", e.msg, e.line, config, source, out),
                        replay,
                    ));
                }
            }
            Ok((true, true))
        }
    }
}

fn pair_programs() -> Vec<String> {
    vec![
        // plain Lua, no final return, semicolons and comments
        "-- header\nlocal count = 0\nlocal step = 1;\nlocal unused\nfunction increment()\n\tcount = count + step -- add\n\treturn count\nend\ndo end\nlocal t = { a = 1, ['b'] = 2, 3 }\nif DEBUG then print(increment(), t.a, t['b'], math.sqrt(4)) end\nassert(count, 'message')\nprint(increment());\n".to_string(),
        // ends with a return; methods, string and table calls, loops
        "local lib = {}\nfunction lib.double(x) return x * 2 end\nfunction lib:twice(x)\n\treturn self.double(self.double(x))\nend\nlocal function helper(...) return select('#', ...) end\nfor i = 1, 3 do\n\tif i == 2 then break end\n\tlib:twice(i)\nend\nwhile false do end\nrepeat local done = true until done\nprint 'text' print { 1, 2 }\ndebug.profilebegin('x') debug.profileend()\nreturn lib\n".to_string(),
        // a shebang line
        "#!/usr/bin/env lua\nlocal a = 1\nlocal b = 2\nprint(a + b)\n".to_string(),
        // many temporaries of one kind in one scope (generated names must keep advancing)
        "local Class = {}\nfunction Class:bump()\n\tself.counters.hits += 1\n\tself.counters.misses += 1\n\tself.counters.total += 1\n\tself.counters.extra //= 2\n\tself.counters.name ..= `x{self.counters.hits}`\n\tfor i = 1, 3 do\n\t\tif i == 2 then continue end\n\t\tfor j = 1, 2 do\n\t\t\tif j == i then continue end\n\t\t\tself.counters[i][j] += 1\n\t\tend\n\tend\n\treturn self\nend\nreturn Class\n".to_string(),
        // Luau constructs
        "--!strict\ntype Point = { x: number, y: number }\nexport type Id = string | number\nlocal p: Point = { x = 0b11, y = 1_000 }\nlocal n = p.x // 2\nn += 1\nlocal s = `value {n} {p.y}`\nlocal v = if n > 1 then 'big' else 'small'\nfor _, k in { 1, 2 } do\n\tif k == 1 then continue end\n\tprint(k :: number, s, v)\nend\n@native local function f<T>(x: T): T return x end\nconst LIMIT = 10\nreturn f(LIMIT)\n".to_string(),
    ]
}

fn nesting_family(kind: usize, depth: usize) -> String {
    let mut s = String::new();
    match kind {
        0 => {
            s.push_str("return ");
            s.push_str(&"(".repeat(depth));
            s.push('x');
            s.push_str(&")".repeat(depth));
        }
        1 => {
            s.push_str("return ");
            s.push_str(&"{".repeat(depth));
            s.push_str(&"}".repeat(depth));
        }
        2 => {
            for _ in 0..depth {
                s.push_str("local function f() ");
            }
            s.push_str("return 1 ");
            for _ in 0..depth {
                s.push_str("end ");
            }
        }
        3 => {
            s.push_str("return ");
            s.push_str(&"- ".repeat(depth));
            s.push('x');
        }
        4 => {
            s.push_str("return x");
            for i in 0..depth {
                s.push_str([" + ", " .. ", " ^ ", " and ", " or ", " == "][i % 6]);
                s.push('x');
            }
        }
        5 => {
            s.push_str("return ");
            for _ in 0..depth {
                s.push_str("if c then 1 else ");
            }
            s.push('2');
        }
        6 => {
            s.push_str("local x: ");
            s.push_str(&"{".repeat(depth));
            s.push_str("number");
            s.push_str(&"}".repeat(depth));
            s.push_str(" = y");
        }
        7 => {
            for _ in 0..depth {
                s.push_str("if a then while b do repeat ");
            }
            s.push_str("f() ");
            for _ in 0..depth {
                s.push_str("until c end end ");
            }
        }
        8 => {
            s.push_str("return f");
            for _ in 0..depth {
                s.push_str("(g");
            }
            s.push_str(&")".repeat(depth));
        }
        9 => {
            s.push_str("local x: ");
            for _ in 0..depth {
                s.push_str("(a: number) -> ");
            }
            s.push_str("nil = y");
        }
        // chains in the value of an unused local, in a condition and in a discarded argument: the
        // default rules ask the static evaluator about every level (value, truthiness, side effects)
        10 => {
            s.push_str("local v = 1");
            s.push_str(&" + 1".repeat(depth));
        }
        11 => {
            s.push_str("local v = a");
            for i in 0..depth {
                s.push_str([" + a", " .. a", " * 2", " - a", " // a", " % 3"][i % 6]);
            }
        }
        12 => {
            s.push_str("local v = 'a'");
            s.push_str(&" .. 'a'".repeat(depth));
            s.push_str("\nlocal w = 2");
            s.push_str(&" ^ 2".repeat(depth));
        }
        13 => {
            s.push_str("local v = a");
            for i in 0..depth {
                s.push_str([" and 1", " or nil", " and a", " or false"][i % 4]);
            }
            s.push_str("\nif 1");
            for i in 0..depth {
                s.push_str([" and 1", " or nil", " and true", " or false"][i % 4]);
            }
            s.push_str(" then f() end");
        }
        14 => {
            s.push_str("if 1");
            s.push_str(&" + 1".repeat(depth));
            s.push_str(" == 0 then f() end\nwhile 1");
            s.push_str(&" - 1".repeat(depth));
            s.push_str(" > 0 do f() end");
        }
        15 => {
            s.push_str("local v = t");
            for i in 0..depth {
                s.push_str([".a", "[1]", "['k']", ".b.c"][i % 4]);
            }
            s.push_str("\nlocal w = f");
            s.push_str(&"()".repeat(depth));
        }
        16 => {
            s.push_str("local v = ");
            for i in 0..depth {
                s.push_str(["-(", "not (", "#(", "-("][i % 4]);
            }
            s.push('1');
            s.push_str(&")".repeat(depth));
            s.push_str("\nlocal w = ");
            s.push_str(&"not ".repeat(depth));
            s.push('a');
        }
        17 => {
            s.push_str("local v = ");
            for _ in 0..depth {
                s.push_str("{ 1, k = ");
            }
            s.push_str("{}");
            s.push_str(&" }".repeat(depth));
        }
        18 => {
            s.push_str("local v = ");
            for i in 0..depth {
                s.push_str(["if true then 1 else ", "if a then 1 elseif nil then 2 else ", "if false then 1 else "][i % 3]);
            }
            s.push('2');
            s.push_str("\nlocal w = ");
            for _ in 0..depth {
                s.push_str("if 1 + 1 == 2 then ");
            }
            s.push('1');
            s.push_str(&" else 2".repeat(depth));
        }
        _ => {
            s.push_str("local v = ");
            for _ in 0..depth {
                s.push_str("`a{");
            }
            s.push('1');
            s.push_str(&"}b`".repeat(depth));
            s.push_str("\nlocal w = ((1 + 1) * (2 + 2))");
            for _ in 0..depth {
                s.push_str(" + ((1 + 1) * (2 + 2))");
            }
        }
    }
    s
}

const NESTING_FAMILIES: u64 = 20;

fn run(ctx: &RunCtx) {
    cfg::setup_env();
    let default_cfg = "{ }";
    // (c) nesting families, in process (bounded depth)
    ctx.enumerate("nesting", NESTING_FAMILIES * 40, |i, st| {
        let text = nesting_family((i / 40) as usize, 1 + (i % 40) as usize);
        st.class("nesting_case");
        if let Err(f) = check_parse(&text) {
            return CaseResult::Fail(f);
        }
        for config in [default_cfg, "{ rules: [], generator: \"dense\" }", "{ rules: [], generator: { name: \"readable\", column_span: 1 } }"] {
            if let Err(f) = check_pipeline(&text, config) {
                return CaseResult::Fail(f);
            }
        }
        CaseResult::Pass { nontrivial: Some(hash_str(&text)) }
    });
    // (d) every ordered pair of rules (32 x 32), their accepted variants in rotation, three generators,
    // on a few fixed programs (with and without a final return, with a shebang line, Luau constructs):
    // interactions between two rules do not depend on luck
    let programs = pair_programs();
    let generators = ["\"dense\"", "\"readable\"", "\"retain_lines\""];
    let nr = cfg::ALL_RULES.len() as u64;
    ctx.enumerate("rule_pairs", nr * nr * 3 * programs.len() as u64, |i, st| {
        let p = (i % programs.len() as u64) as usize;
        let g = ((i / programs.len() as u64) % 3) as usize;
        let pair = i / (programs.len() as u64 * 3);
        let (a, b) = (cfg::ALL_RULES[(pair / nr) as usize], cfg::ALL_RULES[(pair % nr) as usize]);
        let va = cfg::valid_variants(a);
        let vb = cfg::valid_variants(b);
        let ra = cfg::with_rule(a, &va[(p + g) % va.len()]);
        let rb = cfg::with_rule(b, &vb[(p * 3 + g + (pair % 7) as usize) % vb.len()]);
        let config = format!("{{ rules: [{}, {}], generator: {} }}", ra, rb, generators[g]);
        st.class("rule_pair_case");
        match check_pipeline(&programs[p], &config) {
            Ok((written, _)) => CaseResult::Pass { nontrivial: written.then(|| hash_parts(&[programs[p].as_bytes(), config.as_bytes()])) },
            Err(f) => CaseResult::Fail(f),
        }
    });
    // (e) the same programs as required modules of a small bundle: every rule x 3 generators x
    // {path, luau} require mode; an entry shorter and an entry longer than the modules
    let modules: Vec<String> = programs.iter().map(|p| if p.trim_end().ends_with("lib") || p.contains("return f(LIMIT)") { format!("{};\n", p.trim_end()) } else { format!("{}\nreturn {{ 1, 2 }};\n", p.trim_end().trim_start_matches("#!/usr/bin/env lua")) }).collect();
    ctx.enumerate("bundled_rules", nr * 3 * 2 * 2 * modules.len() as u64, |i, st| {
        let m = (i % modules.len() as u64) as usize;
        let long_entry = (i / modules.len() as u64) % 2 == 1;
        let luau = (i / (modules.len() as u64 * 2)) % 2 == 1;
        let g = ((i / (modules.len() as u64 * 4)) % 3) as usize;
        let r = cfg::ALL_RULES[(i / (modules.len() as u64 * 12)) as usize];
        let v = cfg::valid_variants(r);
        let rule = cfg::with_rule(r, &v[(m + g) % v.len()]);
        // exclude patterns, among them ones the glob library refuses (dropped with a warning)
        let excludes = ["", ", excludes: [\"@lune/**\"]", ", excludes: [\"**.spec.lua\", \"vendor/**/*.{lua\"]", ", excludes: [\"a//b\", \"@lune/**.luau\"]"][((i / 7) % 4) as usize];
        let config_text = format!("{{ rules: [{}], generator: {}, bundle: {{ require_mode: \"{}\"{} }} }}", rule, generators[g], if luau { "luau" } else { "path" }, excludes);
        let mut entry = String::from("local m = require(\"./m\")\nlocal d = require(\"./data.json\")\nprint(m, d);\n");
        if long_entry {
            for k in 0..120 {
                entry.push_str(&format!("print(\"padding line {} of the entry file, longer than the module\")\n", k));
            }
        }
        let files = vec![("src/main.lua".to_string(), entry), ("src/m.lua".to_string(), modules[m].clone()), ("src/data.json".to_string(), "{ \"a\": [1, 2, null], \"b c\": \"x\" }".to_string())];
        st.class("bundled_rule_case");
        let config = match dl::parse_config(&config_text) {
            Ok(c) => c,
            Err(_) => return CaseResult::Discard("configuration rejected"),
        };
        let replay = json!({"kind": "bundle", "files": files, "config": config_text});
        match dl::process_project(&files, "src/main.lua", "out/main.lua", config) {
            Err(dl::DlError::Panic(p)) => CaseResult::Fail(panic_failure("process (bundling)", p, replay)),
            Err(_) => CaseResult::Pass { nontrivial: None },
            Ok((resources, errs)) => {
                if !errs.is_empty() {
                    if errs.iter().any(|e| !e.contains("src/")) {
                        return CaseResult::Fail(Failure::new(format!("an error does not name the file it is about: {:?}", errs), replay));
                    }
                    return CaseResult::Pass { nontrivial: None };
                }
                let Ok(out) = resources.get("out/main.lua") else { return CaseResult::Fail(Failure::new("no bundle written and no error reported", replay)) };
                match dl::dl_parse(&out, false) {
                    Err(p) => CaseResult::Fail(panic_failure("re-parsing the bundle", p, replay)),
                    Ok(Err(e)) => CaseResult::Fail(Failure::new(format!("the bundle does not parse again with darklua's own parser: {}\n--- config\n{}\n--- output\n{}", e, config_text, out), replay)),
                    Ok(Ok(_)) => CaseResult::Pass { nontrivial: Some(hash_parts(&[config_text.as_bytes(), &[m as u8, long_entry as u8]])) },
                }
            }
        }
    });
    // (f) bundles of many modules (module names run through the generated identifiers: one letter,
    // two letters, and must skip digits and keywords): every count in a few windows x 3 generators
    let counts: Vec<usize> = (50..=70).chain(100..=104).chain([1, 2, 26, 27, 300, 700]).collect();
    ctx.enumerate("wide_bundles", counts.len() as u64 * 3, |i, st| {
        let n = counts[(i / 3) as usize];
        let g = (i % 3) as usize;
        let mut files = vec![];
        let mut entry = String::new();
        for k in 0..n {
            entry.push_str(&format!("local m{k} = require(\"./m{k}\")\n"));
            files.push((format!("src/m{k}.lua"), format!("return {{ {k} }}\n")));
        }
        entry.push_str("return m0\n");
        files.insert(0, ("src/main.lua".to_string(), entry));
        let config_text = format!("{{ rules: [], generator: {}, bundle: {{ require_mode: \"path\" }} }}", generators[g]);
        st.class("wide_bundle_case");
        let config = match dl::parse_config(&config_text) {
            Ok(c) => c,
            Err(e) => return CaseResult::Fail(Failure::new(format!("harness: configuration rejected: {}", e), json!({"kind": "bundle", "files": files, "config": config_text}))),
        };
        let replay = json!({"kind": "bundle", "files": files, "config": config_text});
        match dl::process_project(&files, "src/main.lua", "out/main.lua", config) {
            Err(dl::DlError::Panic(p)) => CaseResult::Fail(panic_failure("process (bundling)", p, replay)),
            Err(e) => CaseResult::Fail(Failure::new(format!("bundling {} plain modules fails: {}", n, e), replay)),
            Ok((resources, errs)) => {
                if !errs.is_empty() {
                    return CaseResult::Fail(Failure::new(format!("bundling {} plain modules reports errors: {:?}", n, errs), replay));
                }
                let Ok(out) = resources.get("out/main.lua") else { return CaseResult::Fail(Failure::new("no bundle written and no error reported", replay)) };
                match dl::dl_parse(&out, false) {
                    Err(p) => CaseResult::Fail(panic_failure("re-parsing the bundle", p, replay)),
                    Ok(Err(e)) => CaseResult::Fail(Failure::new(format!("the bundle of {} modules does not parse again with darklua's own parser: {}", n, e), replay)),
                    Ok(Ok(_)) => {
                        if let Err(e) = luasyn::parse(&out, Mode::Luau) {
                            return CaseResult::Fail(Failure::new(format!("the bundle of {} modules is not valid Luau: {} (line {})", n, e.msg, e.line), replay));
                        }
                        CaseResult::Pass { nontrivial: Some(hash_parts(&[config_text.as_bytes(), &(n as u32).to_le_bytes()])) }
                    }
                }
            }
        }
    });
    ctx.isolate("texts");
    ctx.isolate("pipelines");
    let n = ctx.tier.pick(600_000, 20_000_000);
    ctx.search("texts", n, 400, |tape, st| {
        let mut t = Tape::new(tape);
        let text = gen_text(&mut t, st);
        st.sample(|| json!({"text": text}));
        match check_parse(&text) {
            Ok((accepted, nt)) => {
                st.class(if accepted { "accepted" } else { "rejected" });
                CaseResult::Pass { nontrivial: nt.then(|| hash_str(&text)) }
            }
            Err(f) => CaseResult::Fail(f),
        }
    });
    // a comment next to the `...` of a type pack is dropped together with its line break (known finding
    // of C03): the rest of the line then becomes part of the comment
    let avoid_ellipsis = ctx.avoid("pack-ellipsis-trivia");
    let opts = CfgOpts { max_rules: 6, allow_filters: true, allow_bundle: false, allow_convert_require: true };
    let n2 = ctx.tier.pick(40_000, 1_500_000);
    ctx.search("pipelines", n2, 700, |tape, st| {
        let mut t = Tape::new(tape);
        // four cases in ten: comments and blank lines everywhere and the retain_lines generator
        // (rules that remove or re-order statements move the trivia of what they remove)
        let retained = t.bool(104);
        let source = valid_program_with(&mut t, retained);
        let mut config = cfg::gen_config(&mut t, &opts);
        if retained {
            st.class("laid_out_program_with_retain_lines");
            config["generator"] = json!("retain_lines");
            // at least one rule that removes whole statements (their comments move to what follows)
            const REMOVERS: [&str; 10] = ["remove_types", "remove_unused_variable", "remove_empty_do", "remove_unused_while", "remove_unused_if_branch", "filter_after_early_return", "remove_nil_declaration", "remove_debug_profiling", "remove_assertions", "remove_function_call_parens"];
            let mut rules: Vec<Value> = config.get("rules").and_then(|r| r.as_array()).cloned().unwrap_or_default();
            for _ in 0..1 + t.choose(3) {
                let at = t.choose(rules.len() + 1);
                rules.insert(at, json!(REMOVERS[t.choose(REMOVERS.len())]));
            }
            config["rules"] = json!(rules);
        } else if t.bool(128) {
            // spans incl. 0 and 1
            config["generator"] = json!({"name": if t.bool(128) { "dense" } else { "readable" }, "column_span": *t.pick(&[0usize, 1, 2, 3, 10, 80])});
        }
        let config = config.to_string();
        if avoid_ellipsis && crate::props::c03::has_comment_next_to_type_ellipsis(&source) {
            return CaseResult::Discard("avoided: known finding pack-ellipsis-trivia");
        }
        st.sample(|| json!({"source": source, "config": config}));
        let rules = config.matches("\"rule\"").count() + config.matches("\",\"").count();
        match check_pipeline(&source, &config) {
            Ok((written, _)) => {
                st.class(if written { "output_written_and_reparsed" } else { "error_value_or_rejected" });
                CaseResult::Pass { nontrivial: (written && rules >= 2).then(|| hash_parts(&[source.as_bytes(), config.as_bytes()])) }
            }
            Err(f) => CaseResult::Fail(f),
        }
    });
}

fn replay(v: &Value) -> Result<(), String> {
    cfg::setup_env();
    match v.get("kind").and_then(|k| k.as_str()) {
        Some("parse") => check_parse(v.get("text").and_then(|s| s.as_str()).ok_or("malformed C12 replay")?).map(|_| ()).map_err(|f| f.message),
        Some("pipeline") => check_pipeline(v.get("source").and_then(|s| s.as_str()).ok_or("malformed C12 replay")?, v.get("config").and_then(|s| s.as_str()).ok_or("malformed C12 replay")?)
            .map(|_| ())
            .map_err(|f| f.message),
        Some("bundle") => {
            let files: Vec<(String, String)> = serde_json::from_value(v.get("files").cloned().ok_or("malformed C12 replay")?).map_err(|e| e.to_string())?;
            let config_text = v.get("config").and_then(|s| s.as_str()).ok_or("malformed C12 replay")?;
            let config = dl::parse_config(config_text).map_err(|e| format!("harness: configuration rejected: {}", e))?;
            match dl::process_project(&files, "src/main.lua", "out/main.lua", config) {
                Err(dl::DlError::Panic(p)) => Err(format!("process (bundling): PANIC {}", p)),
                Err(_) => Ok(()),
                Ok((resources, errs)) => {
                    if !errs.is_empty() {
                        return Ok(());
                    }
                    let out = resources.get("out/main.lua").map_err(|_| "no bundle written and no error reported".to_string())?;
                    match dl::dl_parse(&out, false) {
                        Err(p) => Err(format!("re-parsing the bundle: PANIC {}", p)),
                        Ok(Err(e)) => Err(format!("the bundle does not parse again with darklua's own parser: {}", e)),
                        Ok(Ok(_)) => Ok(()),
                    }
                }
            }
        }
        Some("abort") => {
            // re-run the shard's generator on the recorded tape, in this process
            let tape = unhex(v.get("tape").and_then(|s| s.as_str()).unwrap_or(""));
            let phase = v.get("phase").and_then(|s| s.as_str()).unwrap_or("texts");
            let mut st = Stats::default();
            let mut t = Tape::new(&tape);
            if phase == "texts" {
                let text = gen_text(&mut t, &mut st);
                println!("input that killed the process (this replay may die the same way):\n{}\n---", text);
                check_parse(&text).map(|_| ()).map_err(|f| f.message)
            } else {
                let opts = CfgOpts { max_rules: 6, allow_filters: true, allow_bundle: false, allow_convert_require: true };
                let source = valid_program(&mut t);
                let mut config = cfg::gen_config(&mut t, &opts);
                if t.bool(128) {
                    config["generator"] = json!({"name": if t.bool(128) { "dense" } else { "readable" }, "column_span": *t.pick(&[0usize, 1, 2, 3, 10, 80])});
                }
                println!("input that killed the process (this replay may die the same way):\n--- config\n{}\n--- source\n{}\n---", config, source);
                check_pipeline(&source, &config.to_string()).map(|_| ()).map_err(|f| f.message)
            }
        }
        _ => Err("malformed C12 replay".into()),
    }
}

/// delta debugging over characters: remove ranges while `fails` holds
fn ddmin_text(text: &str, fails: &dyn Fn(&str) -> bool) -> String {
    let mut cur: Vec<char> = text.chars().collect();
    let mut chunk = (cur.len() / 2).max(1);
    let mut evals = 0;
    while chunk >= 1 && evals < 4000 {
        let mut i = 0;
        let mut progressed = false;
        while i < cur.len() && evals < 4000 {
            let end = (i + chunk).min(cur.len());
            let cand: String = cur[..i].iter().chain(cur[end..].iter()).collect();
            evals += 1;
            if fails(&cand) {
                cur.drain(i..end);
                progressed = true;
            } else {
                i += chunk;
            }
        }
        if chunk == 1 && !progressed {
            break;
        }
        if !progressed || chunk > 1 {
            chunk = if chunk == 1 { 1 } else { chunk / 2 };
        }
    }
    cur.into_iter().collect()
}

fn failure_class(f: &Failure) -> String {
    f.signature.clone().unwrap_or_else(|| first_line(&f.message).chars().take(50).collect())
}

fn minimize(v: &Value) -> Option<Value> {
    cfg::setup_env();
    match v.get("kind")?.as_str()? {
        "parse" => {
            let text = v.get("text")?.as_str()?;
            let class = failure_class(&check_parse(text).err()?);
            let small = ddmin_text(text, &|t| check_parse(t).err().map(|f| failure_class(&f) == class).unwrap_or(false));
            let mut out = v.clone();
            out["text"] = json!(small);
            Some(out)
        }
        "pipeline" => {
            let source = v.get("source")?.as_str()?.to_string();
            let mut config: Value = json5::from_str(v.get("config")?.as_str()?).ok()?;
            let class = failure_class(&check_pipeline(&source, &config.to_string()).err()?);
            let same = |s: &str, c: &Value| check_pipeline(s, &c.to_string()).err().map(|f| failure_class(&f) == class).unwrap_or(false);
            // drop rules, then configuration keys
            for key in ["rules", "process"] {
                let mut i = 0;
                while let Some(n) = config.get(key).and_then(|r| r.as_array()).map(|a| a.len()) {
                    if i >= n {
                        break;
                    }
                    let mut c = config.clone();
                    c[key].as_array_mut().unwrap().remove(i);
                    if same(&source, &c) {
                        config = c;
                    } else {
                        i += 1;
                    }
                }
            }
            for key in ["generator", "apply_to_files", "skip_files"] {
                let mut c = config.clone();
                if c.as_object_mut().map(|m| m.remove(key).is_some()).unwrap_or(false) && same(&source, &c) {
                    config = c;
                }
            }
            let small = ddmin_text(&source, &|t| same(t, &config));
            let mut out = v.clone();
            out["source"] = json!(small);
            out["config"] = json!(config.to_string());
            Some(out)
        }
        _ => None,
    }
}
