//! C06 — Luau-lowering rules preserve program behaviour.

use crate::dl;
use crate::engine::*;
use crate::gen::progen::{Focus, GenOpts};
use crate::props::c01::gen_name;
use crate::props::common::{self, BehaviourSpec};
use crate::tape::Tape;
use serde_json::Value;

pub const LOWERING_RULES: [&str; 9] = [
    "\"remove_compound_assignment\"",
    "\"remove_continue\"",
    "\"remove_if_expression\"",
    "\"remove_interpolated_string\"",
    "{ rule: \"remove_interpolated_string\", strategy: \"tostring\" }",
    "\"remove_floor_division\"",
    "\"convert_luau_number\"",
    "\"make_assignment_local\"",
    "\"remove_types\"",
];

pub fn def() -> PropDef {
    PropDef {
        id: "C06",
        rule: "Luau programs from `progen` (compound assignment on locals / upvalues / fields / indexes with probe prefixes and keys, `..=` `//=`, continue in all loop kinds incl. repeat-until whose condition reads a body local, if-expressions with falsy and multi-value branches and elseif chains, interpolated strings of every value kind incl. objects with __tostring, `//` with negative / fractional / zero divisors, binary and underscored numbers, const, type annotations, locals named math / string / tostring), each under 6 configurations: every lowering rule alone (both interpolation strategies) and random compositions in random order, x 3 generators. Oracle as C01 under the Luau dialect (plus Lua 5.1 when the program is dialect-insensitive). Non-trivial = >= 1 emit, output code tokens changed, and a targeted construct was generated.",
        assumptions: &["as C01; table operands of `//` are never generated (the rule documents math.floor(a / b))"],
        run,
        replay,
        minimize: Some(common::minimize_behaviour),
    }
}

fn gen_configs(t: &mut Tape) -> Vec<String> {
    let mut out = vec![];
    for _ in 0..6 {
        let (g, span) = gen_name(t);
        let rules: Vec<String> = match t.weighted(&[5, 5]) {
            0 => vec![LOWERING_RULES[t.choose(LOWERING_RULES.len())].to_string()],
            _ => {
                let k = 2 + t.choose(6);
                let mut v: Vec<String> = vec![];
                for _ in 0..k {
                    let r = LOWERING_RULES[t.choose(LOWERING_RULES.len())].to_string();
                    if !v.contains(&r) && !(r.contains("remove_interpolated_string") && v.iter().any(|x| x.contains("remove_interpolated_string"))) {
                        v.push(r);
                    }
                }
                v
            }
        };
        out.push(dl::config_text(&rules, &dl::generator_json(&g, span)));
    }
    out
}

fn run(ctx: &RunCtx) {
    let mut opts = GenOpts::luau();
    opts.focus = Focus::Lowering;
    opts.avoid.continue_repeat_body_local = ctx.avoid("continue-repeat-body-local");
    opts.avoid.interp_tostring_order = ctx.avoid("interp-tostring-order");
    let mut filters: Vec<fn(&crate::luasyn::ast::Block) -> Option<&'static str>> = vec![];
    if opts.avoid.interp_tostring_order {
        filters.push(common::filter_interp_order);
    }
    let spec = BehaviourSpec {
        opts,
        luau_layout: true,
        cases: ctx.tier.pick(12_000, 150_000),
        tape_len: 700,
        configs: &gen_configs,
        filters,
        nontrivial: &|s| ["compound_assign", "continue", "if_expr", "interp_string", "floor_div", "const_local", "type_decl"].iter().any(|k| s.contains_key(k)),
        lua51_target: true,
    };
    common::run_behaviour(ctx, "programs", &spec);
}

fn replay(v: &Value) -> Result<(), String> {
    common::replay_behaviour(v)
}
