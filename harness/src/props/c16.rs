//! C16 — optional refactoring rules preserve program behaviour.

use crate::dl::{self, DEFAULT_RULES};
use crate::engine::*;
use crate::gen::progen::{Focus, GenOpts};
use crate::props::c01::gen_name;
use crate::props::common::{self, BehaviourSpec};
use crate::tape::Tape;
use serde_json::Value;

pub const REFACTOR_RULES: [&str; 5] =
    ["group_local_assignment", "convert_local_function_to_assign", "convert_function_to_assignment", "remove_method_call", "convert_square_root_call"];

pub fn def() -> PropDef {
    PropDef {
        id: "C16",
        rule: "programs from `progen` biased to the refactorings' targets (runs of consecutive locals with fewer / equal / more values than names and multi-value tails, later initialisers reading or shadowing earlier names, local functions incl. directly and mutually recursive ones and a parameter named like the function, function statements on fields and methods with implicit self, method calls on identifiers / literals / parenthesised / probe receivers, math.sqrt incl. a shadowed `math`), each under 6 configurations: every one of the 5 rules alone or mixed into the default rule list at a random position, x 3 generators. Oracle as C01 (independent interpreter, same dialect both sides). Non-trivial = >= 1 emit, the output's code tokens changed, and the program contains a targeted construct.",
        assumptions: &["as C01: luaref/luasyn are the harness's independent reading of the language manuals; discards are counted"],
        run,
        replay,
        minimize: Some(common::minimize_behaviour),
    }
}

fn gen_configs(t: &mut Tape) -> Vec<String> {
    let mut out = vec![];
    for i in 0..6 {
        let (g, span) = gen_name(t);
        let rule = if i < 5 { REFACTOR_RULES[i] } else { REFACTOR_RULES[t.choose(5)] };
        let rules: Vec<&str> = match t.weighted(&[5, 4]) {
            0 => vec![rule],
            _ => {
                let mut v: Vec<&str> = DEFAULT_RULES.to_vec();
                let pos = t.choose(v.len() + 1);
                v.insert(pos, rule);
                if t.bool(80) {
                    let other = REFACTOR_RULES[t.choose(5)];
                    if other != rule {
                        let pos = t.choose(v.len() + 1);
                        v.insert(pos, other);
                    }
                }
                v
            }
        };
        out.push(dl::config_text(&dl::quote_rules(&rules), &dl::generator_json(&g, span)));
    }
    out
}

fn run(ctx: &RunCtx) {
    let mut opts = GenOpts::lua51();
    opts.focus = Focus::Refactor;
    opts.avoid.const_andor_multi_tail = ctx.avoid("const-andor-multi-tail");
    opts.avoid.underscore_local = ctx.avoid("underscore-local");
    opts.avoid.local_surplus_values = ctx.avoid("group-local-surplus-values");
    let mut filters: Vec<fn(&crate::luasyn::ast::Block) -> Option<&'static str>> = vec![];
    if opts.avoid.const_andor_multi_tail {
        filters.push(common::filter_const_andor);
    }
    let spec = BehaviourSpec {
        opts,
        luau_layout: false,
        cases: ctx.tier.pick(12_000, 150_000),
        tape_len: 700,
        configs: &gen_configs,
        filters,
        nontrivial: &|s| ["local", "local_function", "method_definition", "field_function_definition", "global_function_definition", "method_call", "math_sqrt"].iter().any(|k| s.contains_key(k)),
        lua51_target: false,
    };
    common::run_behaviour(ctx, "programs", &spec);
    // the same rules on Luau programs (type annotations and casts, compound assignment, continue,
    // if-expressions, interpolated strings, `//`, const): the rules must leave those alone or carry
    // them along unchanged
    let mut luau = GenOpts::luau();
    luau.focus = spec.opts.focus;
    luau.avoid = spec.opts.avoid.clone();
    luau.avoid.interp_tostring_order = false;
    let luau_spec = BehaviourSpec { opts: luau, luau_layout: true, cases: spec.cases / 2, ..spec };
    common::run_behaviour(ctx, "luau_programs", &luau_spec);
}

fn replay(v: &Value) -> Result<(), String> {
    common::replay_behaviour(v)
}
