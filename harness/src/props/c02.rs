//! C02 — dense and readable generators emit code that means the same tree.

use crate::engine::*;
use crate::gen::syngen::{gen_tree, SynOpts};
use crate::luaprint::{self, strip_neutral_parens};
use crate::luasyn::ast::*;
use crate::luasyn::census::census;
use crate::luasyn::{self, Mode};
use crate::tape::Tape;
use darklua_core::generator::{DenseLuaGenerator, LuaGenerator, ReadableLuaGenerator};
use darklua_core::nodes as dn;
use darklua_core::process::{DefaultVisitor, NodeProcessor, NodeVisitor};
use serde_json::{json, Value};

pub fn def() -> PropDef {
    PropDef {
        id: "C02",
        rule: "darklua trees are obtained by parsing a printed reference tree with darklua's parser (token-less) and then deleting every neutral Parenthese node (expression parentheses whose content is not a call / `...`, and all type parentheses), i.e. the nesting the tree denotes is kept but the writer has to re-derive all parentheses, spaces and statement separators, as it must for trees built by rules. Systematic corpus (enumerated): every ordered pair of binary operators in both nestings, same-operator triples, unary-unary and unary-binary-unary chains, numbers / varargs / strings on both sides of `..` and `-`, long strings and tables as index keys, casts and if-expressions as operands, every statement kind followed by every statement starting with `(`, nested type forms; plus random trees from `syngen` (Lua 5.1, Luau, typed). Each tree x {dense, readable} x column spans (quick: 0 1 2 5 8 20 80 120; thorough: every span 0..=120 for the corpus). Oracle: the text parses with the independent parser (strict Lua 5.1 too when the tree has no Luau construct and the text is ASCII) to the same tree modulo neutral parentheses: same statements, operator nesting, literal values (strings by bytes, numbers by bits), call / argument shapes, types. Non-trivial = >= 2 operators or >= 2 statements or a type node.",
        assumptions: &["the meaning of a darklua tree is taken from darklua's own parse of unambiguous, fully parenthesised text", "trees the parser cannot produce at all (e.g. negative number literals) are covered by C13, not here"],
        run,
        replay,
        minimize: Some(minimize),
    }
}

fn minimize(v: &Value) -> Option<Value> {
    let text = v.get("reference")?.as_str()?;
    let g = if v.get("generator").and_then(|s| s.as_str()) == Some("Readable") { Gen::Readable } else { Gen::Dense };
    let span = v.get("span").and_then(|s| s.as_u64()).unwrap_or(80) as usize;
    let block = luasyn::parse::parse_with_options(text, Mode::Luau, luasyn::parse::ParseOptions { check_loop_context: false, check_vararg_context: false }).ok()?.block;
    let fails = |t: &str| matches!(check_text(t, g, span), Err(_));
    let reduced = crate::reduce::reduce(&block, &fails, 1500);
    let t2 = luaprint::print_plain(&reduced);
    if !fails(&t2) {
        return None;
    }
    let mut out = v.clone();
    out["reference"] = json!(t2);
    Some(out)
}

struct Strip;

impl NodeProcessor for Strip {
    fn process_expression(&mut self, expression: &mut dn::Expression) {
        loop {
            let replace = match expression {
                dn::Expression::Parenthese(p) => {
                    let inner = p.inner_expression();
                    if matches!(inner, dn::Expression::Call(_) | dn::Expression::VariableArguments(_)) {
                        None
                    } else {
                        Some(inner.clone())
                    }
                }
                _ => None,
            };
            match replace {
                Some(e) => *expression = e,
                None => break,
            }
        }
    }

    fn process_type(&mut self, r#type: &mut dn::Type) {
        loop {
            let replace = match r#type {
                dn::Type::Parenthese(p) => Some(p.get_inner_type().clone()),
                _ => None,
            };
            match replace {
                Some(t) => *r#type = t,
                None => break,
            }
        }
    }
}

#[derive(Clone, Copy, Debug, PartialEq)]
pub enum Gen {
    Dense,
    Readable,
}

pub fn write(block: &dn::Block, g: Gen, span: usize) -> String {
    match g {
        Gen::Dense => {
            let mut w = DenseLuaGenerator::new(span);
            w.write_block(block);
            w.into_string()
        }
        Gen::Readable => {
            let mut w = ReadableLuaGenerator::new(span);
            w.write_block(block);
            w.into_string()
        }
    }
}

/// Ok(Some(())) checked, Ok(None) out of domain (darklua rejects the reference text)
pub fn check_text(reference_text: &str, g: Gen, span: usize) -> Result<Option<()>, String> {
    let Ok(reference) = luasyn::parse::parse_with_options(reference_text, Mode::Luau, luasyn::parse::ParseOptions { check_loop_context: false, check_vararg_context: false }) else {
        return Ok(None);
    };
    let mut tree = match catch(|| darklua_core::Parser::default().parse(reference_text)) {
        Ok(Ok(b)) => b,
        Ok(Err(_)) => return Ok(None),
        Err(p) => return Err(format!("PANIC in darklua's parser: {}", p)),
    };
    catch(|| {
        let mut s = Strip;
        DefaultVisitor::visit_block(&mut tree, &mut s);
    })
    .map_err(|p| format!("harness: panic while stripping parentheses: {}", p))?;
    let out = catch(|| write(&tree, g, span)).map_err(|p| format!("PANIC in the {:?} generator (span {}): {}\n--- reference\n{}", g, span, p, reference_text))?;
    let parsed = luasyn::parse::parse_with_options(&out, Mode::Luau, luasyn::parse::ParseOptions { check_loop_context: false, check_vararg_context: false })
        .map_err(|e| format!("{:?} output (span {}) is not valid Luau: {} (line {})\n--- reference\n{}\n--- output\n{}", g, span, e.msg, e.line, reference_text, out))?;
    let a = strip_neutral_parens(&reference.block);
    let b = strip_neutral_parens(&parsed.block);
    if a != b {
        return Err(format!(
            "{:?} output (span {}) denotes a different tree\n--- reference (fully parenthesised)\n{}\n--- output\n{}\n--- reference tree re-printed\n{}\n--- output tree re-printed\n{}",
            g,
            span,
            reference_text,
            out,
            luaprint::print_plain(&a),
            luaprint::print_plain(&b)
        ));
    }
    // known finding unicode-escape-not-lua51: non-ASCII text is written with the Luau-only `\u{...}`
    let avoid_unicode = AVOID_UNICODE.load(std::sync::atomic::Ordering::Relaxed);
    if !census(&reference.block).any_luau() && (reference_text.is_ascii() || !avoid_unicode) && luasyn::parse(reference_text, Mode::Lua51).is_ok() {
        if let Err(e) = luasyn::parse::parse_with_options(&out, Mode::Lua51, luasyn::parse::ParseOptions { check_loop_context: false, check_vararg_context: false }) {
            return Err(format!("{:?} output (span {}) of a Lua 5.1 tree is not valid Lua 5.1: {} (line {})\n--- reference\n{}\n--- output\n{}", g, span, e.msg, e.line, reference_text, out));
        }
    }
    Ok(Some(()))
}

fn name(n: &str) -> Expr {
    Expr::Name(n.to_string())
}
fn bin(op: BinOp, a: Expr, b: Expr) -> Expr {
    Expr::Binary(op, Box::new(a), Box::new(b))
}
fn un(op: UnOp, a: Expr) -> Expr {
    Expr::Unary(op, Box::new(a))
}
fn num(raw: &str, v: f64) -> Expr {
    Expr::Number { raw: raw.into(), value: v }
}
fn st(v: &str) -> Expr {
    Expr::Str { raw: String::new(), value: v.as_bytes().to_vec() }
}
fn call(f: Expr, args: Vec<Expr>) -> Expr {
    Expr::Call { f: Box::new(f), args, sugar: CallSugar::Parens }
}
fn ret(e: Expr) -> Block {
    Block::new(vec![Stmt::Return(vec![e])])
}
fn tyname(n: &str) -> Type {
    Type::Name(TypeName { name: n.into(), params: None })
}

/// the enumerated corpus, as reference texts
pub fn corpus() -> Vec<String> {
    let mut blocks: Vec<Block> = vec![];
    let ops = BinOp::ALL;
    let uops = [UnOp::Neg, UnOp::Not, UnOp::Len];
    for a in ops {
        for b in ops {
            blocks.push(ret(bin(b, bin(a, name("a"), name("b")), name("c"))));
            blocks.push(ret(bin(a, name("a"), bin(b, name("b"), name("c")))));
            for u in uops {
                blocks.push(ret(bin(b, un(u, bin(a, name("a"), name("b"))), name("c"))));
            }
        }
        blocks.push(ret(bin(a, bin(a, bin(a, name("a"), name("b")), name("c")), name("d"))));
        blocks.push(ret(bin(a, name("a"), bin(a, name("b"), bin(a, name("c"), name("d"))))));
        for u in uops {
            blocks.push(ret(un(u, bin(a, name("a"), name("b")))));
            blocks.push(ret(bin(a, un(u, name("a")), name("b"))));
            blocks.push(ret(bin(a, name("a"), un(u, name("b")))));
            for v in uops {
                blocks.push(ret(bin(a, un(u, name("a")), un(v, name("b")))));
                blocks.push(ret(un(u, bin(a, un(v, name("a")), name("b")))));
            }
        }
        // operand kinds that invite token fusion
        let operands: Vec<Expr> = vec![
            num("1", 1.0),
            num("0.5", 0.5),
            num("1e3", 1000.0),
            num("0xff", 255.0),
            Expr::Vararg,
            st("s"),
            un(UnOp::Neg, num("1", 1.0)),
            un(UnOp::Neg, name("x")),
            Expr::Table(vec![]),
            Expr::Nil,
            Expr::True,
            st(&"long text with more than sixty characters in total, so that it gets brackets 0123456789"),
            Expr::Paren(Box::new(call(name("f"), vec![]))),
            call(name("f"), vec![]),
            Expr::IfExpr { clauses: vec![(name("c"), name("x"))], else_: Box::new(name("y")) },
            Expr::Cast { expr: Box::new(name("x")), ty: Box::new(tyname("T")) },
            Expr::Function { attrs: vec![], func: Box::new(FuncBody { generics: None, params: vec![], vararg: false, vararg_ty: None, ret_ty: None, body: Block::new(vec![]) }) },
        ];
        for x in &operands {
            for y in &operands {
                // Luau-only operands with Luau-only operators are fine; 5.1 filter happens in check
                blocks.push(ret(bin(a, x.clone(), y.clone())));
            }
        }
    }
    for u in uops {
        for v in uops {
            blocks.push(ret(un(u, un(v, name("a")))));
            for w in uops {
                blocks.push(ret(un(u, un(v, un(w, name("a"))))));
            }
        }
        blocks.push(ret(un(u, num("1", 1.0))));
        blocks.push(ret(un(u, Expr::Table(vec![]))));
        blocks.push(ret(un(u, st("s"))));
        blocks.push(ret(un(u, Expr::Vararg)));
    }
    // index keys: long strings, tables, nested indexes
    let long = "line1\nline2\nline3\nline4\nline5\nline6\nline7 and a closing ]] inside";
    for key in [st(long), st("]"), Expr::Table(vec![]), Expr::Index { obj: Box::new(name("u")), key: Box::new(num("1", 1.0)) }, un(UnOp::Neg, num("1", 1.0)), st(&"x".repeat(70))] {
        blocks.push(ret(Expr::Index { obj: Box::new(name("t")), key: Box::new(key.clone()) }));
        blocks.push(ret(Expr::Table(vec![TableItem::Keyed(key.clone(), name("v"))])));
        blocks.push(ret(call(name("f"), vec![key])));
    }
    // every statement kind followed by statements starting with `(`
    let paren_call = Stmt::Call(call(Expr::Paren(Box::new(bin(BinOp::Or, name("f"), name("g")))), vec![name("x")]));
    let paren_assign = Stmt::Assign { targets: vec![Expr::Field { obj: Box::new(Expr::Paren(Box::new(name("t")))), name: "x".into() }], values: vec![num("1", 1.0)] };
    let paren_method = Stmt::Call(Expr::MethodCall { obj: Box::new(Expr::Paren(Box::new(st("s")))), name: "rep".into(), types: None, args: vec![num("2", 2.0)], sugar: CallSugar::Parens });
    let firsts: Vec<Stmt> = vec![
        Stmt::Local { is_const: false, names: vec![Binding::new("a")], values: vec![name("b")] },
        Stmt::Local { is_const: false, names: vec![Binding::new("a")], values: vec![call(name("f"), vec![])] },
        Stmt::Local { is_const: false, names: vec![Binding::new("a")], values: vec![] },
        Stmt::Local { is_const: false, names: vec![Binding::new("a")], values: vec![bin(BinOp::Add, name("b"), Expr::Paren(Box::new(call(name("c"), vec![]))))] },
        Stmt::Local { is_const: false, names: vec![Binding::new("a")], values: vec![bin(BinOp::Or, name("b"), bin(BinOp::Or, name("c"), name("d")))] },
        Stmt::Assign { targets: vec![name("a")], values: vec![name("b")] },
        Stmt::Assign { targets: vec![name("a")], values: vec![Expr::Field { obj: Box::new(name("b")), name: "c".into() }] },
        Stmt::Assign { targets: vec![name("a")], values: vec![un(UnOp::Neg, name("b"))] },
        Stmt::Assign { targets: vec![name("a")], values: vec![st("s")] },
        Stmt::Assign { targets: vec![name("a")], values: vec![Expr::Table(vec![])] },
        Stmt::Assign { targets: vec![name("a")], values: vec![Expr::Cast { expr: Box::new(name("b")), ty: Box::new(tyname("T")) }] },
        Stmt::CompoundAssign { target: name("a"), op: BinOp::Add, value: name("b") },
        Stmt::CompoundAssign { target: name("a"), op: BinOp::Add, value: bin(BinOp::Add, name("b"), bin(BinOp::Add, name("c"), name("d"))) },
        Stmt::Call(call(name("f"), vec![])),
        Stmt::Call(Expr::Call { f: Box::new(name("f")), args: vec![st("s")], sugar: CallSugar::Str }),
        Stmt::Do(Block::new(vec![])),
        Stmt::While { cond: name("c"), body: Block::new(vec![]) },
        Stmt::Repeat { body: Block::new(vec![]), cond: name("c") },
        Stmt::Repeat { body: Block::new(vec![]), cond: call(name("c"), vec![]) },
        Stmt::If { clauses: vec![(name("c"), Block::new(vec![]))], else_: None },
        Stmt::NumFor { var: Binding::new("i"), start: num("1", 1.0), limit: num("2", 2.0), step: None, body: Block::new(vec![]) },
        Stmt::GenFor { vars: vec![Binding::new("k")], exprs: vec![name("t")], body: Block::new(vec![]) },
        Stmt::Function { attrs: vec![], name: FuncName { base: "f".into(), fields: vec![], method: None }, func: FuncBody { generics: None, params: vec![], vararg: false, vararg_ty: None, ret_ty: None, body: Block::new(vec![]) } },
        Stmt::LocalFunction { attrs: vec![], is_const: false, name: "f".into(), func: FuncBody { generics: None, params: vec![], vararg: false, vararg_ty: None, ret_ty: None, body: Block::new(vec![]) } },
        Stmt::TypeDecl { export: false, name: "T".into(), generics: None, ty: tyname("number") },
        Stmt::TypeDecl { export: false, name: "T".into(), generics: None, ty: Type::Typeof(Box::new(name("x"))) },
        Stmt::Local { is_const: false, names: vec![Binding { name: "a".into(), ty: Some(tyname("T")) }], values: vec![] },
    ];
    for f in &firsts {
        for s in [&paren_call, &paren_assign, &paren_method] {
            blocks.push(Block::new(vec![f.clone(), s.clone()]));
            blocks.push(Block::new(vec![Stmt::Do(Block::new(vec![f.clone(), s.clone()]))]));
        }
    }
    // types nested in each other
    let f_ty = |ret: ReturnType| Type::Function(Box::new(FunctionType { generics: None, params: vec![(None, tyname("A"))], variadic: None, ret: Box::new(ret) }));
    let tys: Vec<Type> = vec![
        Type::Optional(Box::new(Type::Union { leading: false, types: vec![tyname("A"), tyname("B")] })),
        Type::Optional(Box::new(f_ty(ReturnType::Type(tyname("R"))))),
        Type::Union { leading: false, types: vec![f_ty(ReturnType::Type(tyname("R"))), tyname("B")] },
        Type::Union { leading: false, types: vec![tyname("A"), Type::Intersection { leading: false, types: vec![tyname("B"), tyname("C")] }] },
        Type::Intersection { leading: false, types: vec![tyname("A"), Type::Union { leading: false, types: vec![tyname("B"), tyname("C")] }] },
        Type::Intersection { leading: false, types: vec![tyname("A"), Type::Optional(Box::new(tyname("B")))] },
        f_ty(ReturnType::Type(Type::Union { leading: false, types: vec![tyname("A"), tyname("B")] })),
        f_ty(ReturnType::Type(f_ty(ReturnType::Type(tyname("R"))))),
        f_ty(ReturnType::Pack(TypePack { types: vec![tyname("A"), tyname("B")], tail: None })),
        f_ty(ReturnType::Pack(TypePack { types: vec![], tail: None })),
        f_ty(ReturnType::Variadic(tyname("A"))),
        f_ty(ReturnType::GenericPack("R".into())),
        Type::Array(Box::new(Type::Optional(Box::new(tyname("A"))))),
        Type::Table(vec![TableTypeItem::Indexer { access: None, key: tyname("string"), value: Type::Optional(Box::new(tyname("A"))) }]),
        Type::Name(TypeName { name: "Map".into(), params: Some(vec![TypeArg::Type(f_ty(ReturnType::Type(tyname("R")))), TypeArg::Type(Type::Union { leading: false, types: vec![tyname("A"), tyname("B")] })]) }),
        Type::Optional(Box::new(Type::Optional(Box::new(tyname("A"))))),
        Type::Typeof(Box::new(bin(BinOp::Add, name("a"), name("b")))),
        Type::Union { leading: true, types: vec![Type::Str(b"a".to_vec()), Type::Str(b"b".to_vec())] },
    ];
    for t in &tys {
        blocks.push(Block::new(vec![Stmt::Local { is_const: false, names: vec![Binding { name: "a".into(), ty: Some(t.clone()) }], values: vec![name("b")] }]));
        blocks.push(Block::new(vec![Stmt::TypeDecl { export: false, name: "T".into(), generics: None, ty: t.clone() }]));
        blocks.push(ret(bin(BinOp::Lt, Expr::Cast { expr: Box::new(name("x")), ty: Box::new(t.clone()) }, name("y"))));
        blocks.push(ret(Expr::Cast { expr: Box::new(bin(BinOp::Add, name("x"), name("y"))), ty: Box::new(t.clone()) }));
    }
    blocks.iter().map(luaprint::print_plain).collect()
}

const QUICK_SPANS: [usize; 8] = [0, 1, 2, 5, 8, 20, 80, 120];

static AVOID_UNICODE: std::sync::atomic::AtomicBool = std::sync::atomic::AtomicBool::new(false);

/// C13 documents the `\\u{...}` spelling of non-ASCII text as allowed for literals: its use of
/// check_text never demands Lua 5.1 text for them
pub fn allow_unicode_escape_for_non_ascii_text() {
    AVOID_UNICODE.store(true, std::sync::atomic::Ordering::Relaxed);
}

fn run(ctx: &RunCtx) {
    AVOID_UNICODE.store(ctx.avoid("unicode-escape-not-lua51"), std::sync::atomic::Ordering::Relaxed);
    static CORPUS: std::sync::OnceLock<Vec<String>> = std::sync::OnceLock::new();
    let corp = CORPUS.get_or_init(corpus);
    ctx.add_class("corpus_trees", corp.len() as u64);
    let spans: Vec<usize> = match ctx.tier {
        Tier::Quick => QUICK_SPANS.to_vec(),
        Tier::Thorough => (0..=120).collect(),
    };
    let per = 2 * spans.len() as u64;
    ctx.enumerate("corpus", corp.len() as u64 * per, |i, st| {
        let text = &corp[(i / per) as usize];
        let r = i % per;
        let g = if r % 2 == 0 { Gen::Dense } else { Gen::Readable };
        let span = spans[(r / 2) as usize];
        if i % 9973 == 0 {
            st.sample(|| json!({"reference": text, "generator": format!("{:?}", g), "span": span}));
        }
        match check_text(text, g, span) {
            Ok(None) => CaseResult::Discard("darklua rejects the reference text"),
            Ok(Some(())) => CaseResult::Pass { nontrivial: Some(hash_parts(&[text.as_bytes(), &[r as u8]])) },
            Err(m) => CaseResult::Fail(Failure::new(m, json!({"reference": text, "generator": format!("{:?}", g), "span": span}))),
        }
    });
    ctx.exhaustive.store(true, std::sync::atomic::Ordering::Relaxed);
    let n = ctx.tier.pick(30_000, 1_000_000);
    ctx.search("random_trees", n, 500, |tape, st| {
        let mut t = Tape::new(tape);
        let mode = t.weighted(&[3, 3, 4]);
        let block = match mode {
            0 => gen_tree(&mut t, &SynOpts::lua51()).0,
            1 => {
                let mut o = SynOpts::luau();
                o.types = false;
                gen_tree(&mut t, &o).0
            }
            _ => gen_tree(&mut t, &SynOpts::luau()).0,
        };
        let text = luaprint::print_plain(&block);
        let g = if t.bool(128) { Gen::Dense } else { Gen::Readable };
        let span = if t.bool(100) { t.choose(121) } else { *t.pick(&QUICK_SPANS) };
        st.class(["lua51", "luau_untyped", "luau_typed"][mode]);
        st.sample(|| json!({"reference": text, "generator": format!("{:?}", g), "span": span}));
        let c = census(&block);
        let nt = c.max_nesting >= 4 || block.stmts.len() >= 2 || c.has_types();
        match check_text(&text, g, span) {
            Ok(None) => CaseResult::Discard("darklua rejects the reference text"),
            Ok(Some(())) => CaseResult::Pass { nontrivial: nt.then(|| hash_parts(&[text.as_bytes(), &[span as u8, g as u8]])) },
            Err(m) => CaseResult::Fail(Failure::new(m, json!({"reference": text, "generator": format!("{:?}", g), "span": span}))),
        }
    });
}

fn replay(v: &Value) -> Result<(), String> {
    let text = v.get("reference").and_then(|s| s.as_str()).ok_or("malformed C02 replay")?;
    let g = if v.get("generator").and_then(|s| s.as_str()) == Some("Readable") { Gen::Readable } else { Gen::Dense };
    let span = v.get("span").and_then(|s| s.as_u64()).unwrap_or(80) as usize;
    check_text(text, g, span).map(|_| ())
}
