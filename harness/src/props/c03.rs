//! C03 — retain_lines with no rules reproduces the source byte for byte.

use crate::dl;
use crate::engine::*;
use crate::gen::progen::{gen_program, GenOpts};
use crate::gen::syngen::{gen_tree, SynOpts};
use crate::luaprint::{self, LayoutOpts};
use crate::luasyn::{self, Mode};
use crate::tape::Tape;
use serde_json::{json, Value};

pub fn def() -> PropDef {
    PropDef {
        id: "C03",
        rule: "source texts = trees from `syngen` (every statement / expression / type form; Lua 5.1, Luau and typed surfaces) and executable programs from `progen`, printed by `luaprint` with generated layout (comments of every kind in every trivia position, CRLF/LF/mixed, tabs, `;`, blank lines, literal respelling, call sugar, no trailing newline, comment at EOF, empty file), plus the Lua files of the repository's tests verbatim and re-laid-out. Oracle: process with `{rules: []}` (retain_lines): no type syntax (independent census) => output bytes == input bytes; with type syntax => texts cut at the type spans located by the independent parser must be byte-identical outside and equal modulo parentheses and whitespace inside. Inputs darklua rejects are discarded (counted). Non-trivial = >= 5 tokens and >= 3 distinct trivia kinds, or a respelled literal; distinct by text.",
        assumptions: &["type spans are located by the harness's own parser (luasyn)", "sources are valid UTF-8 (Resources::get returns String)"],
        run,
        replay,
        minimize: None,
    }
}

const EMPTY_RULES: &str = "{ rules: [] }";

/// known finding "adjacent-closing-brackets": two `]` tokens written next to each other
/// (`t[u[1]]`) get a space inserted (`t[u[1] ]`)
pub fn has_adjacent_closing_brackets(source: &str) -> bool {
    let Ok(l) = luasyn::lex::lex(source, Mode::Luau) else { return false };
    // a `]` token directly preceded by a `]` character (another bracket, or the end of a long
    // string / long comment)
    let b = source.as_bytes();
    l.tokens.iter().any(|t| t.text == "]" && t.start > 0 && b[t.start - 1] == b']')
}

/// known finding "pack-ellipsis-trivia": a comment next to a `...` token inside type syntax
pub fn has_comment_next_to_type_ellipsis(source: &str) -> bool {
    let Ok(p) = relaxed_parse(source) else { return false };
    for (i, t) in p.tokens.iter().enumerate() {
        if t.text != "..." || !p.type_spans.iter().any(|(a, b)| t.start >= *a && t.end <= *b) {
            continue;
        }
        let prev_end = if i > 0 { p.tokens[i - 1].end } else { 0 };
        let next_start = p.tokens.get(i + 1).map(|n| n.start).unwrap_or(source.len());
        if p.comments.iter().any(|c| (c.start >= prev_end && c.end <= t.start) || (c.start >= t.end && c.end <= next_start)) {
            return true;
        }
    }
    false
}

fn strip_parens_ws(s: &str) -> String {
    s.chars().filter(|c| !matches!(c, '(' | ')' | ' ' | '\t' | '\r' | '\n')).collect()
}

pub fn check_identity(source: &str) -> Result<Option<bool>, String> {
    // Some(has_types) = compared; None = darklua rejects the input (out of domain)
    let out = match dl::process_one(source, EMPTY_RULES) {
        Ok(o) => o,
        Err(dl::DlError::Panic(p)) => return Err(format!("PANIC {}", p)),
        Err(dl::DlError::Process(errs)) => {
            if let Ok(f) = std::env::var("VERIF_LOG_REJECTS") {
                use std::io::Write;
                if let Ok(mut fh) = std::fs::OpenOptions::new().create(true).append(true).open(f) {
                    let _ = writeln!(fh, "{:?}\n{}\n=====", errs, source);
                }
            }
            // the parser dependency reads `{ ["lit" | T]: V }` / `["lit"?]` as a string-key property and
            // rejects it: the only family of valid inputs darklua is known to refuse (counted as a
            // discard). Any other refusal of a text the independent parser accepts means that the
            // file cannot be processed at all: nothing is written, so nothing is reproduced.
            let known_limit = errs.iter().any(|e| e.contains("for type table field"));
            if !known_limit && crate::luasyn::parse(source, Mode::Luau).is_ok() {
                return Err(format!("darklua refuses a valid program (accepted by the independent parser): {}", errs.join(" | ")));
            }
            return Ok(None);
        }
        Err(e) => return Err(format!("{}", e)),
    };
    if out == source {
        // identical bytes satisfy both clauses of the property
        let has_types = relaxed_parse(source).map(|p| !p.type_spans.is_empty()).unwrap_or(false);
        return Ok(Some(has_types));
    }
    let parsed = relaxed_parse(source).map_err(|e| format!("output differs from input and the harness parser cannot locate type syntax in the input ({} at line {})\n{}", e.msg, e.line, diff_message(source, &out)))?;
    if parsed.type_spans.is_empty() {
        if out != source {
            return Err(diff_message(source, &out));
        }
        return Ok(Some(false));
    }
    let out_parsed = relaxed_parse(&out).map_err(|e| format!("output with type syntax does not parse: {} (line {})", e.msg, e.line))?;
    let a = &parsed.type_spans;
    let b = &out_parsed.type_spans;
    if a.len() != b.len() {
        return Err(format!("number of type annotations changed ({} -> {})\n{}", a.len(), b.len(), diff_message(source, &out)));
    }
    let mut pa = 0usize;
    let mut pb = 0usize;
    // white space touching an annotation is the trivia of the annotation's own tokens
    let ws: &[char] = &[' ', '\t', '\r', '\n'];
    for i in 0..a.len() {
        let mut sa = source[pa..a[i].0].trim_end_matches(ws);
        let mut sb = out[pb..b[i].0].trim_end_matches(ws);
        if i > 0 {
            sa = sa.trim_start_matches(ws);
            sb = sb.trim_start_matches(ws);
        }
        if sa != sb {
            return Err(format!("text outside type annotations changed before annotation #{}:\n  input:  {:?}\n  output: {:?}", i + 1, sa, sb));
        }
        let ta = &source[a[i].0..a[i].1];
        let tb = &out[b[i].0..b[i].1];
        if strip_parens_ws(ta) != strip_parens_ws(tb) {
            return Err(format!("type annotation #{} changed beyond parentheses and spacing:\n  input:  {:?}\n  output: {:?}", i + 1, ta, tb));
        }
        pa = a[i].1;
        pb = b[i].1;
    }
    if source[pa..].trim_start_matches(ws) != out[pb..].trim_start_matches(ws) {
        return Err(format!("text after the last type annotation changed:\n  input:  {:?}\n  output: {:?}", &source[pa..], &out[pb..]));
    }
    Ok(Some(true))
}

fn relaxed_parse(s: &str) -> Result<luasyn::parse::ParseOutput, luasyn::SynError> {
    luasyn::parse::parse_with_options(s, Mode::Luau, luasyn::parse::ParseOptions { check_loop_context: false, check_vararg_context: false })
}

fn diff_message(a: &str, b: &str) -> String {
    let ab = a.as_bytes();
    let bb = b.as_bytes();
    let mut i = 0;
    while i < ab.len() && i < bb.len() && ab[i] == bb[i] {
        i += 1;
    }
    let lo = i.saturating_sub(30);
    let ctx = |s: &[u8]| String::from_utf8_lossy(&s[lo.min(s.len())..(i + 30).min(s.len())]).to_string();
    format!("output differs from input at byte {} (input {} bytes, output {} bytes)\n  input:  {:?}\n  output: {:?}", i, ab.len(), bb.len(), ctx(ab), ctx(bb))
}

fn corpus_files(ctx: &RunCtx) -> Vec<(String, String)> {
    let mut v = vec![];
    if let Ok(rd) = std::fs::read_dir(ctx.verif_dir.join("corpus/lua")) {
        let mut paths: Vec<_> = rd.flatten().map(|e| e.path()).collect();
        paths.sort();
        for p in paths {
            if let Ok(s) = std::fs::read_to_string(&p) {
                v.push((p.file_name().unwrap().to_string_lossy().to_string(), s));
            }
        }
    }
    v
}

fn run(ctx: &RunCtx) {
    let avoid_brackets = ctx.avoid("adjacent-closing-brackets");
    let avoid_ellipsis = ctx.avoid("pack-ellipsis-trivia");
    // committed corpus, verbatim
    let corpus = corpus_files(ctx);
    ctx.enumerate("corpus", corpus.len() as u64, |i, st| {
        let (name, text) = &corpus[i as usize];
        st.class("corpus_file");
        if avoid_brackets && has_adjacent_closing_brackets(text) {
            return CaseResult::Discard("avoided: known finding adjacent-closing-brackets");
        }
        match check_identity(text) {
            Ok(None) => CaseResult::Discard("darklua rejects the input"),
            Ok(Some(_)) => CaseResult::Pass { nontrivial: Some(hash_str(text)) },
            Err(m) => CaseResult::Fail(Failure::new(format!("corpus file {}: {}", name, m), json!({"source": text}))),
        }
    });
    let n = ctx.tier.pick(40_000, 1_500_000);
    ctx.search("generated", n, 600, |tape, st| {
        let mut t = Tape::new(tape);
        let mode = t.weighted(&[3, 3, 3, 2, 1]);
        let (block, luau) = match mode {
            0 => (gen_tree(&mut t, &SynOpts::lua51()).0, false),
            1 => {
                let mut o = SynOpts::luau();
                o.types = false;
                (gen_tree(&mut t, &o).0, true)
            }
            2 => (gen_tree(&mut t, &SynOpts::luau()).0, true),
            3 => (gen_program(&mut t, &GenOpts::luau()).block, true),
            _ => {
                // re-layout of a corpus file
                if corpus.is_empty() {
                    return CaseResult::Discard("no corpus");
                }
                let (_, text) = &corpus[t.choose(corpus.len())];
                match luasyn::parse(text, Mode::Luau) {
                    Ok(p) => (p.block, true),
                    Err(_) => return CaseResult::Discard("corpus file not parsable by luasyn"),
                }
            }
        };
        st.class(["syn_lua51", "syn_luau_untyped", "syn_luau_typed", "progen_luau", "corpus_relayout"][mode]);
        let mut lo = LayoutOpts::all(luau);
        lo.trailing_newline = t.bool(200);
        let (source, ls) = luaprint::print_layout_stats(&block, &mut t, &lo);
        // harness self-check: the text must parse back to the same tree
        let Ok(parsed) = luasyn::parse(&source, if luau { Mode::Luau } else { Mode::Lua51 }) else {
            return CaseResult::Discard("harness: printed text does not parse (printer/parser gap)");
        };
        let tokens = parsed.tokens.len();
        if avoid_brackets && has_adjacent_closing_brackets(&source) {
            return CaseResult::Discard("avoided: known finding adjacent-closing-brackets");
        }
        if avoid_ellipsis && has_comment_next_to_type_ellipsis(&source) {
            return CaseResult::Discard("avoided: known finding pack-ellipsis-trivia");
        }
        st.class_n("comments", ls.comments as u64);
        if ls.crlf {
            st.class("crlf");
        }
        if !source.ends_with('\n') {
            st.class("no_trailing_newline");
        }
        st.sample(|| json!({"source": source}));
        match check_identity(&source) {
            Ok(None) => CaseResult::Discard("darklua rejects the input"),
            Ok(Some(has_types)) => {
                if has_types {
                    st.class("with_type_syntax");
                }
                let nt = (tokens >= 5 && ls.trivia_kinds >= 3) || ls.respelled > 0;
                CaseResult::Pass { nontrivial: nt.then(|| hash_str(&source)) }
            }
            Err(m) => CaseResult::Fail(Failure::new(m, json!({"source": source}))),
        }
    });
}

fn replay(v: &Value) -> Result<(), String> {
    let source = v.get("source").and_then(|s| s.as_str()).ok_or("malformed C03 replay")?;
    check_identity(source).map(|_| ())
}
