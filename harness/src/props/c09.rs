//! C09 — renaming variables never changes which binding a name refers to.
//!
//! Oracle: the program before and after `rename_variables` is parsed with the independent parser;
//! both trees are *canonicalised* by an independent scoped walk that replaces every occurrence of
//! a local variable (declarations, uses, assignment targets, bases of function statements, and
//! the namespace of a qualified type `m.T` when `m` is a local) by `@L<index of its declaration>`
//! and leaves everything else alone (globals, field / method / type names, table keys, `self` of
//! a method).  The two canonical trees must be equal: that is "the same program up to consistent
//! renaming of locals".  The occurrence lists are cross-checked against `luasyn::resolve`.
//! On top of that every NEW name must be an identifier, not a keyword, not a listed global, not a
//! global the file uses anywhere, and `local function` names stay when `include_functions` is off.

use crate::dl;
use crate::engine::*;
use crate::gen::progen::{gen_program, GenOpts};
use crate::gen::scopegen::{gen_many_locals, gen_scoped, ManyOpts, ScopeOpts};
use crate::gen::syngen::{gen_tree, SynOpts};
use crate::luaprint::{self, LayoutOpts};
use crate::luasyn::ast::*;
use crate::luasyn::resolve::Role;
use crate::luasyn::{self, Mode};
use crate::tape::Tape;
use serde_json::{json, Value};
use std::collections::{BTreeMap, BTreeSet, HashMap};

pub fn def() -> PropDef {
    PropDef {
        id: "C09",
        rule: "programs = (a) arbitrary syntax trees from `syngen` (Lua 5.1 / typed Luau) and executable programs from `progen`; (b) `scopegen` scoping stress: nested closures capturing outer locals, shadowing in do / while / repeat-until (condition reads body locals) / numeric and generic for / if / function parameters / `local function` self reference / `local x = x`, names redeclared after their scope closed, locals named like globals the file uses earlier or later (print, math, a, b, aa ...), methods with implicit self, annotations mentioning local modules (`m.T`) and `typeof(local)`, type functions; (c) many-locals texts: 70-400 (thorough: up to 60 000) simultaneously live locals spread over nested functions (<= 190 per function, upvalues keep them live; some with > 200 in one function), with globals / configured globals named like the 1-3 character names darklua generates (reaching the keyword candidates do if in or, and in thorough `and end for nil not`). Every program is processed with 4 configurations: include_functions in {false,true} x two `globals` lists drawn from {omitted, $default, $roblox, random lists with names the program uses as globals / as locals / short generated-looking names}; generator retain_lines, dense or readable (reference for dense / readable = darklua's output with no rule). Oracle: canonical trees (locals replaced by declaration index by an independent resolver) of input and output are equal, new names are identifiers, not keywords, not listed globals, not globals used anywhere in the file; local function names unchanged without include_functions; output parses. Inputs darklua rejects and inputs whose function header `typeof` mentions the function's own parameters / name / self (scoping disputed between references) are discarded. Non-trivial = (>= 1 declaration shadowing a visible local AND >= 1 generated name given again after the scope of its previous holder closed) OR >= 64 simultaneously visible locals; distinct by (source, configuration).",
        assumptions: &[
            "lexical scoping of the harness's resolver (luasyn::resolve) extended with: the namespace of a qualified type refers to the visible local of that name",
            "for dense / readable generators the reference program is darklua's own output with an empty rule list (generator faithfulness is C02 / C13)",
            "`$default` / `$roblox` expand to the lists printed in site/content/rules/rename_variables.md",
        ],
        run,
        replay,
        minimize: Some(minimize),
    }
}

// ------------------------------------------------------------------------------------------
// canonicalisation
// ------------------------------------------------------------------------------------------

#[derive(Clone, Debug, PartialEq, Eq)]
pub enum ORole {
    Var(Role),
    /// `m` of a qualified type `m.T`
    Namespace,
}

#[derive(Clone, Debug)]
pub struct Occ {
    pub name: String,
    pub role: ORole,
    pub decl: Option<usize>,
}

#[derive(Clone, Debug, Default)]
pub struct ScopeStats {
    pub decls: usize,
    /// declarations whose name is the name of a local visible at that point, by scope kind
    pub shadow: BTreeMap<&'static str, u32>,
    pub shadow_pairs: u32,
    /// declarations whose name was the name of a local whose scope is already closed
    pub redeclared_after_close: u32,
    pub max_live: usize,
    pub captured_uses: u32,
    pub repeat_cond_reads_body_local: u32,
    pub namespace_local: u32,
    pub typeof_local: u32,
    pub implicit_self_uses: u32,
    pub local_function_self_ref: u32,
    /// a `typeof` in a function header mentions a parameter / self / the function's own name
    pub disputed: bool,
    /// a `typeof` in the annotation of a generic-for variable mentions a variable of that loop
    pub genfor_annotation_mentions_own_var: bool,
    /// a parameter of a `type function` has the name of a local visible at that statement
    pub type_function_param_shadows_local: bool,
    pub type_functions: u32,
}

struct Binding_ {
    name: String,
    id: usize,
    implicit_self: bool,
    /// depth of enclosing functions at the declaration
    fdepth: usize,
    local_func: bool,
}

struct Canon {
    occ: Vec<Occ>,
    decls: usize,
    scopes: Vec<(Vec<Binding_>, &'static str)>,
    /// name -> stack of (scope index, index in scope) of its visible bindings
    by_name: HashMap<String, Vec<(usize, usize)>>,
    headers: Vec<Vec<String>>,
    genfor_headers: Vec<Vec<String>>,
    closed: BTreeSet<String>,
    live: usize,
    fdepth: usize,
    in_typeof: usize,
    repeat_cond_scope: Vec<usize>,
    /// names of the local functions whose body is being walked
    st: ScopeStats,
}

fn lname(id: usize) -> String {
    format!("@L{}", id)
}

impl Canon {
    fn push(&mut self, kind: &'static str) {
        self.scopes.push((Vec::new(), kind));
    }

    fn pop(&mut self) {
        if let Some((v, _)) = self.scopes.pop() {
            self.live -= v.len();
            for b in v.into_iter().rev() {
                if let Some(stack) = self.by_name.get_mut(&b.name) {
                    stack.pop();
                }
                self.closed.insert(b.name);
            }
        }
    }

    /// innermost visible binding of `name` and the index of its scope
    fn lookup(&self, name: &str) -> Option<(&Binding_, usize)> {
        let (si, bi) = *self.by_name.get(name)?.last()?;
        Some((&self.scopes[si].0[bi], si))
    }

    /// records a declaring occurrence and rewrites the name; NOT yet visible
    fn declare(&mut self, name: &mut String, role: Role) -> (String, usize) {
        let id = self.decls;
        self.decls += 1;
        let orig = std::mem::replace(name, lname(id));
        self.occ.push(Occ { name: orig.clone(), role: ORole::Var(role), decl: Some(id) });
        if self.closed.contains(&orig) {
            self.st.redeclared_after_close += 1;
        }
        (orig, id)
    }

    fn declare_self(&mut self) -> usize {
        let id = self.decls;
        self.decls += 1;
        self.occ.push(Occ { name: "self".into(), role: ORole::Var(Role::ImplicitSelf), decl: Some(id) });
        id
    }

    fn bind(&mut self, name: &str, id: usize, implicit_self: bool, local_func: bool) {
        if self.lookup(name).is_some() {
            self.st.shadow_pairs += 1;
            let kind = self.scopes.last().map(|s| s.1).unwrap_or("chunk");
            *self.st.shadow.entry(kind).or_insert(0) += 1;
        }
        let fdepth = self.fdepth;
        let si = self.scopes.len() - 1;
        let bi = self.scopes[si].0.len();
        self.by_name.entry(name.to_string()).or_default().push((si, bi));
        self.scopes[si].0.push(Binding_ { name: name.to_string(), id, implicit_self, fdepth, local_func });
        self.live += 1;
        self.st.max_live = self.st.max_live.max(self.live);
    }

    fn reference(&mut self, name: &mut String, role: ORole) {
        if self.headers.iter().any(|h| h.iter().any(|n| n == name)) {
            self.st.disputed = true;
        }
        if self.genfor_headers.iter().any(|h| h.iter().any(|n| n == name)) {
            self.st.genfor_annotation_mentions_own_var = true;
        }
        let found = self.lookup(name).map(|(b, si)| (b.id, b.implicit_self, b.fdepth, b.local_func, si));
        match found {
            Some((id, implicit_self, fdepth, local_func, si)) => {
                self.occ.push(Occ { name: name.clone(), role: role.clone(), decl: Some(id) });
                if fdepth < self.fdepth {
                    self.st.captured_uses += 1;
                    if local_func {
                        self.st.local_function_self_ref += 1;
                    }
                }
                if self.repeat_cond_scope.last() == Some(&si) {
                    self.st.repeat_cond_reads_body_local += 1;
                }
                if role == ORole::Namespace {
                    self.st.namespace_local += 1;
                } else if self.in_typeof > 0 {
                    self.st.typeof_local += 1;
                }
                if implicit_self {
                    // `self` of a method has no declaring token: it must stay `self`
                    self.st.implicit_self_uses += 1;
                } else {
                    *name = lname(id);
                }
            }
            None => self.occ.push(Occ { name: name.clone(), role, decl: None }),
        }
    }

    fn block(&mut self, b: &mut Block, kind: &'static str) {
        self.push(kind);
        self.block_noscope(b);
        self.pop();
    }

    fn block_noscope(&mut self, b: &mut Block) {
        for s in &mut b.stmts {
            self.stmt(s);
        }
    }

    fn opt_ty(&mut self, t: &mut Option<Type>) {
        if let Some(t) = t {
            self.ty(t);
        }
    }

    fn attrs(&mut self, attrs: &mut [Attribute]) {
        for a in attrs {
            if let Attribute::Group(elems) = a {
                for e in elems {
                    match &mut e.args {
                        Some(AttributeArgs::Tuple(v)) => {
                            for x in v {
                                self.expr(x);
                            }
                        }
                        Some(AttributeArgs::Table(t)) => self.expr(t),
                        Some(AttributeArgs::Str(_)) | None => {}
                    }
                }
            }
        }
    }

    fn func(&mut self, f: &mut FuncBody, implicit_self: bool, own_name: Option<&str>) {
        self.push("function");
        self.fdepth += 1;
        let mut hdr: Vec<String> = f.params.iter().map(|p| p.name.clone()).collect();
        if implicit_self {
            hdr.push("self".into());
        }
        if let Some(n) = own_name {
            hdr.push(n.to_string());
        }
        self.headers.push(hdr);
        if implicit_self {
            let id = self.declare_self();
            self.bind("self", id, true, false);
        }
        for p in &mut f.params {
            let (orig, id) = self.declare(&mut p.name, Role::Param);
            self.opt_ty(&mut p.ty);
            self.bind(&orig, id, false, false);
        }
        if let Some(v) = &mut f.vararg_ty {
            if let VariadicAnnotation::Type(t) = &mut **v {
                self.ty(t);
            }
        }
        if let Some(r) = &mut f.ret_ty {
            self.ret(r);
        }
        self.headers.pop();
        self.block_noscope(&mut f.body);
        self.fdepth -= 1;
        self.pop();
    }

    fn stmt(&mut self, s: &mut Stmt) {
        match s {
            Stmt::Local { is_const: _, names, values } => {
                let mut ids = Vec::with_capacity(names.len());
                for n in names.iter_mut() {
                    ids.push(self.declare(&mut n.name, Role::LocalDecl));
                    self.opt_ty(&mut n.ty);
                }
                for v in values {
                    self.expr(v);
                }
                for (orig, id) in ids {
                    self.bind(&orig, id, false, false);
                }
            }
            Stmt::Assign { targets, values } => {
                for t in targets {
                    self.target(t);
                }
                for v in values {
                    self.expr(v);
                }
            }
            Stmt::CompoundAssign { target, op: _, value } => {
                self.target(target);
                self.expr(value);
            }
            Stmt::Call(e) => self.expr(e),
            Stmt::Do(b) => self.block(b, "do"),
            Stmt::While { cond, body } => {
                self.expr(cond);
                self.block(body, "while");
            }
            Stmt::Repeat { body, cond } => {
                self.push("repeat");
                self.block_noscope(body);
                self.repeat_cond_scope.push(self.scopes.len() - 1);
                self.expr(cond);
                self.repeat_cond_scope.pop();
                self.pop();
            }
            Stmt::If { clauses, else_ } => {
                for (c, b) in clauses {
                    self.expr(c);
                    self.block(b, "if");
                }
                if let Some(b) = else_ {
                    self.block(b, "if");
                }
            }
            Stmt::NumFor { var, start, limit, step, body } => {
                let (orig, id) = self.declare(&mut var.name, Role::ForVar);
                self.opt_ty(&mut var.ty);
                self.expr(start);
                self.expr(limit);
                if let Some(s) = step {
                    self.expr(s);
                }
                self.push("numeric_for");
                self.bind(&orig, id, false, false);
                self.block_noscope(body);
                self.pop();
            }
            Stmt::GenFor { vars, exprs, body } => {
                let mut ids = Vec::with_capacity(vars.len());
                self.genfor_headers.push(vars.iter().map(|v| v.name.clone()).collect());
                for v in vars.iter_mut() {
                    ids.push(self.declare(&mut v.name, Role::ForVar));
                    self.opt_ty(&mut v.ty);
                }
                self.genfor_headers.pop();
                for e in exprs {
                    self.expr(e);
                }
                self.push("generic_for");
                for (orig, id) in ids {
                    self.bind(&orig, id, false, false);
                }
                self.block_noscope(body);
                self.pop();
            }
            Stmt::Function { attrs, name, func } => {
                self.attrs(attrs);
                self.reference(&mut name.base, ORole::Var(Role::FuncStmtBase));
                self.func(func, name.method.is_some(), None);
            }
            Stmt::LocalFunction { attrs, is_const: _, name, func } => {
                self.attrs(attrs);
                let (orig, id) = self.declare(name, Role::LocalFuncName);
                self.bind(&orig, id, false, true);
                self.func(func, false, Some(&orig));
            }
            Stmt::Return(v) => {
                for e in v {
                    self.expr(e);
                }
            }
            Stmt::Break | Stmt::Continue => {}
            Stmt::TypeDecl { export: _, name: _, generics, ty } => {
                if let Some(g) = generics {
                    for (_, d) in &mut g.types {
                        self.opt_ty(d);
                    }
                    for (_, d) in &mut g.packs {
                        match d {
                            Some(GenericPackDefault::Pack(p)) => self.pack(p),
                            Some(GenericPackDefault::Variadic(t)) => self.ty(t),
                            Some(GenericPackDefault::GenericPack(_)) | None => {}
                        }
                    }
                }
                self.ty(ty);
            }
            Stmt::TypeFunction { export: _, name: _, func } => {
                self.st.type_functions += 1;
                if func.params.iter().any(|p| self.lookup(&p.name).is_some()) {
                    self.st.type_function_param_shadows_local = true;
                }
                self.func(func, false, None)
            }
        }
    }

    fn target(&mut self, t: &mut Expr) {
        match t {
            Expr::Name(n) => self.reference(n, ORole::Var(Role::AssignTarget)),
            other => self.expr(other),
        }
    }

    fn expr(&mut self, e: &mut Expr) {
        match e {
            Expr::Nil | Expr::True | Expr::False | Expr::Vararg | Expr::Number { .. } | Expr::Str { .. } => {}
            Expr::Name(n) => self.reference(n, ORole::Var(Role::Use)),
            Expr::Interp(segs) => {
                for s in segs {
                    if let InterpSeg::Expr(x) = s {
                        self.expr(x);
                    }
                }
            }
            Expr::Index { obj, key } => {
                self.expr(obj);
                self.expr(key);
            }
            Expr::Field { obj, .. } => self.expr(obj),
            Expr::Call { f, args, .. } => {
                self.expr(f);
                for a in args {
                    self.expr(a);
                }
            }
            Expr::MethodCall { obj, args, .. } => {
                self.expr(obj);
                for a in args {
                    self.expr(a);
                }
            }
            Expr::Function { attrs, func } => {
                self.attrs(attrs);
                self.func(func, false, None);
            }
            Expr::Paren(x) | Expr::Unary(_, x) => self.expr(x),
            Expr::Binary(_, a, b) => {
                self.expr(a);
                self.expr(b);
            }
            Expr::Table(items) => {
                for it in items {
                    match it {
                        TableItem::Pos(v) | TableItem::Named(_, v) => self.expr(v),
                        TableItem::Keyed(k, v) => {
                            self.expr(k);
                            self.expr(v);
                        }
                    }
                }
            }
            Expr::IfExpr { clauses, else_ } => {
                for (c, v) in clauses {
                    self.expr(c);
                    self.expr(v);
                }
                self.expr(else_);
            }
            Expr::Cast { expr, ty } => {
                self.expr(expr);
                self.ty(ty);
            }
            Expr::Instantiate { expr, types } => {
                self.expr(expr);
                for t in types {
                    self.type_arg(t);
                }
            }
        }
    }

    // types: `typeof(e)` and the namespace of `m.T`; parentheses and one-element packs are
    // normalised away (darklua's generators re-derive them, see C03 / C18)

    fn type_arg(&mut self, a: &mut TypeArg) {
        match a {
            TypeArg::Type(t) => self.ty(t),
            TypeArg::Pack(p) => {
                self.pack(p);
                if p.types.len() == 1 && p.tail.is_none() {
                    let t = p.types.pop().unwrap();
                    *a = TypeArg::Type(t);
                }
            }
            TypeArg::Variadic(t) => self.ty(t),
            TypeArg::GenericPack(_) => {}
        }
    }

    fn tail(&mut self, t: &mut Option<Box<VariadicAnnotationPack>>) {
        if let Some(t) = t {
            if let VariadicAnnotationPack::Variadic(t) = &mut **t {
                self.ty(t);
            }
        }
    }

    fn pack(&mut self, p: &mut TypePack) {
        for t in &mut p.types {
            self.ty(t);
        }
        self.tail(&mut p.tail);
    }

    fn ret(&mut self, r: &mut ReturnType) {
        match r {
            ReturnType::Type(t) | ReturnType::Variadic(t) => self.ty(t),
            ReturnType::Pack(p) => {
                self.pack(p);
                if p.types.len() == 1 && p.tail.is_none() {
                    let t = p.types.pop().unwrap();
                    *r = ReturnType::Type(t);
                }
            }
            ReturnType::GenericPack(_) => {}
        }
    }

    fn type_name(&mut self, n: &mut TypeName) {
        if let Some(ps) = &mut n.params {
            for p in ps {
                self.type_arg(p);
            }
        }
    }

    fn ty(&mut self, t: &mut Type) {
        while let Type::Paren(inner) = t {
            let inner = std::mem::replace(&mut **inner, Type::Nil);
            *t = inner;
        }
        match t {
            Type::Name(n) => self.type_name(n),
            Type::Qualified { namespace, name } => {
                self.reference(namespace, ORole::Namespace);
                self.type_name(name);
            }
            Type::True | Type::False | Type::Nil | Type::Str(_) => {}
            Type::Array(t) | Type::Optional(t) => self.ty(t),
            Type::Paren(_) => unreachable!(),
            Type::Table(items) => {
                for it in items {
                    match it {
                        TableTypeItem::Prop { ty, .. } | TableTypeItem::StrProp { ty, .. } => self.ty(ty),
                        TableTypeItem::Indexer { key, value, .. } => {
                            self.ty(key);
                            self.ty(value);
                        }
                    }
                }
            }
            Type::Typeof(e) => {
                self.in_typeof += 1;
                self.expr(e);
                self.in_typeof -= 1;
            }
            Type::Function(f) => {
                for (_, t) in &mut f.params {
                    self.ty(t);
                }
                self.tail(&mut f.variadic);
                self.ret(&mut f.ret);
            }
            Type::Union { leading, types } | Type::Intersection { leading, types } => {
                *leading = false;
                for t in types {
                    self.ty(t);
                }
            }
        }
    }
}

/// above this many declarations the cross-check against `luasyn::resolve` is skipped (quadratic)
pub const SELF_CHECK_MAX_DECLS: usize = 6000;

pub struct Canonical {
    pub block: Block,
    pub occ: Vec<Occ>,
    pub stats: ScopeStats,
}

pub fn canonicalise(b: &Block) -> Canonical {
    let mut block = b.clone();
    let mut c = Canon {
        occ: vec![],
        decls: 0,
        scopes: vec![],
        by_name: HashMap::new(),
        headers: vec![],
        genfor_headers: vec![],
        closed: BTreeSet::new(),
        live: 0,
        fdepth: 0,
        in_typeof: 0,
        repeat_cond_scope: vec![],
        st: ScopeStats::default(),
    };
    c.block(&mut block, "chunk");
    c.st.decls = c.decls;
    // harness self-check: the variable occurrences are exactly those of luasyn's resolver
    // (its lookup is linear in the number of visible locals: skipped for the few giant inputs)
    if c.decls > SELF_CHECK_MAX_DECLS {
        return Canonical { block, occ: c.occ, stats: c.st };
    }
    let r = luasyn::resolve::resolve(b);
    let mine: Vec<(&str, &Role, Option<usize>)> = c
        .occ
        .iter()
        .filter_map(|o| match &o.role {
            ORole::Var(r) => Some((o.name.as_str(), r, o.decl)),
            ORole::Namespace => None,
        })
        .collect();
    let theirs: Vec<(&str, &Role, Option<usize>)> = r.occurrences.iter().map(|o| (o.name.as_str(), &o.role, o.decl)).collect();
    assert!(mine == theirs, "harness self-check failed: C09 walker and luasyn::resolve disagree on\n{}", luaprint::print_plain(b));
    Canonical { block, occ: c.occ, stats: c.st }
}

// ------------------------------------------------------------------------------------------
// the case and its oracle
// ------------------------------------------------------------------------------------------

#[derive(Clone, Debug)]
pub struct Config {
    pub include_functions: bool,
    /// None = property omitted
    pub globals: Option<Vec<String>>,
    /// "retain_lines" | "dense" | "readable"
    pub generator: String,
    pub span: usize,
}

impl Config {
    pub fn json(&self) -> Value {
        json!({"include_functions": self.include_functions, "globals": self.globals, "generator": self.generator, "span": self.span})
    }
    pub fn from_json(v: &Value) -> Option<Config> {
        Some(Config {
            include_functions: v.get("include_functions")?.as_bool()?,
            globals: v.get("globals").and_then(|g| g.as_array()).map(|a| a.iter().filter_map(|x| x.as_str().map(|s| s.to_string())).collect()),
            generator: v.get("generator")?.as_str()?.to_string(),
            span: v.get("span").and_then(|s| s.as_u64()).unwrap_or(80) as usize,
        })
    }
    fn rule_text(&self) -> String {
        let mut o = serde_json::Map::new();
        o.insert("rule".into(), json!("rename_variables"));
        o.insert("include_functions".into(), json!(self.include_functions));
        if let Some(g) = &self.globals {
            o.insert("globals".into(), json!(g));
        }
        Value::Object(o).to_string()
    }
    pub fn config_text(&self) -> String {
        dl::config_text(&[self.rule_text()], &dl::generator_json(&self.generator, self.span))
    }
    fn baseline_text(&self) -> String {
        dl::config_text(&[], &dl::generator_json(&self.generator, self.span))
    }
    /// the names the configuration lists (groups expanded as documented)
    pub fn listed(&self) -> BTreeSet<String> {
        let mut s = BTreeSet::new();
        let default = vec!["$default".to_string()];
        for g in self.globals.as_ref().unwrap_or(&default) {
            match g.as_str() {
                "$default" => s.extend(DOC_DEFAULT.iter().map(|x| x.to_string())),
                "$roblox" => s.extend(DOC_ROBLOX.iter().map(|x| x.to_string())),
                other => {
                    s.insert(other.to_string());
                }
            }
        }
        s
    }
}

/// as printed in site/content/rules/rename_variables.md
const DOC_DEFAULT: [&str; 40] = [
    "arg", "assert", "collectgarbage", "coroutine", "debug", "dofile", "error", "gcinfo", "getfenv", "getmetatable", "io", "ipairs", "load", "loadfile", "loadstring", "math", "module", "newproxy",
    "next", "os", "package", "pairs", "pcall", "print", "rawequal", "rawget", "rawset", "require", "select", "setfenv", "setmetatable", "string", "table", "tonumber", "tostring", "type", "unpack", "xpcall",
    "_G", "_VERSION",
];
const DOC_ROBLOX: [&str; 55] = [
    "Axes", "bit32", "BrickColor", "CellId", "ColorSequence", "ColorSequenceKeypoint", "Color3", "CFrame", "DateTime", "DebuggerManager", "delay", "DockWidgetPluginGuiInfo", "elapsedTime", "Enum", "Faces",
    "Instance", "LoadLibrary", "game", "NumberRange", "NumberSequence", "NumberSequenceKeypoint", "PathWaypoint", "PhysicalProperties", "plugin", "PluginDrag", "PluginManager", "printidentity", "Random", "Ray",
    "RaycastParams", "Rect", "Region3", "Region3int16", "script", "settings", "shared", "stats", "spawn", "tick", "time", "TweenInfo", "typeof", "UDim", "UDim2", "UserSettings", "utf8", "Vector2", "Vector2int16",
    "Vector3", "Vector3int16", "version", "wait", "warn", "workspace", "ypcall",
];

/// reserved words of Lua 5.1 (Luau reserves the same set)
const KEYWORDS: [&str; 21] = [
    "and", "break", "do", "else", "elseif", "end", "false", "for", "function", "if", "in", "local", "nil", "not", "or", "repeat", "return", "then", "true", "until", "while",
];

fn is_identifier(s: &str) -> bool {
    let b = s.as_bytes();
    !b.is_empty() && (b[0].is_ascii_alphabetic() || b[0] == b'_') && b.iter().all(|c| c.is_ascii_alphanumeric() || *c == b'_')
}

/// position of `name` in the sequence of all identifiers over darklua's alphabet ordered by
/// length, then alphabet order (the order in which rename_variables proposes names)
pub fn name_rank(name: &str) -> Option<u64> {
    const ALPHABET: &str = "abcdefghijklmnopqrstuvwxyzABCDEFGHIJKLMNOPQRSTUVWXYZ_0123456789";
    let mut v: u64 = 0;
    let mut offset: u64 = 0;
    let mut block: u64 = 53;
    for (i, c) in name.chars().enumerate() {
        let idx = ALPHABET.find(c)? as u64;
        if i == 0 {
            if idx >= 53 {
                return None;
            }
            v = idx;
        } else {
            v = v.checked_mul(63)?.checked_add(idx)?;
            offset = offset.checked_add(block)?;
            block = block.checked_mul(63)?;
        }
    }
    if name.is_empty() {
        None
    } else {
        v.checked_add(offset)
    }
}

#[derive(Clone, Debug, Default)]
pub struct Info {
    /// highest rank (see `name_rank`) among the new names
    pub max_rank: u64,
    pub stats: ScopeStats,
    /// generated names given again after the scope of a previous holder closed (output side)
    pub reused_after_close: u32,
    pub renamed: usize,
    pub longest_new_name: usize,
    pub kept_function_names: usize,
    pub globals_used: usize,
}

impl Info {
    pub fn nontrivial(&self) -> bool {
        (self.stats.shadow_pairs >= 1 && self.reused_after_close >= 1) || self.stats.max_live >= 64
    }
}

pub enum Outcome {
    Checked(Info),
    Discard(&'static str),
}

fn relaxed() -> luasyn::parse::ParseOptions {
    luasyn::parse::ParseOptions { check_loop_context: false, check_vararg_context: false }
}

fn first_diff_line(a: &str, b: &str) -> String {
    let mut la = a.lines();
    let mut lb = b.lines();
    let mut n = 1;
    loop {
        match (la.next(), lb.next()) {
            (Some(x), Some(y)) if x == y => n += 1,
            (x, y) => return format!("canonical line {}:\n    before: {}\n    after:  {}", n, x.unwrap_or("<end>"), y.unwrap_or("<end>")),
        }
    }
}

fn clip(s: &str) -> String {
    if s.len() > 6000 {
        let mut e = 6000;
        while !s.is_char_boundary(e) {
            e -= 1;
        }
        format!("{} ... [{} bytes]", &s[..e], s.len())
    } else {
        s.to_string()
    }
}

pub fn check(source: &str, cfg: &Config) -> Result<Outcome, String> {
    let Ok(src) = luasyn::parse::parse_with_options(source, Mode::Luau, relaxed()) else {
        return Ok(Outcome::Discard("harness: source does not parse with luasyn"));
    };
    let config = cfg.config_text();
    let out = match dl::process_one(source, &config) {
        Ok(o) => o,
        Err(dl::DlError::Process(_)) => return Ok(Outcome::Discard("darklua rejects the input")),
        Err(e) => return Err(format!("{}\n--- config\n{}\n--- source\n{}", e, config, clip(source))),
    };
    // the program "before": the source itself (retain_lines), or what the same generator writes
    // without any rule (dense / readable re-spell literals and re-derive parentheses)
    let (before_block, before_text) = if cfg.generator == "retain_lines" {
        (src.block, source.to_string())
    } else {
        let base = match dl::process_one(source, &cfg.baseline_text()) {
            Ok(o) => o,
            Err(dl::DlError::Process(_)) => return Ok(Outcome::Discard("darklua rejects the input")),
            Err(e) => return Err(format!("baseline run (no rule): {}\n--- source\n{}", e, clip(source))),
        };
        match luasyn::parse::parse_with_options(&base, Mode::Luau, relaxed()) {
            Ok(p) => (p.block, base),
            Err(_) => return Ok(Outcome::Discard("generator output without any rule does not parse (not C09)")),
        }
    };
    let ctx = |what: String| format!("{}\n--- config\n{}\n--- source\n{}\n--- output\n{}", what, config, clip(source), clip(&out));
    let outp = match luasyn::parse::parse_with_options(&out, Mode::Luau, relaxed()) {
        Ok(p) => p,
        Err(e) => return Err(ctx(format!("output does not parse: {}", e))),
    };
    let before = canonicalise(&before_block);
    if before.stats.disputed {
        return Ok(Outcome::Discard("typeof in a function header mentions the function's own parameter / name / self (scoping disputed)"));
    }
    let after = canonicalise(&outp.block);
    if before.block != after.block {
        // explain: first occurrence that differs, and first differing canonical line
        let mut why = String::new();
        for (i, (x, y)) in before.occ.iter().zip(after.occ.iter()).enumerate() {
            let same = x.role == y.role && x.decl == y.decl && (x.decl.is_some() || x.name == y.name);
            if !same {
                let d = |o: &Occ, all: &[Occ]| match o.decl {
                    Some(id) => {
                        let dn = all.iter().find(|p| p.decl == Some(id) && matches!(&p.role, ORole::Var(r) if r.is_decl())).map(|p| p.name.clone()).unwrap_or_default();
                        format!("`{}` ({:?}) -> local declaration #{} (`{}`)", o.name, o.role, id, dn)
                    }
                    None => format!("`{}` ({:?}) -> global", o.name, o.role),
                };
                why = format!("identifier occurrence #{}: before {} / after {}\n", i, d(x, &before.occ), d(y, &after.occ));
                break;
            }
        }
        if why.is_empty() && before.occ.len() != after.occ.len() {
            why = format!("number of identifier occurrences changed: {} -> {}\n", before.occ.len(), after.occ.len());
        }
        let a = luaprint::print_plain(&before.block);
        let b = luaprint::print_plain(&after.block);
        return Err(ctx(format!("the output is not the input up to consistent renaming of locals\n{}{}", why, first_diff_line(&a, &b))));
    }
    // equal canonical trees => occurrences align 1-1 in position, role and declaration
    if before.occ.len() != after.occ.len() {
        return Err(ctx("harness: equal canonical trees with different occurrence counts".to_string()));
    }
    let listed = cfg.listed();
    let used_globals: BTreeSet<&str> = before.occ.iter().filter(|o| o.decl.is_none() && o.role != ORole::Namespace).map(|o| o.name.as_str()).collect();
    let mut info = Info { stats: before.stats.clone(), reused_after_close: after.stats.redeclared_after_close, globals_used: used_globals.len(), ..Info::default() };
    for (x, y) in before.occ.iter().zip(after.occ.iter()) {
        let ORole::Var(role) = &x.role else { continue };
        if !role.is_decl() || *role == Role::ImplicitSelf {
            continue;
        }
        if *role == Role::LocalFuncName && !cfg.include_functions {
            if x.name != y.name {
                return Err(ctx(format!("include_functions is false but `local function {}` was renamed to `{}`", x.name, y.name)));
            }
            info.kept_function_names += 1;
            continue;
        }
        if x.name == y.name {
            continue;
        }
        info.renamed += 1;
        info.longest_new_name = info.longest_new_name.max(y.name.len());
        info.max_rank = info.max_rank.max(name_rank(&y.name).unwrap_or(0));
        let n = y.name.as_str();
        if !is_identifier(n) {
            return Err(ctx(format!("new name `{}` (for `{}`) is not an identifier", n, x.name)));
        }
        if KEYWORDS.contains(&n) {
            return Err(ctx(format!("new name `{}` (for `{}`) is a reserved word", n, x.name)));
        }
        if listed.contains(n) {
            return Err(ctx(format!("new name `{}` (for `{}`) is a listed global", n, x.name)));
        }
        if used_globals.contains(n) {
            return Err(ctx(format!("new name `{}` (for `{}`) is a global the file uses", n, x.name)));
        }
    }
    let _ = before_text;
    Ok(Outcome::Checked(info))
}

// ------------------------------------------------------------------------------------------
// generation
// ------------------------------------------------------------------------------------------

const SHORTS: [&str; 24] = ["a", "b", "c", "d", "e", "f", "g", "h", "i", "_", "A", "z", "aa", "ab", "ac", "ba", "a_", "a0", "dn", "dp", "ie", "im", "io", "os"];

fn gen_globals_list(t: &mut Tape, used_globals: &[String], local_names: &[String]) -> Option<Vec<String>> {
    match t.weighted(&[3, 2, 3, 1, 6]) {
        0 => None,
        1 => Some(vec!["$default".into()]),
        2 => Some(vec!["$roblox".into()]),
        3 => Some(vec!["$default".into(), "$roblox".into()]),
        _ => {
            let mut v: Vec<String> = vec![];
            if t.bool(128) {
                v.push("$default".into());
            }
            let n = 1 + t.choose(6);
            for _ in 0..n {
                let s = match t.weighted(&[3, 3, 5]) {
                    0 if !used_globals.is_empty() => used_globals[t.choose(used_globals.len())].clone(),
                    1 if !local_names.is_empty() => local_names[t.choose(local_names.len())].clone(),
                    _ => SHORTS[t.choose(SHORTS.len())].to_string(),
                };
                if is_identifier(&s) && !KEYWORDS.contains(&s.as_str()) && !v.contains(&s) {
                    v.push(s);
                }
            }
            Some(v)
        }
    }
}

fn gen_generator(t: &mut Tape) -> (String, usize) {
    match t.weighted(&[5, 4, 1]) {
        0 => ("retain_lines".to_string(), 80),
        1 => ("dense".to_string(), [80usize, 1, 20, 200][t.choose(4)]),
        _ => ("readable".to_string(), [80usize, 20][t.choose(2)]),
    }
}

fn case_json(source: &str, cfg: &Config) -> Value {
    json!({"source": source, "config": cfg.json()})
}

struct Avoids {
    type_function: bool,
    for_typeof: bool,
}

fn run_case(source: &str, family: &'static str, t: &mut Tape, av: &Avoids, st: &mut Stats) -> CaseResult {
    let Ok(p) = luasyn::parse::parse_with_options(source, Mode::Luau, relaxed()) else {
        return CaseResult::Discard("harness: generated text does not parse (printer/parser gap)");
    };
    let pre_c = canonicalise(&p.block);
    let pre = &pre_c.stats;
    if av.type_function && pre.type_function_param_shadows_local {
        return CaseResult::Discard("avoided: known finding type-function-params-not-scoped");
    }
    if av.for_typeof && pre.genfor_annotation_mentions_own_var {
        return CaseResult::Discard("avoided: known finding generic-for-annotation-sees-loop-variable");
    }
    let mut used_globals: Vec<String> = pre_c.occ.iter().filter(|o| o.decl.is_none() && o.role != ORole::Namespace).map(|o| o.name.clone()).collect();
    used_globals.sort();
    used_globals.dedup();
    let mut local_names: Vec<String> = pre_c.occ.iter().filter(|o| matches!(&o.role, ORole::Var(r) if r.is_decl())).map(|o| o.name.clone()).collect();
    local_names.sort();
    local_names.dedup();
    let (generator, span) = gen_generator(t);
    let lists = [gen_globals_list(t, &used_globals, &local_names), gen_globals_list(t, &used_globals, &local_names)];
    let mut first_nt = None;
    let mut done = 0u64;
    for (ci, (inc, gl)) in [(false, 0usize), (true, 0), (false, 1), (true, 1)].into_iter().enumerate() {
        let cfg = Config { include_functions: inc, globals: lists[gl].clone(), generator: generator.clone(), span };
        match check(source, &cfg) {
            Err(m) => return CaseResult::Fail(Failure::new(m, case_json(source, &cfg))),
            Ok(Outcome::Discard(why)) => return CaseResult::Discard(why),
            Ok(Outcome::Checked(info)) => {
                done += 1;
                let nt = info.nontrivial();
                if nt {
                    let h = hash_str(&case_json(source, &cfg).to_string());
                    if first_nt.is_none() {
                        first_nt = Some(h);
                    } else {
                        st.nontrivial.insert(h);
                    }
                }
                if ci == 0 {
                    st.class(&format!("family_{}", family));
                    st.class(&format!("generator_{}", generator));
                    let s = &info.stats;
                    for (k, v) in &s.shadow {
                        st.class_n(&format!("shadowing_decl_in_{}", k), *v as u64);
                    }
                    st.class_n("decls", s.decls as u64);
                    st.class_n("redeclared_after_scope_closed", s.redeclared_after_close as u64);
                    st.class_n("captured_upvalue_uses", s.captured_uses as u64);
                    st.class_n("repeat_cond_reads_body_local", s.repeat_cond_reads_body_local as u64);
                    st.class_n("type_namespace_is_local", s.namespace_local as u64);
                    st.class_n("typeof_mentions_local", s.typeof_local as u64);
                    st.class_n("implicit_self_uses", s.implicit_self_uses as u64);
                    st.class_n("local_function_self_reference", s.local_function_self_ref as u64);
                    st.class_n("globals_used", info.globals_used as u64);
                    st.class(match s.max_live {
                        0..=7 => "live_locals_0_7",
                        8..=63 => "live_locals_8_63",
                        64..=200 => "live_locals_64_200",
                        201..=1000 => "live_locals_201_1000",
                        _ => "live_locals_over_1000",
                    });
                    if nt {
                        st.class("nontrivial_programs");
                    }
                }
                if ci == 1 {
                    st.class_n("generated_name_reused_after_scope_closed", info.reused_after_close as u64);
                    for kw in ["do", "if", "in", "or", "and", "end", "for", "nil", "not"] {
                        if info.max_rank > name_rank(kw).unwrap() {
                            st.class(&format!("generated_names_went_past_{}", kw));
                        }
                    }
                    st.class(match info.longest_new_name {
                        0 => "new_names_none",
                        1 => "new_names_1_char",
                        2 => "new_names_2_chars",
                        3 => "new_names_3_chars",
                        _ => "new_names_4_plus_chars",
                    });
                }
                if !inc {
                    st.class_n("local_function_names_kept", info.kept_function_names as u64);
                }
                st.class(match &cfg.globals {
                    None => "globals_omitted",
                    Some(g) if g.iter().all(|x| x.starts_with('$')) => "globals_groups",
                    Some(_) => "globals_custom_list",
                });
            }
        }
    }
    st.sample(|| case_json(source, &Config { include_functions: true, globals: lists[1].clone(), generator: generator.clone(), span }));
    // the engine counts one evaluation for the Pass
    st.evaluations += done.saturating_sub(1);
    CaseResult::Pass { nontrivial: first_nt }
}

fn run(ctx: &RunCtx) {
    let av = Avoids { type_function: ctx.avoid("type-function-params-not-scoped"), for_typeof: ctx.avoid("generic-for-annotation-sees-loop-variable") };
    let n = ctx.tier.pick(6_000, 250_000);
    let t0 = std::time::Instant::now();
    ctx.search("programs", n, 700, |tape, st| {
        let mut t = Tape::new(tape);
        let mode = t.weighted(&[2, 3, 2, 8, 3]);
        // trees are printed plainly, or (1 in 4) with generated trivia between all tokens
        let print = |t: &mut Tape, b: &Block, luau: bool, st: &mut Stats| -> String {
            if t.bool(64) {
                st.class("printed_with_generated_trivia");
                luaprint::print_layout(b, t, &LayoutOpts::all(luau))
            } else {
                luaprint::print_plain(b)
            }
        };
        let (source, family) = match mode {
            0 => {
                let b = gen_tree(&mut t, &SynOpts::lua51()).0;
                (print(&mut t, &b, false, st), "syngen_lua51")
            }
            1 => {
                let b = gen_tree(&mut t, &SynOpts::luau()).0;
                (print(&mut t, &b, true, st), "syngen_luau")
            }
            2 => {
                let luau = t.bool(128);
                let o = if luau { GenOpts::luau() } else { GenOpts::lua51() };
                let b = gen_program(&mut t, &o).block;
                (print(&mut t, &b, luau, st), "progen")
            }
            3 => {
                let luau = t.bool(150);
                let mut o = if luau { ScopeOpts::luau() } else { ScopeOpts::lua51() };
                o.no_type_function = av.type_function;
                o.no_for_typeof_own_var = av.for_typeof;
                let b = gen_scoped(&mut t, &o).0;
                (print(&mut t, &b, luau, st), "scopegen")
            }
            _ => {
                let total = 70 + t.choose(331);
                (gen_many_locals(&mut t, &ManyOpts { total, ..ManyOpts::default() }), "many_locals")
            }
        };
        run_case(&source, family, &mut t, &av, st)
    });
    ctx.note(format!("phase programs: {} programs x 4 configurations in {:.1} s", n, t0.elapsed().as_secs_f64()));
    let t1 = std::time::Instant::now();
    // the many-locals family at the sizes that reach 2- and 3-character keyword candidates
    let sizes: Vec<usize> = match ctx.tier {
        Tier::Quick => vec![260, 600, 1000, 1500, 2500, 4000],
        Tier::Thorough => {
            let mut v = vec![260, 600, 1000, 1500, 2500, 3400, 4000, 4300, 4400, 8000, 20000, 24500, 56500, 60000];
            v.extend((0..50).map(|i| 200 + i * 83));
            v
        }
    };
    // (size, variant): the giant sizes get fewer variants (a 60 000-locals case takes ~25 s)
    let mut cases: Vec<(usize, u64)> = vec![];
    for &size in &sizes {
        let variants = if size >= 10_000 { 3 } else { ctx.tier.pick(4u64, 8u64) };
        for v in 0..variants {
            cases.push((size, v));
        }
    }
    // spread the giant cases over the shards (enumerate hands out contiguous index ranges)
    cases.sort_by_key(|(s, v)| crate::tape::mix(0xC09, *s as u64, *v));
    ctx.enumerate("many_locals_large", cases.len() as u64, |i, st| {
        let (total, variant) = cases[i as usize];
        let tape = crate::tape::tape_from_seed(crate::tape::mix(ctx.seed, 0xC09 + total as u64, variant), 400);
        let mut t = Tape::new(&tape);
        let source = gen_many_locals(&mut t, &ManyOpts { total, ..ManyOpts::default() });
        run_case(&source, "many_locals_large", &mut t, &av, st)
    });
    ctx.note(format!("phase many_locals_large: {} programs (sizes {:?}) x 4 configurations in {:.1} s", cases.len(), sizes, t1.elapsed().as_secs_f64()));
}

fn replay(v: &Value) -> Result<(), String> {
    let source = v.get("source").and_then(|s| s.as_str()).ok_or("malformed C09 replay")?;
    let cfg = v.get("config").and_then(Config::from_json).ok_or("malformed C09 replay (config)")?;
    check(source, &cfg).map(|_| ())
}

fn minimize(v: &Value) -> Option<Value> {
    let source = v.get("source")?.as_str()?;
    if source.len() > 20_000 {
        return None;
    }
    let cfg = Config::from_json(v.get("config")?)?;
    // keep the same kind of failure (first line of the message up to the first name / position)
    let kind = |m: &str| -> String { m.lines().next().unwrap_or("").split(['`', ':']).next().unwrap_or("").to_string() };
    let orig = match check(source, &cfg) {
        Err(m) => kind(&m),
        _ => return None,
    };
    crate::props::common::minimize_source(v, &|text, _| matches!(check(text, &cfg), Err(m) if kind(&m) == orig))
}
