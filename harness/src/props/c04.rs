//! C04 — retain_lines keeps surviving code on its original line.

use crate::dl::{self, DEFAULT_RULES};
use crate::engine::*;
use crate::gen::progen::{gen_program, GenOpts};
use crate::gen::syngen::{gen_tree, SynOpts};
use crate::luaprint::{self, LayoutOpts};
use crate::luasyn::ast::*;
use crate::luasyn::lex::{lex, TokKind};
use crate::luasyn::Mode;
use crate::tape::Tape;
use serde_json::{json, Value};

pub fn def() -> PropDef {
    PropDef {
        id: "C04",
        rule: "programs from `syngen` / `progen` (Lua 5.1 and Luau) into which line markers are spliced (string literals \"@L<n>\" as extra call arguments, table items, return values, initialisers and marker statements; the printer writes the marker's own 1-based line into it), printed with generated layout (constructs spread over several lines, comments and blank lines anywhere). Configurations, all with retain_lines: (a) random subsets / orders of the 13 default rules, (b) remove_spaces followed by a random sequence of line-neutral rules (Luau-lowering rules, remove_assertions, remove_debug_profiling, inject_global_value, convert_local_function_to_assign, convert_function_to_assignment, remove_method_call, convert_square_root_call), (c) append_text_comment at the start with a k-line text after the default rules. Oracle: every marker string found by the independent lexer in the output sits on line n (+ the number of lines of the appended comment for (c), read from the output and required to be uniform); the output must lex. Non-trivial = the rules changed the code tokens, a marker survives after the first change, and the layout broke lines inside expressions; distinct by (text, configuration).",
        assumptions: &["markers are never operands of operators, so no rule folds or rewrites them", "inputs darklua rejects are discarded (counted)"],
        run,
        replay,
        minimize: None,
    }
}

/// known finding "multiline-comment-gap": a long comment spanning several lines directly followed
/// by another comment
pub fn has_multiline_comment_followed_by_comment(source: &str) -> bool {
    let Ok(l) = lex(source, Mode::Luau) else { return false };
    // the comments of a removed statement are re-attached together: the next comment may be separated
    // from the multi-line one by the statement that goes away (`]==] local b ---`)
    l.comments.windows(2).any(|w| {
        let between = &source[w[0].end..w[1].start];
        w[0].end_line > w[0].line && (between.chars().all(|c| c.is_whitespace()) || between.matches('\n').count() <= 1)
    })
}

/// a string / interpolated-string token spanning several lines that ends on the line of a compound
/// assignment operator or the line before, and stands in front of it
pub fn has_multiline_token_before_compound_operator(source: &str) -> bool {
    let Ok(l) = lex(source, Mode::Luau) else { return false };
    let ops: Vec<&crate::luasyn::lex::Token> = l
        .tokens
        .iter()
        .filter(|t| t.kind == TokKind::Symbol && t.text.len() >= 2 && t.text.ends_with('=') && !matches!(t.text.as_str(), "==" | "~=" | "<=" | ">="))
        .collect();
    l.tokens.iter().any(|s| {
        !matches!(s.kind, TokKind::Symbol | TokKind::Name | TokKind::Keyword | TokKind::Number | TokKind::Eof)
            && s.end_line > s.line
            && ops.iter().any(|o| s.start < o.start && o.line <= s.end_line + 1)
    })
}

/// known finding "local-multiline-name-list": a `local` / `const` declaration whose list of
/// (typed) names is written over several lines
pub fn has_multiline_local_name_list(source: &str) -> bool {
    let Ok(p) = crate::luasyn::parse::parse_with_options(source, Mode::Luau, crate::luasyn::parse::ParseOptions { check_loop_context: false, check_vararg_context: false }) else {
        return false;
    };
    let t = &p.tokens;
    let span_end = |pos: usize| p.type_spans.iter().find(|(a, _)| *a == pos).map(|(_, b)| *b);
    let mut i = 0;
    while i < t.len() {
        if t[i].kind == TokKind::Keyword && t[i].text == "local" || (t[i].kind == TokKind::Name && t[i].text == "const" && i + 1 < t.len() && t[i + 1].kind == TokKind::Name && t[i].line == t[i].end_line) {
            let start_line = t[i].line;
            let mut j = i + 1;
            let mut names = 0;
            let mut last_line = start_line;
            loop {
                if j >= t.len() || t[j].kind != TokKind::Name {
                    break;
                }
                names += 1;
                last_line = t[j].end_line;
                j += 1;
                // optional type annotation
                if j < t.len() && t[j].text == ":" {
                    if let Some(end) = span_end(t[j].start) {
                        while j < t.len() && t[j].start < end {
                            last_line = t[j].end_line;
                            j += 1;
                        }
                    }
                }
                if j < t.len() && t[j].text == "," {
                    j += 1;
                } else {
                    break;
                }
            }
            if names >= 2 && last_line > start_line {
                return true;
            }
        }
        i += 1;
    }
    false
}

fn marker() -> Expr {
    Expr::Str { raw: String::new(), value: b"@L".to_vec() }
}

/// splice markers into a tree (semantics are irrelevant for this property)
fn add_markers(block: &mut Block, t: &mut Tape) {
    fn expr(e: &mut Expr, t: &mut Tape) {
        match e {
            Expr::Call { f, args, sugar } => {
                expr(f, t);
                for a in args.iter_mut() {
                    expr(a, t);
                }
                if *sugar == CallSugar::Parens && t.bool(140) {
                    args.push(marker());
                }
            }
            Expr::MethodCall { obj, args, sugar, .. } => {
                expr(obj, t);
                for a in args.iter_mut() {
                    expr(a, t);
                }
                if *sugar == CallSugar::Parens && t.bool(140) {
                    args.push(marker());
                }
            }
            Expr::Table(items) => {
                for it in items.iter_mut() {
                    match it {
                        TableItem::Pos(v) | TableItem::Named(_, v) => expr(v, t),
                        TableItem::Keyed(k, v) => {
                            expr(k, t);
                            expr(v, t);
                        }
                    }
                }
                if t.bool(120) {
                    items.push(TableItem::Pos(marker()));
                }
            }
            Expr::Function { func, .. } => blk(&mut func.body, t),
            Expr::Index { obj, key } => {
                expr(obj, t);
                expr(key, t);
            }
            Expr::Field { obj, .. } => expr(obj, t),
            Expr::Paren(a) | Expr::Unary(_, a) => expr(a, t),
            Expr::Binary(_, a, b) => {
                expr(a, t);
                expr(b, t);
            }
            Expr::IfExpr { clauses, else_ } => {
                for (c, v) in clauses.iter_mut() {
                    expr(c, t);
                    expr(v, t);
                }
                expr(else_, t);
            }
            Expr::Interp(segs) => {
                for s in segs.iter_mut() {
                    if let InterpSeg::Expr(e) = s {
                        expr(e, t);
                    }
                }
            }
            Expr::Cast { expr: e, .. } | Expr::Instantiate { expr: e, .. } => expr(e, t),
            _ => {}
        }
    }
    fn blk(b: &mut Block, t: &mut Tape) {
        let mut out = vec![];
        for mut s in std::mem::take(&mut b.stmts) {
            if t.bool(70) && !matches!(s, Stmt::Return(_) | Stmt::Break | Stmt::Continue) {
                out.push(Stmt::Call(Expr::Call { f: Box::new(Expr::Name("mark".into())), args: vec![marker()], sugar: CallSugar::Parens }));
            }
            match &mut s {
                Stmt::Local { values, is_const, names } => {
                    values.iter_mut().for_each(|e| expr(e, t));
                    if !*is_const && t.bool(80) && !values.is_empty() && values.len() == names.len() {
                        // an extra (surplus) value carrying a marker
                        values.push(Expr::Call { f: Box::new(Expr::Name("mark".into())), args: vec![marker()], sugar: CallSugar::Parens });
                    }
                }
                Stmt::Assign { targets, values } => {
                    targets.iter_mut().for_each(|e| expr(e, t));
                    values.iter_mut().for_each(|e| expr(e, t));
                    if t.bool(80) {
                        if let Some(last) = values.last_mut() {
                            let v = std::mem::replace(last, Expr::Nil);
                            *last = Expr::Call { f: Box::new(Expr::Name("mark".into())), args: vec![v, marker()], sugar: CallSugar::Parens };
                        }
                    }
                }
                Stmt::CompoundAssign { target, value, .. } => {
                    expr(target, t);
                    expr(value, t);
                    if t.bool(150) {
                        // a marker on the statement itself: `x += mark(<value>, "@L")`
                        let v = std::mem::replace(value, Expr::Nil);
                        *value = Expr::Call { f: Box::new(Expr::Name("mark".into())), args: vec![v, marker()], sugar: CallSugar::Parens };
                    }
                }
                Stmt::Call(e) => expr(e, t),
                Stmt::Do(b) => blk(b, t),
                Stmt::While { cond, body } => {
                    expr(cond, t);
                    blk(body, t);
                }
                Stmt::Repeat { body, cond } => {
                    blk(body, t);
                    expr(cond, t);
                }
                Stmt::If { clauses, else_ } => {
                    for (c, b) in clauses.iter_mut() {
                        expr(c, t);
                        blk(b, t);
                    }
                    if let Some(b) = else_ {
                        blk(b, t);
                    }
                }
                Stmt::NumFor { start, limit, step, body, .. } => {
                    expr(start, t);
                    expr(limit, t);
                    if let Some(s) = step {
                        expr(s, t);
                    }
                    blk(body, t);
                }
                Stmt::GenFor { exprs, body, .. } => {
                    exprs.iter_mut().for_each(|e| expr(e, t));
                    blk(body, t);
                }
                Stmt::Function { func, .. } | Stmt::LocalFunction { func, .. } => blk(&mut func.body, t),
                Stmt::Return(v) => {
                    v.iter_mut().for_each(|e| expr(e, t));
                    if t.bool(100) {
                        v.push(marker());
                    }
                }
                _ => {}
            }
            out.push(s);
        }
        b.stmts = out;
    }
    blk(block, t);
}

const LINE_NEUTRAL: [&str; 17] = [
    "\"remove_compound_assignment\"",
    "\"remove_continue\"",
    "\"remove_if_expression\"",
    "\"remove_interpolated_string\"",
    "{ rule: \"remove_interpolated_string\", strategy: \"tostring\" }",
    "\"remove_floor_division\"",
    "\"convert_luau_number\"",
    "\"make_assignment_local\"",
    "\"remove_types\"",
    "\"remove_attribute\"",
    "\"remove_assertions\"",
    "\"remove_debug_profiling\"",
    "{ rule: \"inject_global_value\", identifier: \"value\", value: 12 }",
    "\"convert_local_function_to_assign\"",
    "\"convert_function_to_assignment\"",
    "\"remove_method_call\"",
    "\"convert_square_root_call\"",
];

const APPEND_TEXTS: [&str; 5] = ["one line", "two\nlines", "a\nb\nc\nd", "!native", "with ]] inside\nand more"];

#[derive(Clone, Debug)]
enum Shift {
    None,
    /// number of lines the appended comment occupies: 1 for a single line text, otherwise the
    /// lines of the text plus the opening and closing lines of the long comment
    AppendStart(u32),
}

fn comment_lines(text: &str) -> u32 {
    if text.contains('\n') {
        text.split('\n').count() as u32 + 2
    } else {
        1
    }
}

fn gen_config(t: &mut Tape) -> (String, Shift) {
    match t.weighted(&[5, 5, 2]) {
        0 => {
            let k = 1 + t.choose(10);
            let mut v: Vec<&str> = vec![];
            for _ in 0..k {
                let r = DEFAULT_RULES[t.choose(DEFAULT_RULES.len())];
                if !v.contains(&r) {
                    v.push(r);
                }
            }
            if t.bool(60) {
                v = DEFAULT_RULES.to_vec();
            }
            (dl::config_text(&dl::quote_rules(&v), "\"retain_lines\""), Shift::None)
        }
        1 => {
            let mut v: Vec<String> = vec!["\"remove_spaces\"".to_string()];
            let k = 1 + t.choose(6);
            for _ in 0..k {
                let r = LINE_NEUTRAL[t.choose(LINE_NEUTRAL.len())].to_string();
                if !v.contains(&r) && !(r.contains("remove_interpolated_string") && v.iter().any(|x| x.contains("remove_interpolated_string"))) {
                    v.push(r);
                }
            }
            (dl::config_text(&v, "\"retain_lines\""), Shift::None)
        }
        _ => {
            let mut v: Vec<String> = if t.bool(128) { dl::quote_rules(&DEFAULT_RULES) } else { vec![] };
            let text = APPEND_TEXTS[t.choose(APPEND_TEXTS.len())];
            let rule = json!({"rule": "append_text_comment", "text": text}).to_string();
            let pos = if v.is_empty() { 0 } else { t.choose(v.len() + 1) };
            v.insert(pos, rule);
            (dl::config_text(&v, "\"retain_lines\""), Shift::AppendStart(comment_lines(text)))
        }
    }
}

fn markers_of(text: &str) -> Result<Vec<(u32, u32)>, String> {
    // (line the marker claims, line it is on)
    let l = lex(text, Mode::Luau).map_err(|e| format!("{} (line {})", e.msg, e.line))?;
    let mut out = vec![];
    for t in &l.tokens {
        // a rule may write the literal again from its value, with the other quote
        let quoted = |q: char| t.text.starts_with(q) && t.text[1..].starts_with("@L") && t.text.ends_with(q) && t.text.len() > 4;
        if t.kind == TokKind::Str && (quoted('"') || quoted('\'')) {
            if let Ok(n) = t.text[3..t.text.len() - 1].parse::<u32>() {
                out.push((n, t.line));
            }
        }
    }
    Ok(out)
}

/// Ok(Some(surviving markers)) / Ok(None) = out of domain
pub fn check(source: &str, config: &str, shift: &Shift) -> Result<Option<usize>, String> {
    let input_markers = markers_of(source).map_err(|e| format!("harness: input does not lex: {}", e))?;
    for (n, line) in &input_markers {
        if n != line {
            return Err(format!("harness: printer wrote marker @L{} on line {}", n, line));
        }
    }
    let out = match dl::process_one(source, config) {
        Ok(o) => o,
        Err(dl::DlError::Process(_)) => return Ok(None),
        Err(e) => return Err(format!("{}", e)),
    };
    let out_markers = markers_of(&out).map_err(|e| format!("output does not lex: {}\n--- config\n{}\n--- output\n{}", e, config, out))?;
    let expected_shift: i64 = match shift {
        Shift::None => 0,
        Shift::AppendStart(lines) => *lines as i64,
    };
    for (n, line) in &out_markers {
        if *line as i64 != *n as i64 + expected_shift {
            return Err(format!(
                "marker @L{} is on line {} of the output (expected line {}{})\n--- config\n{}\n--- source\n{}\n--- output\n{}",
                n,
                line,
                *n as i64 + expected_shift,
                if expected_shift != 0 { format!(", shift {} from the appended comment", expected_shift) } else { String::new() },
                config,
                source,
                out
            ));
        }
    }
    Ok(Some(out_markers.len()))
}

fn run(ctx: &RunCtx) {
    let avoid_brackets = ctx.avoid("adjacent-closing-brackets");
    let avoid_ellipsis = ctx.avoid("pack-ellipsis-trivia");
    let avoid_merge = ctx.avoid("remove-spaces-merges-line-comments");
    let avoid_attr = ctx.avoid("append-start-after-attributes");
    let avoid_gap = ctx.avoid("multiline-comment-gap");
    let avoid_locals = ctx.avoid("local-multiline-name-list");
    let avoid_recv = ctx.avoid("method-call-multiline-receiver");
    let avoid_compound_target = ctx.avoid("compound-target-over-several-lines");
    AVOID_COMPOUND_TARGET.store(avoid_compound_target, std::sync::atomic::Ordering::Relaxed);
    let n = ctx.tier.pick(40_000, 300_000);
    ctx.search("programs", n, 700, |tape, st| {
        let mut t = Tape::new(tape);
        let mode = t.weighted(&[3, 4, 3]);
        let (mut block, luau) = match mode {
            0 => (gen_tree(&mut t, &SynOpts::lua51()).0, false),
            1 => (gen_tree(&mut t, &SynOpts::luau()).0, true),
            _ => (gen_program(&mut t, &GenOpts::luau()).block, true),
        };
        add_markers(&mut block, &mut t);
        let mut lo = LayoutOpts::all(luau);
        lo.respell_literals = false;
        lo.trailing_newline = t.bool(200);
        lo.plain_compound_targets = avoid_compound_target;
        let (source, ls) = luaprint::print_layout_stats(&block, &mut t, &lo);
        if crate::luasyn::parse::parse_with_options(&source, Mode::Luau, crate::luasyn::parse::ParseOptions { check_loop_context: false, check_vararg_context: false }).is_err() {
            return CaseResult::Discard("harness: printed text does not parse (printer/parser gap)");
        }
        if avoid_brackets && crate::props::c03::has_adjacent_closing_brackets(&source) {
            return CaseResult::Discard("avoided: known finding adjacent-closing-brackets");
        }
        if avoid_ellipsis && crate::props::c03::has_comment_next_to_type_ellipsis(&source) {
            return CaseResult::Discard("avoided: known finding pack-ellipsis-trivia");
        }
        if avoid_locals && has_multiline_local_name_list(&source) {
            return CaseResult::Discard("avoided: known finding local-multiline-name-list");
        }
        if avoid_gap && has_multiline_comment_followed_by_comment(&source) {
            return CaseResult::Discard("avoided: known finding multiline-comment-gap");
        }
        let mut nontrivial = None;
        for _ in 0..4 {
            let (config, shift) = gen_config(&mut t);
            if avoid_merge && config.contains("remove_spaces") && !config.contains("remove_comments") && crate::props::c18::has_line_comment_followed_by_comment(&source) {
                st.class("config_skipped_known_finding");
                continue;
            }
            // rules may remove the statements in front of an attributed function, which then becomes
            // the first statement: any attribute in the file is enough to trigger the known finding
            if avoid_attr && matches!(shift, Shift::AppendStart(_)) && lex(&source, Mode::Luau).map(|l| l.tokens.iter().any(|t| t.text.starts_with('@'))).unwrap_or(false) {
                st.class("config_skipped_known_finding");
                continue;
            }
            if avoid_recv
                && config.contains("remove_method_call")
                && lex(&source, Mode::Luau)
                    .map(|l| {
                        let has_method_call = l.tokens.windows(2).any(|w| w[0].text == ":" && w[1].kind == TokKind::Name);
                        l.tokens.iter().any(|t| t.kind == TokKind::Str && t.end_line > t.line) || (has_method_call && !l.comments.is_empty())
                    })
                    .unwrap_or(false)
            {
                st.class("config_skipped_known_finding");
                continue;
            }
            // the prefix / key of a compound assignment is written twice: a token of the target that
            // spans several lines (a multi-line string) takes its lines twice (same known finding)
            // (remove_floor_division rewrites `a //= b` the same way: the target is written twice)
            if avoid_compound_target && (config.contains("remove_compound_assignment") || config.contains("remove_floor_division")) && has_multiline_token_before_compound_operator(&source) {
                st.class("config_skipped_known_finding");
                continue;
            }
            st.class(match shift {
                Shift::None if config.contains("\"remove_spaces\", ") && !config.contains("compute_expression") => "line_neutral_pipeline",
                Shift::None => "default_rules_subset",
                Shift::AppendStart(_) => "append_start",
            });
            match check(&source, &config, &shift) {
                Ok(None) => return CaseResult::Discard("darklua rejects the input"),
                Ok(Some(surviving)) => {
                    st.class_n("surviving_markers", surviving as u64);
                    if surviving >= 1 && ls.newlines_in_expr >= 1 {
                        nontrivial = Some(hash_parts(&[source.as_bytes(), config.as_bytes()]));
                    }
                }
                Err(m) => {
                    return CaseResult::Fail(Failure::new(m, json!({"source": source, "config": config, "append_lines": if let Shift::AppendStart(n) = shift { n } else { 0 }})));
                }
            }
        }
        st.sample(|| json!({"source": source}));
        CaseResult::Pass { nontrivial }
    });
    // bundling: every file's surviving markers move by one amount per file
    let nb = ctx.tier.pick(6_000, 80_000);
    ctx.search("bundles", nb, 900, |tape, st| {
        let mut t = Tape::new(tape);
        let case = gen_bundle_case(&mut t);
        for (_, text) in &case.files {
            if avoid_brackets && crate::props::c03::has_adjacent_closing_brackets(text) {
                return CaseResult::Discard("avoided: known finding adjacent-closing-brackets");
            }
            if avoid_ellipsis && crate::props::c03::has_comment_next_to_type_ellipsis(text) {
                return CaseResult::Discard("avoided: known finding pack-ellipsis-trivia");
            }
            if avoid_locals && has_multiline_local_name_list(text) {
                return CaseResult::Discard("avoided: known finding local-multiline-name-list");
            }
            if avoid_gap && has_multiline_comment_followed_by_comment(text) {
                return CaseResult::Discard("avoided: known finding multiline-comment-gap");
            }
            if avoid_merge && case.config.contains("remove_spaces") && !case.config.contains("remove_comments") && crate::props::c18::has_line_comment_followed_by_comment(text) {
                return CaseResult::Discard("avoided: known finding remove-spaces-merges-line-comments");
            }
            if avoid_recv && case.config.contains("remove_method_call") {
                return CaseResult::Discard("avoided: known finding method-call-multiline-receiver");
            }
            if avoid_compound_target && (case.config.contains("remove_compound_assignment") || case.config.contains("remove_floor_division")) && has_multiline_token_before_compound_operator(text) {
                return CaseResult::Discard("avoided: known finding compound-target-over-several-lines");
            }
        }
        st.class(&format!("bundle_modules:{}", case.files.len() - 1));
        st.sample(|| case.to_json());
        match check_bundle(&case) {
            Ok(None) => CaseResult::Discard("darklua rejects the project"),
            Ok(Some((files_with_markers, surviving))) => {
                st.class_n("surviving_markers", surviving as u64);
                if AMOUNT_CHECKED.with(|c| c.get()) {
                    st.class("bundle_amount_compared_with_line_count");
                    if case.files.iter().skip(1).any(|(_, t)| !t.ends_with('\n')) {
                        st.class("bundle_amount_compared:module_without_final_line_break");
                    }
                }
                CaseResult::Pass { nontrivial: (files_with_markers >= 2 && surviving >= 3).then(|| hash_str(&case.to_json().to_string())) }
            }
            Err(m) => CaseResult::Fail(Failure::new(m, case.to_json())),
        }
    });
}

struct BundleCase {
    /// (path, text); the entry `src/main.lua` first
    files: Vec<(String, String)>,
    config: String,
}

impl BundleCase {
    fn to_json(&self) -> Value {
        json!({"kind": "bundle", "files": self.files, "config": self.config})
    }
}

/// one file of a bundled project: a generated tree with markers `"@<index>L<line>"`, `require`s of
/// later modules spliced in at top level, and (modules) a final `return` of exactly one value
static AVOID_COMPOUND_TARGET: std::sync::atomic::AtomicBool = std::sync::atomic::AtomicBool::new(false);

thread_local! {
    /// whether the last check_bundle compared the amounts with the independent count
    static AMOUNT_CHECKED: std::cell::Cell<bool> = std::cell::Cell::new(false);
}

fn gen_bundle_file(t: &mut Tape, index: usize, modules: usize, plain: bool) -> String {
    // `plain`: Lua 5.1 trees only, so that the whole project is free of type declarations
    let (mut block, luau) = match if plain { 0 } else { t.weighted(&[3, 4, 3]) } {
        0 => (gen_tree(t, &SynOpts::lua51()).0, false),
        1 => (gen_tree(t, &SynOpts::luau()).0, true),
        _ => (gen_program(t, &GenOpts::luau()).block, true),
    };
    // no `return` of the generated tree at top level: a module returns exactly one value
    if matches!(block.stmts.last(), Some(Stmt::Return(_))) {
        block.stmts.pop();
    }
    add_markers(&mut block, t);
    for m in index + 1..=modules {
        if t.bool(if index == 0 { 200 } else { 90 }) {
            let call = Expr::Call {
                f: Box::new(Expr::Name("require".into())),
                args: vec![Expr::Str { raw: String::new(), value: format!("./m{}", m).into_bytes() }],
                sugar: CallSugar::Parens,
            };
            let stmt = match t.choose(3) {
                0 => Stmt::Local { is_const: false, names: vec![Binding::new(format!("req{}", m))], values: vec![call] },
                1 => Stmt::Call(Expr::Call { f: Box::new(Expr::Name("mark".into())), args: vec![call, marker()], sugar: CallSugar::Parens }),
                _ => Stmt::Local { is_const: false, names: vec![Binding::new(format!("req{}", m))], values: vec![Expr::Table(vec![TableItem::Pos(marker()), TableItem::Pos(call)])] },
            };
            let pos = t.choose(block.stmts.len() + 1);
            block.stmts.insert(pos, stmt);
        }
    }
    let mut lo = LayoutOpts::all(luau);
    lo.respell_literals = false;
    lo.trailing_newline = index > 0 || t.bool(200);
    lo.plain_compound_targets = AVOID_COMPOUND_TARGET.load(std::sync::atomic::Ordering::Relaxed);
    let mut text = luaprint::print_layout(&block, t, &lo);
    if index > 0 && !text.ends_with('\n') {
        text.push('\n');
    }
    // modules may start with exported type declarations written over several lines (the bundler
    // hoists them and has to account for every line they take)
    let mut head = String::new();
    if index > 0 && luau {
        for k in 0..t.choose(4) {
            head.push_str(
                &[
                    "export type Kind{}_{} =\n\t\"a\"\n\t| \"b\"\n\t| \"c\"\n",
                    "export type Opt{}_{} = {\n\tx: number,\n\ty: string,\n}\n\t| nil\n",
                    "export type Both{}_{} = { a: number }\n\t& { b: string }\n\t& {\n\tc: boolean\n}\n",
                    "export type One{}_{} = number\n",
                    "export type Long{}_{} =\n\t\"m1\"\n\t| \"m2\"\n\t| \"m3\"\n\t| \"m4\"\n\t| \"m5\"\n\t| \"m6\"\n\t| \"m7\"\n\t| \"m8\"\n",
                    "export type Wide{}_{} = number\n\t| string\n\t| {\n\n\n\n\tx: number\n\n}\n\t| (\n\tnumber\n) -> ()\n\t| nil\n",
                    "export type Fn{}_{} = (\n\tnumber,\n\tstring\n) -> (\n\tboolean\n)\n",
                ][t.choose(7)]
                .replacen("{}", &index.to_string(), 1)
                .replacen("{}", &k.to_string(), 1),
            );
        }
    }
    // the declarations go in front of the code or between the code and the final `return`
    let at_head = t.bool(128);
    let shift = if at_head { head.matches('\n').count() as u32 } else { 0 };
    let mut out = if at_head { head.clone() } else { String::new() };
    // re-tag the markers: `"@L<n>"` -> `"@<index>L<n + shift>"`
    let mut rest = text.as_str();
    while let Some(p) = rest.find("\"@L") {
        out.push_str(&rest[..p]);
        let digits: String = rest[p + 3..].chars().take_while(|c| c.is_ascii_digit()).collect();
        let n: u32 = digits.parse().unwrap_or(0);
        out.push_str(&format!("\"@{}L{}", index, n + shift));
        rest = &rest[p + 3 + digits.len()..];
    }
    out.push_str(rest);
    if index > 0 {
        if !at_head {
            out.push_str(&head);
        }
        let line = out.matches('\n').count() + 1;
        // a module file may end without a line break
        out.push_str(&format!("return {{\"@{}L{}\"}}{}", index, line, if t.bool(170) { "\n" } else { "" }));
    }
    out
}

fn gen_bundle_case(t: &mut Tape) -> BundleCase {
    let modules = 1 + t.choose(3);
    let plain = t.bool(90);
    let mut files = vec![];
    for i in 0..=modules {
        let path = if i == 0 { "src/main.lua".to_string() } else { format!("src/m{}.lua", i) };
        files.push((path, gen_bundle_file(t, i, modules, plain)));
    }
    let config = loop {
        let (c, shift) = gen_config(t);
        if matches!(shift, Shift::None) {
            break c;
        }
    };
    let config = config.replacen('{', "{ bundle: { require_mode: \"path\" },", 1);
    BundleCase { files, config }
}

/// (file index, line the marker claims, line it is on)
fn tagged_markers_of(text: &str) -> Result<Vec<(usize, u32, u32)>, String> {
    let l = lex(text, Mode::Luau).map_err(|e| format!("{} (line {})", e.msg, e.line))?;
    let mut out = vec![];
    for t in &l.tokens {
        let quoted = |q: char| t.text.starts_with(q) && t.text[1..].starts_with('@') && t.text.ends_with(q) && t.text.len() > 3;
        if t.kind == TokKind::Str && (quoted('"') || quoted('\'')) {
            let body = &t.text[2..t.text.len() - 1];
            if let Some((i, n)) = body.split_once('L') {
                if let (Ok(i), Ok(n)) = (i.parse::<usize>(), n.parse::<u32>()) {
                    out.push((i, n, t.line));
                }
            }
        }
    }
    Ok(out)
}

/// the word `type` followed by white space or a comment: generous test for a type declaration
fn may_declare_type(text: &str) -> bool {
    text.match_indices("type").any(|(i, _)| text[i + 4..].starts_with(|c: char| c.is_whitespace() || c == '-'))
}

/// Ok(Some((files with surviving markers, surviving markers)))
fn check_bundle(case: &BundleCase) -> Result<Option<(usize, usize)>, String> {
    for (i, (path, text)) in case.files.iter().enumerate() {
        for (fi, n, line) in tagged_markers_of(text).map_err(|e| format!("harness: {} does not lex: {}", path, e))? {
            if fi != i || n != line {
                return Err(format!("harness: printer wrote marker @{}L{} on line {} of {}", fi, n, line, path));
            }
        }
        if crate::luasyn::parse::parse_with_options(text, Mode::Luau, crate::luasyn::parse::ParseOptions { check_loop_context: false, check_vararg_context: false }).is_err() {
            return Ok(None);
        }
    }
    let config = dl::parse_config(&case.config).map_err(|e| format!("harness: configuration rejected: {}", e))?;
    let (resources, errs) = match dl::process_project(&case.files, "src/main.lua", "out/main.lua", config) {
        Ok(r) => r,
        Err(dl::DlError::Process(_)) => return Ok(None),
        Err(e) => return Err(format!("{}", e)),
    };
    if !errs.is_empty() {
        return Ok(None);
    }
    let out = resources.get("out/main.lua").map_err(|_| "no bundle written and no error reported".to_string())?;
    let markers = tagged_markers_of(&out).map_err(|e| format!("the bundle does not lex: {}\n--- output\n{}", e, out))?;
    // a rule may duplicate an expression (remove_compound_assignment repeats a simple prefix / key):
    // one of the copies is the original. Per file, one amount must fit at least one occurrence
    // of every surviving marker.
    let mut deltas: std::collections::BTreeMap<usize, std::collections::BTreeMap<u32, Vec<i64>>> = Default::default();
    for (fi, n, line) in &markers {
        deltas.entry(*fi).or_default().entry(*n).or_default().push(*line as i64 - *n as i64);
    }
    for (fi, per_marker) in &deltas {
        let mut candidates: Option<Vec<i64>> = None;
        for ds in per_marker.values() {
            candidates = Some(match candidates {
                None => ds.clone(),
                Some(c) => c.into_iter().filter(|d| ds.contains(d)).collect(),
            });
        }
        if candidates.map(|c| c.is_empty()).unwrap_or(false) {
            let mut msg = format!(
                "in the bundle, the code of {} does not move by one amount: (marker line -> lines moved) {:?}\n--- config\n{}",
                case.files[*fi].0,
                per_marker.iter().map(|(n, ds)| format!("@{}L{} -> {:?}", fi, n, ds)).collect::<Vec<_>>(),
                case.config
            );
            for (p, text) in &case.files {
                msg.push_str(&format!("\n--- {}\n{}", p, text));
            }
            msg.push_str(&format!("\n--- bundle\n{}", out));
            return Err(msg);
        }
    }
    // the amount itself, where nothing is hoisted (no type declaration in any file): the files are laid
    // out one after the other, each taking the lines it has (line breaks + 1), so the code of a file
    // moves by the lines of the files placed before it. (With hoisted type declarations the count
    // is as intricate as the code under test and is not attempted.) Only when every file of the
    // project still has a marker in the bundle: a file without one is either not part of the bundle
    // or lost its marked code to a rule (filter_after_early_return ...), which cannot be told apart.
    let mut amount_checked = false;
    if deltas.len() == case.files.len() && case.files.iter().all(|(_, t)| !may_declare_type(t)) {
        let mut per_file: Vec<(i64, usize)> = vec![];
        for (fi, per_marker) in &deltas {
            let mut c: Vec<i64> = per_marker.values().next().cloned().unwrap_or_default();
            for ds in per_marker.values() {
                c.retain(|d| ds.contains(d));
            }
            c.sort();
            c.dedup();
            if c.len() == 1 {
                per_file.push((c[0], *fi));
            }
        }
        if per_file.len() == deltas.len() {
            per_file.sort();
            amount_checked = true;
            let mut before = 0i64;
            for (d, fi) in &per_file {
                if *d != before {
                    let mut msg = format!(
                        "in the bundle, the code of {} moves by {} line(s) but the files placed before it take {} line(s) (order and amounts: {:?})\n--- config\n{}",
                        case.files[*fi].0,
                        d,
                        before,
                        per_file.iter().map(|(d, fi)| format!("{} +{}", case.files[*fi].0, d)).collect::<Vec<_>>(),
                        case.config
                    );
                    for (p, text) in &case.files {
                        msg.push_str(&format!("\n--- {}\n{}", p, text));
                    }
                    msg.push_str(&format!("\n--- bundle\n{}", out));
                    return Err(msg);
                }
                before += case.files[*fi].1.matches('\n').count() as i64 + 1;
            }
        }
    }
    AMOUNT_CHECKED.with(|c| c.set(amount_checked));
    Ok(Some((deltas.len(), markers.len())))
}

fn replay(v: &Value) -> Result<(), String> {
    if v.get("kind").and_then(|k| k.as_str()) == Some("bundle") {
        let files: Vec<(String, String)> = serde_json::from_value(v.get("files").cloned().ok_or("malformed C04 replay")?).map_err(|e| e.to_string())?;
        let config = v.get("config").and_then(|s| s.as_str()).ok_or("malformed C04 replay")?.to_string();
        return check_bundle(&BundleCase { files, config }).map(|_| ());
    }
    let source = v.get("source").and_then(|s| s.as_str()).ok_or("malformed C04 replay")?;
    let config = v.get("config").and_then(|s| s.as_str()).ok_or("malformed C04 replay")?;
    let shift = match v.get("append_lines").and_then(|b| b.as_u64()).unwrap_or(0) {
        0 => Shift::None,
        n => Shift::AppendStart(n as u32),
    };
    check(source, config, &shift).map(|_| ())
}
