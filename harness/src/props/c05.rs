//! C05 — a bundle behaves like the program with its modules required normally.
//!
//! Valid graphs: expected = `luaref` runs the ENTRY text with a MODEL `require` (resolution by
//! the generator's ground truth, one evaluation per file, cached by file; data files yield the
//! expected value; excluded requires are external).  Actual = `darklua_core::process` with a
//! `bundle` configuration on the entry, then the single output file is run with a `require`
//! that answers "external" for everything.  Trace and returned values must be equal (Luau
//! dialect: the bundle wrapper uses type annotations).
//!
//! Invalid graphs (cycles, missing files, malformed modules / data files, unsupported
//! extensions): `process` must return, the work item must carry an error naming the offending
//! file(s), nothing may be written for the entry.

use crate::behave;
use crate::engine::*;
use crate::gen::bundlegen::{self, Avoid, DVal, Truth};
use crate::luaref::{self, Dialect, Outcome, RequireAction, RequireHost};
use crate::luasyn::ast::Block;
use crate::luasyn::{self, Mode};
use crate::tape::Tape;
use darklua_core::{Options, Resources};
use serde_json::{json, Value};
use std::collections::{BTreeMap, BTreeSet};
use std::path::Path;
use std::rc::Rc;

pub fn def() -> PropDef {
    PropDef {
        id: "C05",
        rule: "RANDOM graphs (4k quick / 120k thorough) in Resources::from_memory(): 1 entry (src/main.lua|.luau, src/app/main.lua) + 0-6 Lua/Luau modules (plain files and dir/init.lua folders in src, src/lib, src/lib/deep, src/app and inside module folders; LF or CRLF) returning a table / function / number / string / true, + a shared `counter` leaf that every module body bumps once, + 0-3 data files (json, json5, yaml, yml, toml with generated documents, txt); + 0-2 families of SAME-NAMED files in different directories (config / common / shared / helpers / index as plain file or init folder) that files starting their relative requires at different directories (the entry, modules, earlier twins) require with one identical literal (./T, ../T, ./sub/T), each twin identifying itself (name@dir, distinct value), so that one literal means several files (class same_literal_different_file, about 64 % of random graphs; requirers starting at the same directory share their twin); edges from lower to higher module index (DAG with diamonds and shared leaves) and from the entry; every require string is spelled so that its target is known by construction (./m, ./m.lua, ../x, d/../m, ././m, dir | dir/init | dir/init.lua for folders, @self/ in luau module-folder files, @lib/ @src/ through sources / aliases of a configuration FILE) and cross-checked with the documentation-only resolver of C15; requires in local / assignment / parenthesised / table constructor / argument / multiple-local / if / loop (evaluated twice) / and-operand / if-expression / type cast / interpolated string / call statement / unused local / prefix (.name, [\"name\"], (7), :describe()) / binary operand / return statement / nested function (called later, never called, function inside a function, lazy function of the returned table called by the entry) positions, written as require(\"s\"), require 's', require[[s]], with comments and line breaks inside the call; identically named module-level locals (value, M, helper, counter, calls, v, c, cache) in every module and in the entry; typed Luau modules exporting types (also generic, also re-exported through another module) referenced as m.T by the requirer, the entry declaring the same type names itself; user-defined `require` (local in a do block, parameter, local function, loop variable, entry-level until end of file) whose calls must be left alone, in the entry and in modules; excludes [@ext/**, **/vendor_*] with matching requires in the entry and in module functions; x require mode {path, luau} x generator {retain_lines, dense, readable} x rules {[], the 13 default rules} x configuration {in memory, read from a file}. The entry emits names, values, closure state (get/bump), identity comparisons of every module value it reaches through two paths, data-file content (every leaf, container sizes) and counter.n, calls returned functions, returns a value. EXHAUSTIVE (both tiers): every directed graph on the entry + at most 3 modules (66 066 graphs, self requires and edges back to the entry included): those with a cycle reachable from the entry must give an error naming every file of one of their cycles and no output, the others are checked like random graphs; plus 624 malformed projects (missing file, module with 0 / 2 return values, no return statement, return only inside a do block, empty file, syntax error, unsupported extension, invalid json / json5 / yaml / toml content) x 4 placements (required by the entry, through a chain, through a diamond, inside a function that is never called) x mode x generator x rules: error naming the offending file, no output, no panic. Non-trivial (counted for valid graphs only) = at least 2 Lua modules, at least 1 file required from at least 2 places, and the entry observes module state (counter or an identity comparison).",
        assumptions: &[
            "modules returning nil or false are not generated: a standard Lua `require` stores `true` for a nil result and re-runs the module for a false one, Luau returns the value as is, so `required normally` is not a single behaviour there",
            "module bodies have no externally visible effect at require time other than requiring other modules and bumping the shared counter module (commutative); excluded requires appear only in the entry and in functions that modules return",
            "`require` is never aliased (`local r = require`), never called with a computed, parenthesised or second argument: only calls the documentation says are inlined, plus calls of a user-defined local `require`, are generated",
            "data files are observed through their leaves and container sizes, never through the iteration order of their keys; data documents use finite numbers, strings, booleans, arrays and objects with identifier keys (conversion corners are C14's business)",
            "behaviour is compared under the Luau dialect of the reference interpreter (the bundle wrapper uses Luau type syntax); the original must finish without error there",
            "resolution rules are C15's business: only spellings the documentation-only resolver maps uniquely to the intended file are used, all files live under src/ (the known luau root-init defect of C15 is out of reach)",
            "a cyclic graph means a cycle among the requires as written (wherever they stand in the file) that is reachable from the entry; the error text must contain the path of every file of at least one such cycle",
            "a hang is monitored by the engine's watchdog, not decided",
        ],
        run,
        replay,
        minimize: Some(minimize),
    }
}

const OUT: &str = "out/bundle.lua";

// ------------------------------------------------------------------------------------ cases

#[derive(Clone, Debug)]
struct Case {
    files: BTreeMap<String, String>,
    entry: String,
    config: String,
    /// Some(path): the configuration text is written to this file and read from there
    config_path: Option<String>,
    truth: Vec<Truth>,
    data: BTreeMap<String, DVal>,
}

#[derive(Clone, Debug)]
enum Expect {
    /// the error text must contain at least one of these
    NamesAny(Vec<String>),
    /// require edges between files; a cycle reachable from the entry exists
    Cycle(Vec<(String, String)>),
}

#[derive(Clone, Debug)]
struct BadCase {
    files: BTreeMap<String, String>,
    entry: String,
    config: String,
    what: String,
    expect: Expect,
    /// known finding active: the error of an invalid data file does not name the file
    lenient_names: bool,
}

fn files_json(files: &BTreeMap<String, String>) -> Value {
    json!(files)
}

fn files_from(v: &Value) -> Option<BTreeMap<String, String>> {
    Some(v.as_object()?.iter().filter_map(|(k, x)| Some((k.clone(), x.as_str()?.to_string()))).collect())
}

impl Case {
    fn to_json(&self) -> Value {
        json!({
            "kind": "valid",
            "files": files_json(&self.files),
            "entry": self.entry,
            "config": self.config,
            "config_path": self.config_path,
            "truth": self.truth.iter().map(|t| json!({"from": t.from, "require": t.req, "to": t.to})).collect::<Vec<_>>(),
            "data": self.data.iter().map(|(k, v)| (k.clone(), v.to_json())).collect::<BTreeMap<_, _>>(),
        })
    }
    fn from_json(v: &Value) -> Option<Case> {
        let mut truth = vec![];
        for t in v.get("truth")?.as_array()? {
            truth.push(Truth { from: t.get("from")?.as_str()?.to_string(), req: t.get("require")?.as_str()?.to_string(), to: t.get("to").and_then(|x| x.as_str()).map(|s| s.to_string()) });
        }
        let mut data = BTreeMap::new();
        for (k, x) in v.get("data")?.as_object()? {
            data.insert(k.clone(), DVal::from_json(x)?);
        }
        Some(Case { files: files_from(v.get("files")?)?, entry: v.get("entry")?.as_str()?.to_string(), config: v.get("config")?.as_str()?.to_string(), config_path: v.get("config_path").and_then(|x| x.as_str()).map(|s| s.to_string()), truth, data })
    }
}

impl BadCase {
    fn to_json(&self) -> Value {
        let expect = match &self.expect {
            Expect::NamesAny(n) => json!({"names_any": n}),
            Expect::Cycle(e) => json!({"cycle_edges": e}),
        };
        json!({
            "kind": "invalid",
            "files": files_json(&self.files),
            "entry": self.entry,
            "config": self.config,
            "what": self.what,
            "expect": expect,
            "lenient_names": self.lenient_names,
        })
    }
    fn from_json(v: &Value) -> Option<BadCase> {
        let e = v.get("expect")?;
        let expect = if let Some(n) = e.get("names_any") {
            Expect::NamesAny(n.as_array()?.iter().filter_map(|x| x.as_str().map(|s| s.to_string())).collect())
        } else {
            let mut edges = vec![];
            for p in e.get("cycle_edges")?.as_array()? {
                let p = p.as_array()?;
                edges.push((p.first()?.as_str()?.to_string(), p.get(1)?.as_str()?.to_string()));
            }
            Expect::Cycle(edges)
        };
        Some(BadCase {
            files: files_from(v.get("files")?)?,
            entry: v.get("entry")?.as_str()?.to_string(),
            config: v.get("config")?.as_str()?.to_string(),
            what: v.get("what").and_then(|x| x.as_str()).unwrap_or("").to_string(),
            expect,
            lenient_names: v.get("lenient_names").and_then(|b| b.as_bool()).unwrap_or(false),
        })
    }
}

// ------------------------------------------------------------------------------------ darklua side

enum Processed {
    Panic(String),
    ConfigRejected(String),
    /// process() returned: errors of the run (process error or work item errors), the resources
    Returned { errors: Vec<String>, output: Option<String> },
}

fn bundle(files: &BTreeMap<String, String>, entry: &str, config_text: &str, config_path: Option<&str>) -> Processed {
    let config = match crate::dl::parse_config(config_text) {
        Ok(c) => c,
        Err(e) => return Processed::ConfigRejected(e),
    };
    let resources = Resources::from_memory();
    for (p, c) in files {
        resources.write(p, c).expect("memory write");
    }
    if let Some(p) = config_path {
        resources.write(p, config_text).expect("memory write");
    }
    let r = catch(|| {
        let options = Options::new(Path::new(entry)).with_output(Path::new(OUT));
        let options = match config_path {
            Some(p) => options.with_configuration_at(Path::new(p)),
            None => options.with_configuration(config),
        };
        darklua_core::process(&resources, options)
    });
    match r {
        Err(p) => Processed::Panic(p),
        Ok(Err(e)) => Processed::Returned { errors: vec![e.to_string()], output: resources.get(OUT).ok() },
        Ok(Ok(tree)) => Processed::Returned { errors: tree.collect_errors().iter().map(|e| e.to_string()).collect(), output: resources.get(OUT).ok() },
    }
}

// ------------------------------------------------------------------------------------ model require

struct ModelHost {
    truth: BTreeMap<(String, String), Option<String>>,
    blocks: BTreeMap<String, Rc<Block>>,
    /// how often each file was handed out (diagnostics only)
    asked: BTreeMap<String, usize>,
}

impl RequireHost for ModelHost {
    fn require(&mut self, arg: &[u8], from_chunk: &str) -> RequireAction {
        let Ok(s) = std::str::from_utf8(arg) else { return RequireAction::External };
        match self.truth.get(&(from_chunk.to_string(), s.to_string())) {
            Some(Some(path)) => match self.blocks.get(path) {
                Some(b) => {
                    *self.asked.entry(path.clone()).or_insert(0) += 1;
                    RequireAction::Module { cache_key: path.clone(), chunk_name: path.clone(), block: b.clone() }
                }
                None => RequireAction::Fail(format!("the ground truth names a file that does not exist: {}", path)),
            },
            // excluded by construction, or not a require the generator wrote
            _ => RequireAction::External,
        }
    }
}

struct ExternalOnly;

impl RequireHost for ExternalOnly {
    fn require(&mut self, _arg: &[u8], _from: &str) -> RequireAction {
        RequireAction::External
    }
}

fn run_cfg() -> luaref::Config {
    luaref::Config { dialect: Dialect::Luau, step_budget: 60_000, ..luaref::Config::default() }
}

fn is_lua(p: &str) -> bool {
    p.ends_with(".lua") || p.ends_with(".luau")
}

/// Err = harness problem (a generated file does not parse)
fn run_model(case: &Case) -> Result<Outcome, String> {
    let mut blocks: BTreeMap<String, Rc<Block>> = BTreeMap::new();
    for (p, text) in &case.files {
        if is_lua(p) {
            let parsed = luasyn::parse(text, Mode::Luau).map_err(|e| format!("generated file {} does not parse: {} at line {}\n{}", p, e.msg, e.line, text))?;
            blocks.insert(p.clone(), Rc::new(parsed.block));
        }
    }
    for (p, v) in &case.data {
        let text = format!("return {}\n", v.to_lua());
        let parsed = luasyn::parse(&text, Mode::Luau).map_err(|e| format!("model text of data file {} does not parse: {}\n{}", p, e.msg, text))?;
        blocks.insert(p.clone(), Rc::new(parsed.block));
    }
    let entry = blocks.get(&case.entry).cloned().ok_or_else(|| format!("no entry file {}", case.entry))?;
    let mut host = ModelHost { truth: case.truth.iter().map(|t| ((t.from.clone(), t.req.clone()), t.to.clone())).collect(), blocks, asked: BTreeMap::new() };
    Ok(luaref::run_with_require(&entry, &run_cfg(), &mut host, &case.entry))
}

fn first_difference(a: &Outcome, b: &Outcome) -> String {
    let da = behave::describe(a);
    let db = behave::describe(b);
    let la: Vec<&str> = da.lines().collect();
    let lb: Vec<&str> = db.lines().collect();
    for i in 0..la.len().max(lb.len()) {
        let x = la.get(i).copied().unwrap_or("<end>");
        let y = lb.get(i).copied().unwrap_or("<end>");
        if x != y {
            return format!("first difference at observation #{}:\n    required normally: {}\n    bundled:           {}", i + 1, x.trim(), y.trim());
        }
    }
    "outcomes differ".to_string()
}

enum Verdict {
    Same { events: usize },
    Discard(&'static str),
    Violation(String),
    Harness(String),
}

fn describe_case(case: &Case, output: Option<&str>) -> String {
    let mut s = format!("--- configuration{}\n{}\n--- entry {}\n", case.config_path.as_ref().map(|p| format!(" (file {})", p)).unwrap_or_default(), case.config, case.entry);
    for (p, t) in &case.files {
        s.push_str(&format!("--- file {}\n{}\n", p, t));
    }
    if let Some(o) = output {
        s.push_str(&format!("--- bundle\n{}\n", o));
    }
    s
}

/// preconditions of the property that a replay file (possibly reduced by hand or by the
/// minimizer) must still satisfy: every module ends with a single-value return, every require
/// the ground truth knows about points to an existing file
fn precondition(case: &Case) -> Option<&'static str> {
    use crate::luasyn::ast::Stmt;
    for (p, text) in &case.files {
        if !is_lua(p) || *p == case.entry {
            continue;
        }
        let Ok(parsed) = luasyn::parse(text, Mode::Luau) else { continue };
        match parsed.block.stmts.last() {
            Some(Stmt::Return(values)) if values.len() == 1 => {}
            _ => return Some("a module does not end with a single-value return statement"),
        }
    }
    for t in &case.truth {
        let (Some(to), Some(text)) = (&t.to, case.files.get(&t.from)) else { continue };
        let written = [t.req.clone(), t.req.replacen('.', "\\46", 1)].iter().any(|r| text.contains(&format!("\"{}\"", r)) || text.contains(&format!("'{}'", r)) || text.contains(&format!("[[{}]]", r)));
        if !case.files.contains_key(to) && written {
            return Some("a require written in a file points to a file that does not exist");
        }
    }
    None
}

fn check_valid(case: &Case) -> Verdict {
    if let Some(why) = precondition(case) {
        return Verdict::Discard(why);
    }
    let orig = match run_model(case) {
        Ok(o) => o,
        Err(e) => return Verdict::Harness(e),
    };
    if !matches!(orig, Outcome::Done { .. }) {
        return Verdict::Discard("the entry run with the model require errors or exceeds the step budget");
    }
    let (errors, output) = match bundle(&case.files, &case.entry, &case.config, case.config_path.as_deref()) {
        Processed::Panic(p) => return Verdict::Violation(format!("PANIC darklua panicked while bundling a valid module graph: {}\n{}", p, describe_case(case, None))),
        Processed::ConfigRejected(e) => return Verdict::Harness(format!("configuration rejected: {}\n{}", e, case.config)),
        Processed::Returned { errors, output } => (errors, output),
    };
    if !errors.is_empty() {
        return Verdict::Violation(format!("darklua failed on a valid module graph: {}\n{}", errors.join(" | "), describe_case(case, None)));
    }
    let Some(text) = output else {
        return Verdict::Violation(format!("no error reported and no output written\n{}", describe_case(case, None)));
    };
    let parsed = match luasyn::parse(&text, Mode::Luau) {
        Ok(p) => p,
        Err(e) => return Verdict::Violation(format!("the bundle is not valid Luau: {} at line {}\n{}", e.msg, e.line, describe_case(case, Some(&text)))),
    };
    let mut host = ExternalOnly;
    let got = luaref::run_with_require(&parsed.block, &run_cfg(), &mut host, OUT);
    if got != orig {
        return Verdict::Violation(format!("the bundle behaves differently from the entry run with a standard require\n{}\n{}", first_difference(&orig, &got), describe_case(case, Some(&text))));
    }
    Verdict::Same { events: behave::emits(&orig) }
}

// ------------------------------------------------------------------------------------ invalid graphs

/// simple cycles (as file lists) reachable from `entry`
fn reachable_cycles(edges: &[(String, String)], entry: &str) -> Vec<Vec<String>> {
    let mut adj: BTreeMap<&str, BTreeSet<&str>> = BTreeMap::new();
    for (a, b) in edges {
        adj.entry(a.as_str()).or_default().insert(b.as_str());
    }
    let mut reach: BTreeSet<&str> = BTreeSet::new();
    let mut todo = vec![entry];
    while let Some(x) = todo.pop() {
        if reach.insert(x) {
            if let Some(n) = adj.get(x) {
                todo.extend(n.iter().copied());
            }
        }
    }
    // DFS from every reachable node, cycles through the start node only (each simple cycle is
    // then found once per rotation, which is fine for an existence check)
    let mut out: Vec<Vec<String>> = vec![];
    fn dfs<'a>(start: &'a str, at: &'a str, path: &mut Vec<&'a str>, adj: &BTreeMap<&'a str, BTreeSet<&'a str>>, out: &mut Vec<Vec<String>>) {
        if let Some(next) = adj.get(at) {
            for n in next {
                if *n == start {
                    out.push(path.iter().map(|s| s.to_string()).collect());
                } else if !path.contains(n) && path.len() < 8 {
                    path.push(n);
                    dfs(start, n, path, adj, out);
                    path.pop();
                }
            }
        }
    }
    for s in &reach {
        let mut path = vec![*s];
        dfs(s, s, &mut path, &adj, &mut out);
    }
    out
}

fn check_invalid(case: &BadCase) -> Verdict {
    let describe = || {
        let mut s = format!("--- what: {}\n--- configuration\n{}\n--- entry {}\n", case.what, case.config, case.entry);
        for (p, t) in &case.files {
            s.push_str(&format!("--- file {}\n{}\n", p, t));
        }
        s
    };
    let (errors, output) = match bundle(&case.files, &case.entry, &case.config, None) {
        Processed::Panic(p) => return Verdict::Violation(format!("PANIC darklua panicked on an invalid module graph ({}): {}\n{}", case.what, p, describe())),
        Processed::ConfigRejected(e) => return Verdict::Harness(format!("configuration rejected: {}\n{}", e, case.config)),
        Processed::Returned { errors, output } => (errors, output),
    };
    if errors.is_empty() {
        return Verdict::Violation(format!("no error reported for an invalid module graph ({})\n{}--- output\n{}", case.what, describe(), output.unwrap_or_else(|| "<none>".into())));
    }
    if let Some(o) = output {
        return Verdict::Violation(format!("an error was reported ({}) but an output was written for the entry\n{}--- output\n{}", errors.join(" | "), describe(), o));
    }
    let text = errors.join("\n");
    match &case.expect {
        Expect::NamesAny(names) => {
            if !case.lenient_names && !names.iter().any(|n| text.contains(n.as_str())) {
                return Verdict::Violation(format!("the error does not name the offending file ({}; expected one of {:?})\nerror: {}\n{}", case.what, names, text, describe()));
            }
        }
        Expect::Cycle(edges) => {
            let cycles = reachable_cycles(edges, &case.entry);
            if cycles.is_empty() {
                return Verdict::Harness(format!("no reachable cycle in a case built as cyclic\n{}", describe()));
            }
            if !cycles.iter().any(|c| c.iter().all(|f| text.contains(f.as_str()))) {
                return Verdict::Violation(format!("the error of a cyclic graph does not name the files of any of its cycles {:?}\nerror: {}\n{}", cycles, text, describe()));
            }
        }
    }
    Verdict::Same { events: 0 }
}

// ------------------------------------------------------------------------------------ small graphs

/// index -> (number of nodes, edge mask); node 0 is the entry; bit (i * n + j) = i requires j
fn small_graph_of(index: u64) -> (usize, u32) {
    let mut rest = index;
    for n in 1..=4usize {
        let count = 1u64 << (n * n);
        if rest < count {
            return (n, rest as u32);
        }
        rest -= count;
    }
    (4, 0)
}

const SMALL_TOTAL: u64 = 2 + 16 + 512 + 65536;

fn small_path(k: usize) -> String {
    if k == 0 {
        "src/main.lua".to_string()
    } else {
        format!("src/m{}.lua", k)
    }
}

fn small_req(k: usize) -> String {
    if k == 0 {
        "./main".to_string()
    } else {
        format!("./m{}", k)
    }
}

enum Small {
    Valid(Case),
    Cyclic(BadCase),
}

fn config_of(index: u64) -> String {
    let luau = index % 2 == 1;
    let generator = match (index / 2) % 3 {
        0 => crate::dl::generator_json("retain_lines", 0),
        1 => crate::dl::generator_json("dense", 80),
        _ => crate::dl::generator_json("readable", 80),
    };
    let default_rules = (index / 6) % 3 == 0;
    bundlegen::config_text(luau, &generator, default_rules, &[])
}

fn build_small(index: u64) -> Small {
    let (n, mask) = small_graph_of(index);
    let has = |i: usize, j: usize| mask & (1 << (i * n + j)) != 0;
    let mut files: BTreeMap<String, String> = BTreeMap::new();
    let mut truth: Vec<Truth> = vec![];
    let mut edges: Vec<(String, String)> = vec![];
    for i in 0..n {
        let me = small_path(i);
        let mut s = String::new();
        s.push_str(&format!("local M = {{ name = \"n{}\" }}\n", i));
        s.push_str(&format!("local value = {}\n", i));
        s.push_str("local counter = require(\"./counter\")\ncounter.n = counter.n + 1\n");
        truth.push(Truth { from: me.clone(), req: "./counter".into(), to: Some("src/counter.lua".into()) });
        let mut lazies = vec![];
        for j in 0..n {
            if !has(i, j) {
                continue;
            }
            let req = small_req(j);
            truth.push(Truth { from: me.clone(), req: req.clone(), to: Some(small_path(j)) });
            edges.push((me.clone(), small_path(j)));
            match (i + 2 * j + mask.count_ones() as usize) % 4 {
                0 => s.push_str(&format!("local d{} = require(\"{}\")\nM.d{} = d{}\n", j, req, j, j)),
                1 => s.push_str(&format!("M.d{} = require(\"{}\")\n", j, req)),
                2 => {
                    s.push_str(&format!("function M.lazy{}() return require(\"{}\") end\n", j, req));
                    lazies.push(j);
                }
                _ => s.push_str(&format!("require(\"{}\")\n", req)),
            }
        }
        s.push_str("function M.get() return value end\n");
        if i == 0 {
            for j in &lazies {
                s.push_str(&format!("emit(\"lazy{}\", M.lazy{}().name)\n", j, j));
            }
            s.push_str("emit(\"graph\", M)\nemit(\"counter\", counter.n, value)\n");
            for j in 0..n {
                for k in 0..n {
                    // a diamond seen from the entry: both paths must give one table
                    if j != k && has(0, j) && has(0, k) && has(j, k) {
                        s.push_str(&format!("if M.d{} and M.d{} and M.d{}.d{} then emit(\"same\", M.d{}.d{} == M.d{}) end\n", j, k, j, k, j, k, k));
                    }
                }
            }
        }
        s.push_str("return M\n");
        files.insert(me, s);
    }
    files.insert("src/counter.lua".into(), "return { n = 0 }\n".into());
    let config = config_of(index);
    let entry = small_path(0);
    if reachable_cycles(&edges, &entry).is_empty() {
        Small::Valid(Case { files, entry, config, config_path: None, truth, data: BTreeMap::new() })
    } else {
        Small::Cyclic(BadCase { files, entry, config, what: format!("cyclic graph on {} files, edge mask {:#b}", n, mask), expect: Expect::Cycle(edges), lenient_names: false })
    }
}

// ------------------------------------------------------------------------------------ malformed projects

const BAD_KINDS: [&str; 13] = ["missing", "missing-data", "return-0", "return-2", "no-return", "empty-file", "syntax-error", "extension-xml", "bad-json", "bad-json5", "bad-yaml", "bad-toml", "return-in-do"];
const PLACEMENTS: [&str; 4] = ["direct", "chain", "diamond", "never-called"];

fn malformed_total() -> u64 {
    (BAD_KINDS.len() * PLACEMENTS.len() * 2 * 3 * 2) as u64
}

fn build_malformed(index: u64, lenient_data_names: bool) -> BadCase {
    let kind = BAD_KINDS[(index % BAD_KINDS.len() as u64) as usize];
    let rest = index / BAD_KINDS.len() as u64;
    let placement = PLACEMENTS[(rest % 4) as usize];
    let cfg_index = rest / 4; // 0..12: mode x generator x rules
    let luau = cfg_index % 2 == 1;
    let generator = match (cfg_index / 2) % 3 {
        0 => crate::dl::generator_json("retain_lines", 0),
        1 => crate::dl::generator_json("dense", 80),
        _ => crate::dl::generator_json("readable", 80),
    };
    let default_rules = (cfg_index / 6) % 2 == 1;
    let config = bundlegen::config_text(luau, &generator, default_rules, &[]);
    // the offending file
    let (bad_path, bad_text, tail, names): (Option<&str>, &str, &str, Vec<String>) = match kind {
        "missing" => (None, "", "lib/gone", vec!["src/lib/gone".into(), "lib/gone".into()]),
        "missing-data" => (None, "", "lib/gone.json", vec!["src/lib/gone.json".into(), "lib/gone.json".into()]),
        "return-0" => (Some("src/lib/bad.lua"), "local value = 1\nreturn\n", "lib/bad", vec!["src/lib/bad.lua".into()]),
        "return-2" => (Some("src/lib/bad.lua"), "local value = 1\nreturn value, 2\n", "lib/bad", vec!["src/lib/bad.lua".into()]),
        "no-return" => (Some("src/lib/bad.lua"), "local value = 1\nlocal M = { value = value }\n", "lib/bad", vec!["src/lib/bad.lua".into()]),
        "empty-file" => (Some("src/lib/bad.luau"), "", "lib/bad", vec!["src/lib/bad.luau".into()]),
        "syntax-error" => (Some("src/lib/bad.lua"), "local M = {}\nlocal = 1\nreturn M\n", "lib/bad", vec!["src/lib/bad.lua".into()]),
        "extension-xml" => (Some("src/lib/data.xml"), "<data/>\n", "lib/data.xml", vec!["src/lib/data.xml".into()]),
        "bad-json" => (Some("src/lib/data.json"), "{\"a\": }\n", "lib/data.json", vec!["src/lib/data.json".into()]),
        "bad-json5" => (Some("src/lib/data.json5"), "{a: [1, }\n", "lib/data.json5", vec!["src/lib/data.json5".into()]),
        "bad-yaml" => (Some("src/lib/data.yaml"), "a: [1, 2\nb: }\n", "lib/data.yaml", vec!["src/lib/data.yaml".into()]),
        "bad-toml" => (Some("src/lib/data.toml"), "a = = 1\n", "lib/data.toml", vec!["src/lib/data.toml".into()]),
        _ => (Some("src/lib/bad.lua"), "local value = 1\ndo return value end\n", "lib/bad", vec!["src/lib/bad.lua".into()]),
    };
    let mut files: BTreeMap<String, String> = BTreeMap::new();
    if let Some(p) = bad_path {
        files.insert(p.to_string(), bad_text.to_string());
    }
    let from_src = format!("./{}", tail);
    // src/b/init.lua: `./` is src/b under the path mode, src under the luau mode
    let from_b = if luau { format!("./{}", tail) } else { format!("../{}", tail) };
    let entry_text = match placement {
        "direct" => format!("local value = \"entry\"\nlocal bad = require(\"{}\")\nemit(\"got\", value)\nreturn bad\n", from_src),
        "chain" => {
            files.insert("src/a.lua".into(), format!("local value = 2\nlocal bad = require(\"{}\")\nreturn {{ bad = bad, value = value }}\n", from_src));
            "local a = require(\"./a\")\nemit(\"got\", a.value)\nreturn a.value\n".to_string()
        }
        "diamond" => {
            files.insert("src/a.lua".into(), format!("local value = 2\nlocal bad = require(\"{}\")\nreturn {{ bad = bad, value = value }}\n", from_src));
            files.insert("src/b/init.lua".into(), format!("local value = 3\nreturn {{ bad = require(\"{}\"), value = value }}\n", from_b));
            "local a = require(\"./a\")\nlocal b = require(\"./b\")\nemit(\"got\", a.bad == b.bad)\nreturn a.value\n".to_string()
        }
        _ => format!("local function never()\n    return require(\"{}\")\nend\nemit(\"got\", 1)\nreturn 1\n", from_src),
    };
    files.insert("src/main.lua".into(), entry_text);
    let is_data_content = matches!(kind, "bad-json" | "bad-json5" | "bad-yaml" | "bad-toml");
    BadCase {
        files,
        entry: "src/main.lua".into(),
        config,
        what: format!("{} / {}", kind, placement),
        expect: Expect::NamesAny(names),
        lenient_names: lenient_data_names && is_data_content,
    }
}

// ------------------------------------------------------------------------------------ driver

fn generator_label(config: &str) -> &'static str {
    if config.contains("retain_lines") {
        "generator:retain_lines"
    } else if config.contains("dense") {
        "generator:dense"
    } else {
        "generator:readable"
    }
}

fn settle(v: Verdict, replay: impl FnOnce() -> Value, nontrivial: Option<u64>) -> CaseResult {
    match v {
        Verdict::Same { .. } => CaseResult::Pass { nontrivial },
        Verdict::Discard(why) => CaseResult::Discard(why),
        Verdict::Violation(m) => {
            let f = Failure::new(m.clone(), replay());
            // a panic is recognised by location + message when it is a listed finding
            if let Some(rest) = m.strip_prefix("PANIC ") {
                let sig = rest.lines().next().unwrap_or("").split(": ").skip(1).collect::<Vec<_>>().join(": ");
                return CaseResult::Fail(f.with_signature(sig));
            }
            CaseResult::Fail(f)
        }
        Verdict::Harness(m) => CaseResult::Fail(Failure::new(format!("HARNESS ERROR (not a darklua defect): {}", m), replay())),
    }
}

fn run(ctx: &RunCtx) {
    let avoid = Avoid { module_shadow: ctx.avoid("c05-module-require-shadow"), alias_dot_location: ctx.avoid("c05-alias-dot-location") };
    let lenient_data_names = ctx.avoid("c05-data-error-unnamed");

    // ---- every directed graph on the entry + at most 3 modules
    ctx.note(format!("small graphs: {} = every directed graph on 1..4 files (entry + <= 3 modules), self requires and edges to the entry included", SMALL_TOTAL));
    ctx.enumerate("small-graphs", SMALL_TOTAL, |i, st| match build_small(i) {
        Small::Valid(case) => {
            st.class("small:acyclic from the entry (behaviour compared)");
            // the counter file is required by every file and observed by the entry: non-trivial
            // as soon as two modules are reachable from the entry
            let mut reach: BTreeSet<&str> = BTreeSet::new();
            let mut todo = vec![case.entry.as_str()];
            while let Some(x) = todo.pop() {
                if reach.insert(x) {
                    todo.extend(case.truth.iter().filter(|t| t.from == x).filter_map(|t| t.to.as_deref()));
                }
            }
            let nt = (reach.len() >= 4).then(|| hash_str(&case.to_json().to_string()));
            if i % 7919 == 0 {
                st.sample(|| json!({"small_graph": i, "files": case.files, "config": case.config}));
            }
            settle(check_valid(&case), || case.to_json(), nt)
        }
        Small::Cyclic(case) => {
            st.class("small:cycle reachable from the entry (error expected)");
            settle(check_invalid(&case), || case.to_json(), None)
        }
    });
    ctx.exhaustive.store(true, std::sync::atomic::Ordering::Relaxed);

    // ---- wide projects: more modules than the one-letter names of the module table can hold
    const WIDTHS: [usize; 10] = [25, 26, 27, 52, 53, 54, 55, 64, 110, 160];
    ctx.enumerate("wide", (WIDTHS.len() * 4) as u64, |i, st| {
        let n = WIDTHS[i as usize / 4];
        let luau = i % 2 == 1;
        // a chain nests two calls per module in the bundle; the reference interpreter allows 160 frames
        let chain = (i / 2) % 2 == 1 && n <= 55;
        let entry = "src/main.lua".to_string();
        let mut files = BTreeMap::new();
        let mut truth = vec![];
        let mut main = String::new();
        for k in 1..=n {
            let path = format!("src/m{}.lua", k);
            let mut text = String::new();
            // chain: module k also requires module k + 1 (one long dependency path)
            if chain && k < n {
                text.push_str(&format!("local nxt = require(\"./m{}\")\n", k + 1));
                truth.push(Truth { from: path.clone(), req: format!("./m{}", k + 1), to: Some(format!("src/m{}.lua", k + 1)) });
            }
            text.push_str(&format!("emit(\"run\", {})\nreturn {{ id = {}{} }}\n", k, k, if chain && k < n { ", nxt = nxt" } else { "" }));
            files.insert(path.clone(), text);
            if !chain || k == 1 {
                main.push_str(&format!("local m{} = require(\"./m{}\")\nemit(m{}.id)\n", k, k, k));
                truth.push(Truth { from: entry.clone(), req: format!("./m{}", k), to: Some(path) });
            }
        }
        if chain {
            main.push_str("local x = m1\nwhile x do emit(\"chain\", x.id) x = x.nxt end\n");
        }
        files.insert(entry.clone(), main);
        let config = bundlegen::config_text(luau, ["\"dense\"", "\"readable\"", "\"retain_lines\""][(i % 3) as usize], i % 5 == 0, &[]);
        let case = Case { files, entry, config, config_path: None, truth, data: BTreeMap::new() };
        st.class(&format!("wide:{} modules", n));
        settle(check_valid(&case), || case.to_json(), Some(hash_str(&case.to_json().to_string())))
    });

    // ---- malformed projects
    ctx.enumerate("malformed", malformed_total(), |i, st| {
        let case = build_malformed(i, lenient_data_names);
        st.class(&format!("malformed:{}", case.what.split(" / ").next().unwrap_or("")));
        if case.lenient_names {
            st.class("avoided_for_known_findings");
            st.class("avoided:c05-data-error-unnamed (file name not demanded)");
        }
        settle(check_invalid(&case), || case.to_json(), None)
    });

    // ---- random graphs
    let cases = ctx.tier.pick(4_000, 120_000);
    ctx.search("graphs", cases, 640, |tape, st| {
        let mut t = Tape::new(tape);
        let g = bundlegen::gen_graph(&mut t, avoid);
        if g.ambiguous.is_some() {
            return CaseResult::Discard("a spelling is not resolved uniquely to the intended file by the documentation-only model");
        }
        let case = Case { files: g.files.clone(), entry: g.entry.clone(), config: g.config_text(), config_path: g.config_path.clone(), truth: g.truth.clone(), data: g.data.clone() };
        let verdict = check_valid(&case);
        if matches!(verdict, Verdict::Same { .. }) {
            for f in &g.features {
                st.class(f);
            }
            st.class(if g.luau_mode { "mode:luau" } else { "mode:path" });
            st.class(generator_label(&g.generator));
            st.class(if g.default_rules { "rules:default 13" } else { "rules:none" });
            st.class(if g.config_path.is_some() { "configuration:read from a file" } else { "configuration:in memory" });
            if !g.avoided.is_empty() {
                st.class("avoided_for_known_findings");
                for a in &g.avoided {
                    st.class(&format!("avoided:{}", a));
                }
            }
            if let Verdict::Same { events } = &verdict {
                st.class_n("events observed", *events as u64);
            }
            st.sample(|| json!({"files": case.files, "config": case.config, "entry": case.entry}));
        }
        if g.same_literal_different_file() >= 1 {
            st.class("same_literal_different_file");
        }
        let shared = g.shared_targets();
        if shared >= 1 {
            st.class("shape:a file required from >= 2 places");
        }
        let nontrivial = g.lua_modules >= 2 && shared >= 1 && g.observes_state;
        let h = nontrivial.then(|| hash_str(&case.to_json().to_string()));
        settle(verdict, || case.to_json(), h)
    });
}

fn verdict_of(v: &Value) -> Result<Verdict, String> {
    match v.get("kind").and_then(|k| k.as_str()) {
        Some("invalid") => Ok(check_invalid(&BadCase::from_json(v).ok_or("malformed C05 replay file")?)),
        _ => Ok(check_valid(&Case::from_json(v).ok_or("malformed C05 replay file")?)),
    }
}

fn replay(v: &Value) -> Result<(), String> {
    match verdict_of(v)? {
        Verdict::Same { .. } | Verdict::Discard(_) => Ok(()),
        Verdict::Violation(m) => Err(m),
        Verdict::Harness(m) => Err(format!("HARNESS ERROR (not a darklua defect): {}", m)),
    }
}

/// line-level reducer: drop whole files, then single lines, while the case stays a violation
fn minimize(v: &Value) -> Option<Value> {
    // invalid graphs are small and their expectation is tied to their files: not reduced
    if v.get("kind").and_then(|k| k.as_str()) == Some("invalid") {
        return None;
    }
    // the category of the violation (text before the first ':' / newline) must not change
    let category = |c: &Value| -> Option<String> {
        match verdict_of(c) {
            Ok(Verdict::Violation(m)) => Some(m.lines().next().unwrap_or("").split(':').next().unwrap_or("").to_string()),
            _ => None,
        }
    };
    let original = category(v)?;
    let still_fails = |c: &Value| category(c).as_deref() == Some(original.as_str());
    // a line declaring a user `require` is never removed (the calls below it would become real
    // requires the ground truth knows nothing about), data files are only removed as a whole
    let protected = |line: &str| line.contains("local require") || line.contains("local function require") || line.contains("(require)") || line.contains(", require in");
    let mut cur = v.clone();
    let entry = cur.get("entry")?.as_str()?.to_string();
    let mut budget = 1500usize;
    // whole files (not the entry), then single lines, to a fixed point
    loop {
        let mut changed = false;
        let names: Vec<String> = cur.get("files")?.as_object()?.keys().cloned().collect();
        for n in &names {
            if *n == entry || budget == 0 {
                continue;
            }
            let mut cand = cur.clone();
            cand["files"].as_object_mut()?.remove(n);
            budget -= 1;
            if still_fails(&cand) {
                cur = cand;
                changed = true;
            }
        }
        let names: Vec<String> = cur.get("files")?.as_object()?.keys().cloned().collect();
        for n in &names {
            if !is_lua(n) {
                continue;
            }
            let text = cur["files"][n].as_str()?.to_string();
            let mut lines: Vec<String> = text.split('\n').map(|s| s.to_string()).collect();
            let mut i = lines.len();
            while i > 0 && budget > 0 {
                i -= 1;
                if (lines[i].is_empty() && i + 1 == lines.len()) || protected(&lines[i]) {
                    continue;
                }
                let mut l2 = lines.clone();
                l2.remove(i);
                let mut cand = cur.clone();
                cand["files"][n] = json!(l2.join("\n"));
                budget -= 1;
                if still_fails(&cand) {
                    cur = cand;
                    lines = l2;
                    changed = true;
                }
            }
        }
        if !changed || budget == 0 {
            break;
        }
    }
    Some(cur)
}
