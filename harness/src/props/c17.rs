//! C17 — removal and injection rules change exactly what they name.

use crate::behave::{self, Verdict};
use crate::dl::{self, DEFAULT_RULES};
use crate::engine::*;
use crate::gen::c17gen::{self, to_preset, NAME};
use crate::luaref::{Config, Dialect, PresetValue};
use crate::props::common;
use crate::tape::Tape;
use serde_json::{json, Value};

pub fn def() -> PropDef {
    PropDef {
        id: "C17",
        rule: "programs calling assert / debug.profilebegin / debug.profileend in statement and single-value expression positions with 0..n arguments (literals, probe calls, multi-value tails) and reading the injected global FLAG as identifier, _G.FLAG, _G[\"FLAG\"], in expression, prefix (FLAG.k, FLAG[1], FLAG:upper()) and condition positions, under shadowing of assert / debug / select / _G / FLAG by locals, parameters and loop variables at any depth, plus same-named fields of another table; injected values of every JSON kind. 4 configurations per program (each rule alone, all three in random order, all three followed by the default rules). Oracle: luaref runs the ORIGINAL in a modified environment (assert returns its arguments, profiling functions are no-ops, FLAG preset to the value, also through _G) and the TRANSFORMED program in the normal environment; traces and results must be equal. Non-trivial = >= 1 targeted use of the real global and >= 1 shadowed or foreign-field use, and >= 1 argument with side effects.",
        assumptions: &[
            "as C01; programs never assign the injected global and only read injected tables; zero-argument assert is not generated; profiling calls appear only in statement or single-value positions",
            "preserve_arguments_side_effects is left at its default (true), the property's scope",
        ],
        run,
        replay,
        minimize: Some(minimize),
    }
}

#[derive(Clone, Debug)]
struct Env {
    assert_passthrough: bool,
    preset: Option<PresetValue>,
}

fn env_cfg(env: &Env, d: Dialect) -> Config {
    let mut c = behave::cfg(d);
    c.assert_passthrough = env.assert_passthrough;
    if let Some(v) = &env.preset {
        c.preset_globals = vec![(NAME.to_string(), v.clone())];
    }
    c
}

/// environment variables holding every value the generator can inject (set once, before any thread
/// starts): DLV_C17_J<hash> = the JSON text, DLV_C17_S<hash> = the raw text of a string value
fn env_names(value: &Value) -> (String, Option<String>) {
    let h = hash_str(&value.to_string()) % 100_000;
    (format!("DLV_C17_J{}", h), value.as_str().map(|_| format!("DLV_C17_S{}", h)))
}

fn setup_value_env() {
    // every value of c17gen::gen_value, through the generator itself
    for b in 0..=255u8 {
        let tape = [b];
        let mut t = Tape::new(&tape);
        let v = c17gen::gen_value(&mut t, false).json;
        let (j, s) = env_names(&v);
        std::env::set_var(&j, v.to_string());
        if let (Some(s), Some(text)) = (s, v.as_str()) {
            std::env::set_var(&s, text);
        }
    }
    std::env::remove_var("DLV_C17_UNSET");
}

fn gen_configs(t: &mut Tape, value: &Value) -> Vec<(String, Env)> {
    // the value is given directly, or through an environment variable (as text for a string - an
    // EMPTY variable is a defined one - or as JSON), with or without a default that must not be used
    let (env_json, env_text) = env_names(value);
    let inject = match (t.choose(6), env_text) {
        (0, _) => format!("{{ rule: \"inject_global_value\", identifier: \"{}\", env_json: \"{}\" }}", NAME, env_json),
        (1, Some(e)) => format!("{{ rule: \"inject_global_value\", identifier: \"{}\", env: \"{}\" }}", NAME, e),
        (2, Some(e)) => format!("{{ rule: \"inject_global_value\", identifier: \"{}\", env: \"{}\", default_value: \"unused default\" }}", NAME, e),
        (3, _) => format!("{{ rule: \"inject_global_value\", identifier: \"{}\", env: \"DLV_C17_UNSET\", default_value: {} }}", NAME, value),
        _ => format!("{{ rule: \"inject_global_value\", identifier: \"{}\", value: {} }}", NAME, value),
    };
    let ra = "\"remove_assertions\"".to_string();
    let rd = "\"remove_debug_profiling\"".to_string();
    let preset = Some(to_preset(value));
    let mut out = vec![];
    let gen = |t: &mut Tape| {
        let (g, span) = crate::props::c01::gen_name(t);
        dl::generator_json(&g, span)
    };
    // each rule alone (one of them per program), all three in random order, all three + defaults
    let g = gen(t);
    match t.choose(3) {
        0 => out.push((dl::config_text(&[ra.clone()], &g), Env { assert_passthrough: true, preset: None })),
        1 => out.push((dl::config_text(&[rd.clone()], &g), Env { assert_passthrough: false, preset: None })),
        _ => out.push((dl::config_text(&[inject.clone()], &g), Env { assert_passthrough: false, preset: preset.clone() })),
    }
    let mut all = vec![ra.clone(), rd.clone(), inject.clone()];
    let k = t.choose(6);
    all.rotate_left(k % 3);
    if k >= 3 {
        all.swap(0, 1);
    }
    let full = Env { assert_passthrough: true, preset: preset.clone() };
    let g = gen(t);
    out.push((dl::config_text(&all, &g), full.clone()));
    let g = gen(t);
    out.push((dl::config_text(&[ra.clone(), inject.clone()], &g), full.clone()));
    let mut with_defaults = all.clone();
    with_defaults.extend(dl::quote_rules(&DEFAULT_RULES));
    let g = gen(t);
    out.push((dl::config_text(&with_defaults, &g), full));
    out
}

fn check_one(source: &str, config: &str, env: &Env) -> Result<(Verdict, Option<String>), String> {
    let orig = behave::run_original(source, &|d| env_cfg(env, d))?;
    Ok(behave::check_rules(source, config, &orig, &common::plain_cfg))
}

fn env_json(e: &Env) -> Value {
    json!({"assert_passthrough": e.assert_passthrough, "preset": e.preset.as_ref().map(preset_json)})
}

fn preset_json(p: &PresetValue) -> Value {
    match p {
        PresetValue::Nil => Value::Null,
        PresetValue::Bool(b) => json!(b),
        PresetValue::Num(n) => json!(n),
        PresetValue::Str(s) => json!(String::from_utf8_lossy(s)),
        PresetValue::Array(a) => Value::Array(a.iter().map(preset_json).collect()),
        PresetValue::Object(o) => Value::Object(o.iter().map(|(k, v)| (k.clone(), preset_json(v))).collect()),
    }
}

fn env_from_json(v: &Value) -> Option<Env> {
    let preset = match v.get("preset") {
        None => None,
        Some(p) if v.get("has_preset").and_then(|b| b.as_bool()) == Some(false) => {
            let _ = p;
            None
        }
        Some(p) => Some(to_preset(p)),
    };
    Some(Env { assert_passthrough: v.get("assert_passthrough")?.as_bool()?, preset })
}

fn run(ctx: &RunCtx) {
    setup_value_env();
    crate::behave::ALLOW_LUAU_ESCAPES.store(ctx.avoid("unicode-escape-not-lua51"), std::sync::atomic::Ordering::Relaxed);
    let avoid_prefix = ctx.avoid("inject-prefix-shadowing");
    let avoid_mode_obj = ctx.avoid("inject-require-mode-object");
    let n = ctx.tier.pick(15_000, 300_000);
    ctx.search("programs", n, 400, |tape, st| {
        let mut t = Tape::new(tape);
        let prog = c17gen::gen(&mut t, avoid_mode_obj);
        if avoid_prefix && prefix_use_under_shadow(&prog.source) {
            return CaseResult::Discard("avoided: known finding inject-prefix-shadowing");
        }
        if avoid_const_andor(&prog.source) {
            // shares the default rules' known finding only through the 4th configuration; nothing to do here
        }
        let configs = gen_configs(&mut t, &prog.value.json);
        st.class_n("global_target_uses", prog.stats.global_target_uses as u64);
        st.class_n("shadowed_target_uses", prog.stats.shadowed_target_uses as u64);
        st.class_n("field_of_other_table", prog.stats.field_of_other_table as u64);
        st.class_n("side_effect_args", prog.stats.side_effect_args as u64);
        st.class_n("expr_position", prog.stats.expr_position as u64);
        st.class_n("prefix_position", prog.stats.prefix_position as u64);
        st.class(match prog.value.kind {
            c17gen::VKind::Nil => "value_nil",
            c17gen::VKind::Bool => "value_bool",
            c17gen::VKind::Num => "value_number",
            c17gen::VKind::Str => "value_string",
            c17gen::VKind::Arr => "value_array",
            c17gen::VKind::Obj => "value_object",
        });
        let interesting = prog.stats.global_target_uses >= 1 && (prog.stats.shadowed_target_uses + prog.stats.field_of_other_table) >= 1 && prog.stats.side_effect_args >= 1;
        let mut nontrivial = None;
        let mut any = false;
        for (config, env) in &configs {
            let (v, out) = match check_one(&prog.source, config, env) {
                Ok(r) => r,
                Err(e) => return CaseResult::Fail(Failure::new(e, json!({"kind": "harness", "source": prog.source}))),
            };
            match v {
                Verdict::Same { emits, .. } => {
                    any = true;
                    if interesting && emits >= 1 {
                        nontrivial = Some(hash_parts(&[prog.source.as_bytes(), config.as_bytes()]));
                    }
                }
                Verdict::Discard(_) => {
                    st.class("config_discarded_original_errors");
                }
                Verdict::Differs(msg) => {
                    return CaseResult::Fail(Failure::new(
                        format!("{}\n--- configuration\n{}\n--- expected environment\n{}\n--- source\n{}\n--- output\n{}", msg, config, env_json(env), prog.source, out.unwrap_or_default()),
                        json!({"kind": "c17", "source": prog.source, "config": config, "env": env_json(env), "has_preset": env.preset.is_some()}),
                    ));
                }
            }
        }
        if !any {
            return CaseResult::Discard("original errors under every configuration's environment");
        }
        st.sample(|| json!({"source": prog.source, "value": prog.value.json, "configs": configs.iter().map(|c| c.0.clone()).collect::<Vec<_>>()}));
        CaseResult::Pass { nontrivial }
    });
}

fn avoid_const_andor(_s: &str) -> bool {
    false
}

/// known finding "inject-prefix-shadowing": FLAG used as a prefix (FLAG.k / FLAG[1] / FLAG:m())
/// while a local / parameter / loop variable FLAG is in scope
fn prefix_use_under_shadow(source: &str) -> bool {
    use crate::luasyn::resolve::resolve;
    let Ok(p) = crate::luasyn::parse(source, crate::luasyn::Mode::Luau) else { return false };
    // prefix uses are detected textually on the generator's own spellings, the binding by the resolver
    let res = resolve(&p.block);
    let shadowed_use = res.occurrences.iter().any(|o| o.name == NAME && !o.role.is_decl() && o.decl.is_some());
    if !shadowed_use {
        return false;
    }
    let mut found = false;
    crate::visit::walk_block(&p.block, &mut |n| {
        if let crate::visit::Node::Expr { e, .. } = n {
            use crate::luasyn::ast::Expr;
            let is_flag = |x: &Expr| matches!(x, Expr::Name(n) if n == NAME);
            match e {
                Expr::Field { obj, .. } | Expr::Index { obj, .. } | Expr::MethodCall { obj, .. } if is_flag(obj) => found = true,
                Expr::Call { f, .. } if is_flag(f) => found = true,
                _ => {}
            }
        }
    });
    found
}

fn replay(v: &Value) -> Result<(), String> {
    setup_value_env();
    let source = v.get("source").and_then(|s| s.as_str()).ok_or("malformed C17 replay")?;
    let config = v.get("config").and_then(|s| s.as_str()).ok_or("malformed C17 replay")?;
    let mut envv = v.get("env").cloned().ok_or("malformed C17 replay")?;
    envv["has_preset"] = v.get("has_preset").cloned().unwrap_or(json!(true));
    let env = env_from_json(&envv).ok_or("malformed C17 replay env")?;
    match check_one(source, config, &env)?.0 {
        Verdict::Differs(m) => Err(m),
        _ => Ok(()),
    }
}

fn minimize(v: &Value) -> Option<Value> {
    let known = |text: &str| prefix_use_under_shadow(text);
    let orig_known = known(v.get("source")?.as_str()?);
    common::minimize_source(v, &|text, v| {
        if !orig_known && known(text) {
            return false;
        }
        let mut v2 = v.clone();
        v2["source"] = json!(text);
        replay(&v2).is_err()
    })
}
