use crate::engine::PropDef;

pub mod c20;

pub fn all() -> Vec<PropDef> {
    vec![c20::def()]
}
