//! C08 — static evaluation never disagrees with real execution.

use crate::engine::*;
use crate::luaref::{self, Config, Dialect, Outcome, PresetValue};
use crate::luasyn::{self, Mode};
use crate::tape::Tape;
use darklua_core::nodes::{Expression, LastStatement};
use darklua_core::process::{Evaluator, LuaValue};
use serde_json::{json, Value};

pub fn def() -> PropDef {
    PropDef {
        id: "C08",
        rule: "expressions built from leaves {nil true false; numbers 0 1 2 3 0.5 0.1 255 1e15 2^53+1 1e100 1e308 1e-7 5e-324, (-0) (1/0) (-1/0) (0/0); strings \"\" a abc 10 ' 0x10 ' 1e2 inf nan 0x 1_000 -1 ' ' \\255; {} ; function() end; opaque: global g, local l, g.f, g[1], g(), g:m(), ...} with the 3 unary and 16 binary operators, parentheses, if-expressions, interpolated strings and casts: all expressions of depth 1 (exhaustive), depth 2 over a reduced leaf set (exhaustive in the thorough tier, a fixed sample in quick), random deeper ones. Three oracles against darklua_core::process::Evaluator (default settings), using the independent interpreter: (1) a definite value (nil / boolean / number / string) must equal the executed value in some dialect in which execution succeeds, for every binding of the opaque leaves (loud table, number, nil); numbers bitwise (NaN = NaN, -0 /= 0), strings bytewise, number->string text compared with a permissive window where Lua 5.1 and Luau formatting thresholds are uncertain; (2) has_side_effects == false => executing with loud opaque values (every metamethod and call records an event) leaves an empty trace; (3) can_return_multiple_values == false => select('#', e) == 1 whether calls / ... yield 0 or 2 values. Non-trivial = the evaluator gave a definite value for a non-literal, or claimed 'no side effects' / 'single value' for an expression with an opaque leaf.",
        assumptions: &[
            "luaref is the harness's reading of Lua 5.1 / Luau semantics; a run that raises an error is outside the claim",
            "exact Luau number formatting thresholds cannot be checked offline: plain vs exponent notation is only judged outside the window in which plausible formatters differ",
        ],
        run,
        replay,
        minimize: None,
    }
}

const CLOSED_LEAVES: [&str; 48] = [
    // long bracket strings: line breaks written CR LF count once, the one right after the opening bracket
    // is skipped (only that one)
    "[[a\r\nb]]", "[[\r\nab]]", "[[\n\nab]]",
    // multi-byte text (length counts bytes) and numbers that need more than 14 significant digits
    "\"h\\195\\169llo\"", "\"\\226\\134\\146\"", "0.30000000000000004", "0.3333333333333333", "66.66666666666666", "123456789012345.6", "1e21",
    "nil", "true", "false", "0", "1", "2", "3", "0.5", "0.1", "255", "1e15", "9007199254740993", "1e100", "1e308", "1e-7", "5e-324", "(-0)", "(1/0)", "(-1/0)", "(0/0)",
    "\"\"", "\"a\"", "\"abc\"", "\"10\"", "\" 0x10 \"", "\"1e2\"", "\"inf\"", "\"nan\"", "\"0x\"", "\"1_000\"", "\"-1\"", "\" \"", "\"\\255\"", "\"0x10\"", "{}", "function() end", "\"5\"", "10",
];
const OPAQUE_LEAVES: [&str; 12] = ["g", "l", "g.f", "g[1]", "g()", "g:m()", "...", "{[g()] = 1}", "{g()}", "{x = g()}", "{[g.f] = true}", "{1, [g] = l}"];
const REDUCED_LEAVES: [&str; 14] = ["nil", "false", "true", "0", "2", "0.1", "1e100", "(0/0)", "\"\"", "\"10\"", "\"a\"", "{}", "g", "g()"];
const UNARY: [&str; 3] = ["not ", "-", "#"];
const BINARY: [&str; 16] = ["or", "and", "<", ">", "<=", ">=", "~=", "==", "..", "+", "-", "*", "/", "//", "%", "^"];

fn all_leaves() -> Vec<&'static str> {
    CLOSED_LEAVES.iter().chain(OPAQUE_LEAVES.iter()).copied().collect()
}

fn has_opaque(e: &str) -> bool {
    // the opaque leaves are the only places where `g`, `l` or `...` appear
    let b = e.as_bytes();
    for i in 0..b.len() {
        let word_start = i == 0 || !(b[i - 1].is_ascii_alphanumeric() || b[i - 1] == b'_' || b[i - 1] == b'"');
        let word_end = i + 1 >= b.len() || !(b[i + 1].is_ascii_alphanumeric() || b[i + 1] == b'_');
        if (b[i] == b'g' || b[i] == b'l') && word_start && word_end && !in_string(e, i) {
            return true;
        }
    }
    e.contains("...")
}

fn in_string(e: &str, pos: usize) -> bool {
    let mut inside = false;
    let b = e.as_bytes();
    let mut i = 0;
    while i < pos {
        if b[i] == b'\\' {
            i += 2;
            continue;
        }
        if b[i] == b'"' {
            inside = !inside;
        }
        i += 1;
    }
    inside
}

fn depth1(leaves: &[&str]) -> Vec<String> {
    let mut v = vec![];
    for l in leaves {
        v.push(l.to_string());
        v.push(format!("({})", l));
        for u in UNARY {
            v.push(format!("{}{}", u, l));
        }
    }
    for a in leaves {
        for b in leaves {
            for op in BINARY {
                v.push(format!("{} {} {}", a, op, b));
            }
        }
    }
    // a few non-operator forms over all leaves
    for a in leaves {
        v.push(format!("if {} then 1 else 2", a));
        v.push(format!("`x{{{}}}y`", a));
        v.push(format!("({} :: any)", a));
        v.push(format!("if true then {} else 2", a));
        v.push(format!("if false then 1 else {}", a));
        v.push(format!("if nil then 1 elseif {} then 2 else 3", a));
        // an unknown first condition: every later condition and result still counts
        v.push(format!("if g then 1 elseif {} then 2 else 3", a));
        v.push(format!("if g then {} else 2", a));
        v.push(format!("if g then 1 else {}", a));
        v.push(format!("if l then 1 elseif g then {} else 3", a));
        v.push(format!("if l then 1 elseif g then 2 else {}", a));
        v.push(format!("if l then 1 elseif g then 2 elseif {} then 3 else 4", a));
        // ... and an unknown condition that is false when it runs (the loud value is truthy)
        v.push(format!("if not g then 1 elseif {} then 2 else 3", a));
        v.push(format!("if not g then 1 else {}", a));
        v.push(format!("if not g then 1 elseif not g then 2 elseif {} then 3 else 4", a));
        v.push(format!("if not g then 1 elseif not g then 2 else {}", a));
        v.push(format!("if not g then {} elseif g then 2 else 3", a));
    }
    v
}

fn depth2_reduced() -> Vec<String> {
    let inner = {
        let mut v = vec![];
        for l in REDUCED_LEAVES {
            for u in UNARY {
                v.push(format!("({}{})", u, l));
            }
        }
        for a in REDUCED_LEAVES {
            for b in REDUCED_LEAVES {
                for op in BINARY {
                    v.push(format!("({} {} {})", a, op, b));
                }
            }
        }
        v
    };
    let mut out = vec![];
    for i in &inner {
        for u in UNARY {
            out.push(format!("{}{}", u, i));
        }
        for l in REDUCED_LEAVES {
            for op in BINARY {
                out.push(format!("{} {} {}", i, op, l));
                out.push(format!("{} {} {}", l, op, i));
            }
        }
    }
    out
}

fn dl_expression(expr: &str) -> Result<Expression, String> {
    let text = format!("return {}", expr);
    let block = darklua_core::Parser::default().parse(&text).map_err(|e| e.to_string())?;
    match block.get_last_statement() {
        Some(LastStatement::Return(r)) => r.iter_expressions().next().cloned().ok_or_else(|| "no expression".to_string()),
        _ => Err("no return".into()),
    }
}

fn lua_literal(v: &LuaValue) -> Option<String> {
    Some(match v {
        LuaValue::Nil => "nil".into(),
        LuaValue::True => "true".into(),
        LuaValue::False => "false".into(),
        LuaValue::Number(n) => {
            if n.is_nan() {
                "(0/0)".into()
            } else if n.is_infinite() {
                if *n > 0.0 { "(1/0)".into() } else { "(-1/0)".into() }
            } else if *n == 0.0 && n.is_sign_negative() {
                "(-0)".into()
            } else if *n < 0.0 {
                format!("(-{:e})", -n)
            } else {
                format!("{:e}", n)
            }
        }
        LuaValue::String(s) => {
            let mut t = String::from("\"");
            for b in s {
                t.push_str(&format!("\\{:03}", b));
            }
            t.push('"');
            t
        }
        _ => return None,
    })
}

#[derive(Clone, Copy, Debug, PartialEq)]
enum Binding {
    Loud,
    Number,
    Nil,
}

fn wrap(expr: &str, count_only: bool, nargs: usize) -> String {
    let args = match nargs {
        0 => "",
        _ => "g, g",
    };
    if count_only {
        format!("local l = g\nlocal function w(...) return select('#', {}) end\nreturn w({})\n", expr, args)
    } else {
        format!("local l = g\nlocal function w(...) return ({}) end\nreturn w({})\n", expr, args)
    }
}

fn run_bound(text: &str, d: Dialect, binding: Binding) -> Option<Outcome> {
    let mode = if d == Dialect::Lua51 { Mode::Lua51 } else { Mode::Luau };
    let p = luasyn::parse(text, mode).ok()?;
    let mut cfg = Config { dialect: d, step_budget: 20_000, ..Config::default() };
    Some(match binding {
        Binding::Loud => luaref::run_with_loud_globals(&p.block, &cfg, &["g".to_string()]),
        Binding::Number => {
            cfg.preset_globals = vec![("g".into(), PresetValue::Num(5.0))];
            luaref::run(&p.block, &cfg)
        }
        Binding::Nil => luaref::run(&p.block, &cfg),
    })
}

fn ret_of(o: &Outcome) -> Option<(&Vec<String>, usize)> {
    match o {
        Outcome::Done { ret, trace } => Some((ret, trace.len())),
        _ => None,
    }
}

/// number-like runs of a string produced by number -> string conversion
fn split_numeric(s: &str) -> Vec<(bool, String)> {
    let mut out: Vec<(bool, String)> = vec![];
    for c in s.chars() {
        let numeric = c.is_ascii_digit() || matches!(c, '.' | 'e' | 'E' | '+' | '-') || matches!(c, 'i' | 'n' | 'f' | 'a' | 'N' | 'I');
        match out.last_mut() {
            Some((k, t)) if *k == numeric => t.push(c),
            _ => out.push((numeric, c.to_string())),
        }
    }
    out
}

/// are two renderings of the same number both acceptable given what cannot be known offline?
fn number_text_equivalent(ours: &str, reference: &str) -> bool {
    if ours == reference {
        return true;
    }
    let norm = |s: &str| s.to_ascii_lowercase();
    let (a, b) = (norm(ours), norm(reference));
    let special = |s: &str| matches!(s, "inf" | "-inf" | "nan" | "-nan");
    if special(&a) || special(&b) {
        // `nan` vs `-nan` is platform dependent in Lua 5.1; anything else must match
        return a.trim_start_matches('-') == "nan" && b.trim_start_matches('-') == "nan";
    }
    let (Ok(x), Ok(y)) = (a.parse::<f64>(), b.parse::<f64>()) else { return false };
    if x.to_bits() != y.to_bits() {
        return false;
    }
    // same double: `ours` must use the shortest digits (as the reference does) and a notation that
    // some plausible formatter would choose
    let digits = |s: &str| -> String { s.split('e').next().unwrap_or("").chars().filter(|c| c.is_ascii_digit()).collect::<String>().trim_start_matches('0').trim_end_matches('0').to_string() };
    if digits(&a) != digits(&b) {
        return false;
    }
    if x == 0.0 {
        return true;
    }
    let exp10 = x.abs().log10().floor() as i32;
    let plain = !a.contains('e');
    if plain {
        (-6..21).contains(&exp10)
    } else {
        !(-4..15).contains(&exp10)
    }
}

fn string_snap_equivalent(ours: &str, reference: &str) -> bool {
    if ours == reference {
        return true;
    }
    let a = split_numeric(ours);
    let b = split_numeric(reference);
    if a.len() != b.len() {
        return false;
    }
    a.iter().zip(b.iter()).all(|((ka, ta), (kb, tb))| ka == kb && (ta == tb || (*ka && number_text_equivalent(ta, tb))))
}

#[derive(Default)]
pub struct Verdict {
    pub definite: bool,
    pub claimed_no_effects: bool,
    pub claimed_single: bool,
    pub opaque: bool,
}

pub fn check_expr(expr: &str, avoid_interp_tostring: bool) -> Result<Option<Verdict>, String> {
    let e = match catch(|| dl_expression(expr)) {
        Ok(Ok(e)) => e,
        Ok(Err(_)) => return Ok(None), // darklua rejects the text: out of domain
        Err(p) => return Err(format!("PANIC while parsing `{}`: {}", expr, p)),
    };
    let evaluator = Evaluator::default();
    let (value, no_effects, single) = catch(|| (evaluator.evaluate(&e), !evaluator.has_side_effects(&e), !evaluator.can_return_multiple_values(&e))).map_err(|p| format!("PANIC in the evaluator on `{}`: {}", expr, p))?;
    let opaque = has_opaque(expr);
    let mut verdict = Verdict { opaque, ..Verdict::default() };
    let bindings: &[Binding] = if opaque { &[Binding::Loud, Binding::Number, Binding::Nil] } else { &[Binding::Nil] };

    // (1) definite values
    if let Some(lit) = lua_literal(&value) {
        verdict.definite = true;
        let is_literal_itself = CLOSED_LEAVES.contains(&expr);
        let _ = is_literal_itself;
        for b in bindings {
            let mut any_success = false;
            let mut any_agree = false;
            let mut all_disagree_somewhere = false;
            let mut seen = vec![];
            for d in [Dialect::Lua51, Dialect::Luau] {
                let Some(actual) = run_bound(&wrap(expr, false, 2), d, *b) else { continue };
                let Some((ret, _)) = ret_of(&actual) else { continue };
                let Some(expected) = run_bound(&format!("return {}\n", lit), d, Binding::Nil) else { continue };
                let Some((exp_ret, _)) = ret_of(&expected) else { continue };
                any_success = true;
                let agree = ret.len() == 1 && exp_ret.len() == 1 && (ret[0] == exp_ret[0] || (matches!(value, LuaValue::String(_)) && string_snap_equivalent(&exp_ret[0], &ret[0])));
                if agree {
                    any_agree = true;
                } else {
                    all_disagree_somewhere = true;
                }
                seen.push(format!("{:?}: executes to {:?}", d, ret));
            }
            // a folded value must be right under both readings of the language: where Lua 5.1 and
            // Luau give different results the evaluator has to leave the expression alone
            if any_success && (!any_agree || all_disagree_somewhere) {
                return Err(format!("the evaluator says `{}` is {} (Lua literal {}), but with g bound to {:?}: {}", expr, describe(&value), lit, b, seen.join("; ")));
            }
        }
    }

    // (2) no side effects => empty trace with loud opaque values
    if no_effects {
        verdict.claimed_no_effects = true;
        let skip = avoid_interp_tostring && expr.contains('`') && opaque;
        if !skip {
            for d in [Dialect::Lua51, Dialect::Luau] {
                let Some(o) = run_bound(&wrap(expr, false, 2), d, Binding::Loud) else { continue };
                if let Outcome::Done { trace, .. } = &o {
                    if !trace.is_empty() {
                        return Err(format!(
                            "the evaluator says `{}` has no side effects, but executing it with loud values ({:?}) records: {}",
                            expr,
                            d,
                            trace.iter().map(|e| e.name.clone()).collect::<Vec<_>>().join(", ")
                        ));
                    }
                }
            }
        }
    }

    // (3) single value => select('#', e) == 1 with 0 and with 2 values from calls / ...
    if single {
        verdict.claimed_single = true;
        for (call, nargs) in [("probe0()", 0usize), ("probe2(1)", 2usize)] {
            let variant = expr.replace("g()", call).replace("g:m()", call);
            for d in [Dialect::Lua51, Dialect::Luau] {
                let Some(o) = run_bound(&wrap(&variant, true, nargs), d, Binding::Loud) else { continue };
                if let Some((ret, _)) = ret_of(&o) {
                    if ret.len() == 1 && !ret[0].starts_with("1.0000000000000000") {
                        return Err(format!("the evaluator says `{}` yields a single value, but select('#', ...) gives {} when calls / varargs yield {} values ({:?})", expr, ret[0], nargs, d));
                    }
                }
            }
        }
    }
    Ok(Some(verdict))
}

fn describe(v: &LuaValue) -> String {
    match v {
        LuaValue::Number(n) => format!("the number {:?}", n),
        LuaValue::String(s) => format!("the string {:?}", String::from_utf8_lossy(s)),
        other => format!("{:?}", other),
    }
}

fn gen_random(t: &mut Tape, d: usize) -> String {
    let leaves = all_leaves();
    if d == 0 {
        return leaves[t.choose(leaves.len())].to_string();
    }
    match t.weighted(&[3, 8, 3, 1, 1, 1, 1]) {
        0 => leaves[t.choose(leaves.len())].to_string(),
        1 => {
            let a = gen_random(t, d - 1);
            let b = gen_random(t, d - 1);
            format!("({} {} {})", a, BINARY[t.choose(BINARY.len())], b)
        }
        2 => format!("({}{})", UNARY[t.choose(3)], gen_random(t, d - 1)),
        3 if t.bool(100) => format!("(if {} then {} elseif {} then {} else {})", gen_random(t, d - 1), gen_random(t, d - 1), gen_random(t, d - 1), gen_random(t, d - 1), gen_random(t, d - 1)),
        3 => format!("(if {} then {} else {})", gen_random(t, d - 1), gen_random(t, d - 1), gen_random(t, d - 1)),
        4 => format!("`a{{{}}}b{{{}}}`", gen_random(t, d - 1), gen_random(t, d - 1)),
        5 => format!("({} :: any)", gen_random(t, d - 1)),
        _ => format!("({})", gen_random(t, d - 1)),
    }
}

fn case_result(expr: &str, st: &mut Stats, avoid: bool) -> CaseResult {
    match check_expr(expr, avoid) {
        Ok(None) => CaseResult::Discard("darklua rejects the expression"),
        Ok(Some(v)) => {
            if v.definite {
                st.class("definite_value");
            }
            if v.claimed_no_effects {
                st.class("claims_no_side_effects");
            }
            if v.claimed_single {
                st.class("claims_single_value");
            }
            let literal = CLOSED_LEAVES.contains(&expr);
            let nt = (v.definite && !literal) || (v.opaque && (v.claimed_no_effects || v.claimed_single));
            CaseResult::Pass { nontrivial: nt.then(|| hash_str(expr)) }
        }
        Err(m) => CaseResult::Fail(Failure::new(m, json!({"expr": expr}))),
    }
}

fn run(ctx: &RunCtx) {
    let avoid = ctx.avoid("interp-tostring-side-effect");
    // cached: in single-case mode (coverage-guided stage) this function runs once per input
    static D1: std::sync::OnceLock<Vec<String>> = std::sync::OnceLock::new();
    static D2: std::sync::OnceLock<Vec<String>> = std::sync::OnceLock::new();
    let d1 = D1.get_or_init(|| depth1(&all_leaves()));
    ctx.add_class("depth1_expressions", d1.len() as u64);
    ctx.enumerate("depth1", d1.len() as u64, |i, st| {
        if i % 4001 == 0 {
            st.sample(|| json!({"expr": d1[i as usize]}));
        }
        case_result(&d1[i as usize], st, avoid)
    });
    let d2 = D2.get_or_init(depth2_reduced);
    ctx.add_class("depth2_reduced_expressions", d2.len() as u64);
    let step = ctx.tier.pick(5u64, 1u64);
    let offset = ctx.seed % step;
    let n2 = (d2.len() as u64 - offset).div_ceil(step);
    ctx.enumerate("depth2", n2, |i, st| case_result(&d2[(offset + i * step) as usize], st, avoid));
    ctx.exhaustive.store(true, std::sync::atomic::Ordering::Relaxed);
    let n = ctx.tier.pick(30_000, 1_000_000);
    ctx.search("random_deeper", n, 64, |tape, st| {
        let mut t = Tape::new(tape);
        let e = gen_random(&mut t, 3);
        st.sample(|| json!({"expr": e}));
        case_result(&e, st, avoid)
    });
}

fn replay(v: &Value) -> Result<(), String> {
    let expr = v.get("expr").and_then(|s| s.as_str()).ok_or("malformed C08 replay")?;
    check_expr(expr, false).map(|_| ())
}
