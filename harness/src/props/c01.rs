//! C01 — default rules preserve program behaviour.

use crate::behave::{self, Verdict};
use crate::dl::{self, DEFAULT_RULES};
use crate::engine::*;
use crate::gen::progen::{gen_program, GenOpts};
use crate::luaprint;
use crate::luaref::Dialect;
use crate::tape::Tape;
use serde_json::{json, Value};

pub fn def() -> PropDef {
    PropDef {
        id: "C01",
        rule: "programs from the scope/kind-aware generator `progen` (Lua 5.1 surface: closures, upvalues, shadowing incl. library names, varargs, multiple returns, loud metatables, loops with break, method calls, pcall) printed canonically or with generated layout; each tried under 6 configurations: the full default list, one single default rule, random subsets in random order, x generator retain_lines / dense(span) / readable(span). Oracle: the independent interpreter luaref runs original and darklua output (same dialect, both Lua 5.1 and Luau when the original is dialect-insensitive): identical host-call trace and return values. Non-trivial = the original performs >= 1 emit and the output's code tokens differ from the input's beyond identifier renaming and whitespace; distinct by (program, configuration).",
        assumptions: &[
            "luaref/luasyn are an independent reading of the Lua 5.1 manual and the Luau documentation, not the real VMs; original and transformed always run in the same interpreter",
            "programs whose original run errors, exceeds the step budget or differs between the two dialects are discarded (counted)",
        ],
        run,
        replay,
        minimize: Some(minimize),
    }
}

pub fn gen_name(t: &mut Tape) -> (String, usize) {
    match t.weighted(&[4, 3, 3]) {
        0 => ("retain_lines".into(), 80),
        1 => ("dense".into(), *t.pick(&[80usize, 0, 1, 2, 8, 20, 40, 120])),
        _ => ("readable".into(), *t.pick(&[80usize, 0, 1, 2, 8, 20, 40, 120])),
    }
}

/// the configurations tried for one program: always the full default list
pub fn gen_configs(t: &mut Tape, n: usize) -> Vec<String> {
    let mut out = vec![];
    let (g, span) = gen_name(t);
    out.push(dl::config_text(&dl::quote_rules(&DEFAULT_RULES), &dl::generator_json(&g, span)));
    for _ in 1..n {
        let (g, span) = gen_name(t);
        let rules: Vec<&str> = match t.weighted(&[4, 5]) {
            0 => vec![DEFAULT_RULES[t.choose(DEFAULT_RULES.len())]],
            _ => {
                // random subset in random order, with or without remove_spaces first
                let k = 2 + t.choose(8);
                let mut v: Vec<&str> = vec![];
                if t.bool(128) {
                    v.push("remove_spaces");
                }
                for _ in 0..k {
                    let r = DEFAULT_RULES[t.choose(DEFAULT_RULES.len())];
                    if !v.contains(&r) {
                        v.push(r);
                    }
                }
                v
            }
        };
        out.push(dl::config_text(&dl::quote_rules(&rules), &dl::generator_json(&g, span)));
    }
    out
}

pub fn print_program(t: &mut Tape, block: &crate::luasyn::ast::Block, luau: bool) -> String {
    if t.bool(90) {
        let mut o = luaprint::LayoutOpts::all(luau);
        o.trailing_newline = true;
        luaprint::print_layout(block, t, &o)
    } else {
        luaprint::print_plain(block)
    }
}

fn plain_cfg(d: Dialect) -> crate::luaref::Config {
    behave::cfg(d)
}

pub fn check_one(source: &str, config: &str) -> Result<Verdict, String> {
    let orig = behave::run_original(source, &plain_cfg)?;
    let (v, _) = behave::check_rules(source, config, &orig, &plain_cfg);
    Ok(v)
}

fn run(ctx: &RunCtx) {
    let mut opts = GenOpts::lua51();
    opts.avoid.const_andor_multi_tail = ctx.avoid("const-andor-multi-tail");
    opts.avoid.underscore_local = ctx.avoid("underscore-local");
    let n = ctx.tier.pick(4_000, 150_000);
    ctx.search("programs", n, 700, |tape, st| {
        let mut t = Tape::new(tape);
        let prog = gen_program(&mut t, &opts);
        if opts.avoid.const_andor_multi_tail && crate::visit::has_const_andor_multi_tail(&prog.block) {
            return CaseResult::Discard("avoided: known finding const-andor-multi-tail");
        }
        let source = print_program(&mut t, &prog.block, false);
        let configs = gen_configs(&mut t, 6);
        for (k, v) in &prog.stats {
            st.class_n(k, *v as u64);
        }
        let orig = match behave::run_original(&source, &plain_cfg) {
            Ok(o) => o,
            Err(e) => return CaseResult::Fail(Failure::new(e, json!({"kind": "harness", "source": source}))),
        };
        if orig.lua51.is_none() && orig.luau.is_none() {
            return CaseResult::Discard("original errors or exceeds the step budget");
        }
        let mut nontrivial = None;
        for config in &configs {
            let (v, out) = behave::check_rules(&source, config, &orig, &plain_cfg);
            match v {
                Verdict::Same { emits, .. } => {
                    if emits >= 1 && out.as_deref().map(|o| behave::code_changed(&source, o)).unwrap_or(false) {
                        st.class("nontrivial_config");
                        nontrivial = Some(hash_parts(&[source.as_bytes(), config.as_bytes()]));
                    }
                }
                Verdict::Discard(why) => return CaseResult::Discard(why),
                Verdict::Differs(msg) => {
                    return CaseResult::Fail(Failure::new(
                        format!("{}\n--- configuration\n{}\n--- source\n{}\n--- output\n{}", msg, config, source, out.unwrap_or_default()),
                        json!({"kind": "behaviour", "source": source, "config": config}),
                    ));
                }
            }
        }
        st.sample(|| json!({"source": source, "configs": configs}));
        CaseResult::Pass { nontrivial }
    });
}

fn replay(v: &Value) -> Result<(), String> {
    let source = v.get("source").and_then(|s| s.as_str()).ok_or("malformed C01 replay")?;
    let config = v.get("config").and_then(|s| s.as_str()).ok_or("malformed C01 replay")?;
    match check_one(source, config)? {
        Verdict::Differs(m) => Err(m),
        _ => Ok(()),
    }
}

/// shared by the behavioural checks: reduce `source` while `still_fails(source)` holds
pub fn minimize_source(v: &Value, still_fails: &dyn Fn(&str, &Value) -> bool) -> Option<Value> {
    let source = v.get("source")?.as_str()?;
    let block = crate::luasyn::parse(source, crate::luasyn::Mode::Luau).ok()?.block;
    let reduced = crate::reduce::reduce(&block, &|text| still_fails(text, v), 1500);
    let text = luaprint::print_plain(&reduced);
    if !still_fails(&text, v) {
        return None;
    }
    let mut out = v.clone();
    out["source"] = json!(text);
    Some(out)
}

fn minimize(v: &Value) -> Option<Value> {
    minimize_source(v, &|text, v| {
        let config = v.get("config").and_then(|c| c.as_str()).unwrap_or("{}");
        matches!(check_one(text, config), Ok(Verdict::Differs(_)))
    })
}
