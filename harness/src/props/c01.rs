//! C01 — default rules preserve program behaviour.

use crate::dl::{self, DEFAULT_RULES};
use crate::engine::*;
use crate::gen::progen::GenOpts;
use crate::props::common::{self, BehaviourSpec};
use crate::tape::Tape;
use serde_json::Value;

pub fn def() -> PropDef {
    PropDef {
        id: "C01",
        rule: "programs from the scope/kind-aware generator `progen` (Lua 5.1 surface: closures, upvalues, shadowing incl. library names, varargs, multiple returns, loud metatables, loops with break, method calls, pcall) printed canonically or with generated layout; each tried under 6 configurations: the full default list, one single default rule, random subsets in random order, x generator retain_lines / dense(span) / readable(span). Oracle: the independent interpreter luaref runs original and darklua output (same dialect, both Lua 5.1 and Luau when the original is dialect-insensitive): identical host-call trace and return values. Non-trivial = the original performs >= 1 emit and the output's code tokens differ from the input's beyond identifier renaming and whitespace; distinct by (program, configuration).",
        assumptions: &[
            "luaref/luasyn are an independent reading of the Lua 5.1 manual and the Luau documentation, not the real VMs; original and transformed always run in the same interpreter",
            "programs whose original run errors, exceeds the step budget or differs between the two dialects are discarded (counted)",
        ],
        run,
        replay,
        minimize: Some(minimize),
    }
}

pub fn gen_name(t: &mut Tape) -> (String, usize) {
    match t.weighted(&[4, 3, 3]) {
        0 => ("retain_lines".into(), 80),
        1 => ("dense".into(), *t.pick(&[80usize, 0, 1, 2, 8, 20, 40, 120])),
        _ => ("readable".into(), *t.pick(&[80usize, 0, 1, 2, 8, 20, 40, 120])),
    }
}

/// the configurations tried for one program: always the full default list
pub fn gen_configs(t: &mut Tape, n: usize) -> Vec<String> {
    let mut out = vec![];
    let (g, span) = gen_name(t);
    out.push(dl::config_text(&dl::quote_rules(&DEFAULT_RULES), &dl::generator_json(&g, span)));
    for _ in 1..n {
        let (g, span) = gen_name(t);
        let rules: Vec<&str> = match t.weighted(&[4, 5]) {
            0 => vec![DEFAULT_RULES[t.choose(DEFAULT_RULES.len())]],
            _ => {
                // random subset in random order, with or without remove_spaces first
                let k = 2 + t.choose(8);
                let mut v: Vec<&str> = vec![];
                if t.bool(128) {
                    v.push("remove_spaces");
                }
                for _ in 0..k {
                    let r = DEFAULT_RULES[t.choose(DEFAULT_RULES.len())];
                    if !v.contains(&r) {
                        v.push(r);
                    }
                }
                v
            }
        };
        out.push(dl::config_text(&dl::quote_rules(&rules), &dl::generator_json(&g, span)));
    }
    out
}

fn run(ctx: &RunCtx) {
    let mut opts = GenOpts::lua51();
    opts.avoid.const_andor_multi_tail = ctx.avoid("const-andor-multi-tail");
    opts.avoid.underscore_local = ctx.avoid("underscore-local");
    let mut filters: Vec<fn(&crate::luasyn::ast::Block) -> Option<&'static str>> = vec![];
    if opts.avoid.const_andor_multi_tail {
        filters.push(common::filter_const_andor);
    }
    let spec = BehaviourSpec {
        opts,
        luau_layout: false,
        cases: ctx.tier.pick(12_000, 150_000),
        tape_len: 700,
        configs: &|t| gen_configs(t, 6),
        filters,
        nontrivial: &|_| true,
        lua51_target: false,
    };
    common::run_behaviour(ctx, "programs", &spec);
    // the same rules on Luau programs (type annotations and casts, compound assignment, continue,
    // if-expressions, interpolated strings, `//`, const): the rules must leave those alone or carry
    // them along unchanged
    let mut luau = GenOpts::luau();
    luau.focus = spec.opts.focus;
    luau.avoid = spec.opts.avoid.clone();
    luau.avoid.interp_tostring_order = false;
    let luau_spec = BehaviourSpec { opts: luau, luau_layout: true, cases: spec.cases / 2, ..spec };
    common::run_behaviour(ctx, "luau_programs", &luau_spec);
}

fn replay(v: &Value) -> Result<(), String> {
    common::replay_behaviour(v)
}

fn minimize(v: &Value) -> Option<Value> {
    common::minimize_behaviour(v)
}
