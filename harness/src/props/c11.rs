//! C11 — batch runs map files one-to-one, isolate failures and are deterministic.
//!
//! A case is a concrete file tree (paths relative to a sandbox base), an input and an optional
//! output argument, a configuration text, the fail-fast flag and, for every file the generator
//! made faulty on purpose, the kind of fault.  The oracle is a model of the expected result
//! (`plan` + `expected tree`), written from the documentation and the property statement and
//! not from darklua's code paths: which files are work, where each output goes, what the whole
//! tree must look like afterwards.  The content of a healthy file's output is taken from a
//! separate run that processes THAT FILE ALONE on a fresh copy of the tree (isolation).

use crate::dl;
use crate::engine::*;
use crate::gen::fsgen::{self, clean, extension, file_name, is_lua_name, is_under, join, parent, relative_from, strip};
use crate::gen::progen::{self, GenOpts};
use crate::luaprint;
use crate::tape::Tape;
use darklua_core::{Options, Resources};
use serde_json::{json, Value};
use std::collections::{BTreeMap, BTreeSet};
use std::path::{Path, PathBuf};

pub fn def() -> PropDef {
    PropDef {
        id: "C11",
        rule: "file trees from `fsgen` (depth <= 3, <= 8 Lua files + <= 3 non-Lua decoys; names with spaces, dots, unicode, glob characters; `.lua` and `.luau`; directories named like Lua files; look-alike names such as x.LUA / x.lua.bak / luau that must be ignored), input = the root, a sub-directory or a single file (optionally spelled ./x, x/, x/../x), output = none (in place) / same as input / new directory / new file path / existing directory (with foreign files, stale outputs and old outputs at mirrored paths) / existing file; each work file faulty with p~0.38: syntax error, invalid UTF-8 (file system only), an existing directory at its output path (file system only), a require of a missing module or of an unknown source under a bundling configuration, a failing rule in the middle of the pipeline (append_text_comment reading a missing file, restricted to rf_* files by a rule-level filter), a malformed .luaurc above it under bundle / convert_require; fail-fast on/off; 7 filter-free configurations (default rules; remove_comments+rename_variables; remove_assertions+remove_debug_profiling+...; bundle with excludes; bundle with default rules; the failing-rule pipeline; convert_require). Each case runs the batch twice on fresh resources (memory: new hash seeds; temp dir: files created in reverse order) plus every healthy file alone. Oracle = model of the whole tree afterwards + exactly one reported error naming each faulty file + byte equality of the two runs. Non-trivial = >= 3 work files and >= 1 faulty work file with >= 1 healthy work file in the same directory.",
        assumptions: &[
            "the content of a healthy file's output is darklua's own output for that file processed alone on a fresh copy of the tree (metamorphic isolation oracle); what the rules do to the code is the business of C01-C09",
            "a file is a Lua file when its name has the extension lua or luau in the sense of Path::extension (case-sensitive); the hidden files `.lua`/`.luau` are not generated because the documentation does not settle them",
            "with fail-fast only: pre-existing files keep their bytes unless they are the destination of a healthy file, every destination holds either its original state or the complete alone-output, nothing else appears, >= 1 error naming a faulty file is reported",
            "for an unwritable destination the reported path may be the destination (or, when the output root is an existing file, that file) instead of the source",
        ],
        run,
        replay,
        minimize: None,
    }
}

// ------------------------------------------------------------------------------ configurations

struct Cfg {
    name: &'static str,
    text: &'static str,
    bundles: bool,
    excludes: bool,
    rule_fail: bool,
    luaurc: bool,
}

const CONFIGS: [Cfg; 7] = [
    Cfg { name: "default", text: "{}", bundles: false, excludes: false, rule_fail: false, luaurc: false },
    Cfg {
        name: "comments_rename",
        text: r#"{ rules: ["remove_comments", "rename_variables"] }"#,
        bundles: false,
        excludes: false,
        rule_fail: false,
        luaurc: false,
    },
    Cfg {
        name: "assert_profiling",
        text: r#"{ rules: ["remove_assertions", "remove_debug_profiling", "remove_comments", "rename_variables"], generator: "dense" }"#,
        bundles: false,
        excludes: false,
        rule_fail: false,
        luaurc: false,
    },
    Cfg {
        name: "bundle_excludes",
        text: r#"{ bundle: { require_mode: "path", excludes: ["@lune/**", "@ext/*", "**/vendor_*", "@other/**", "./never*"] }, rules: ["remove_comments", "remove_spaces"], generator: "readable" }"#,
        bundles: true,
        excludes: true,
        rule_fail: false,
        luaurc: true,
    },
    Cfg { name: "bundle_default", text: r#"{ bundle: { require_mode: "path" } }"#, bundles: true, excludes: false, rule_fail: false, luaurc: true },
    Cfg {
        name: "rule_error",
        text: r#"{ rules: ["remove_comments", "rename_variables", { rule: "append_text_comment", file: "c11-no-such-file-5b1e.txt", apply_to_files: ["**/rf_*"] }, "remove_spaces"], generator: "dense" }"#,
        bundles: false,
        excludes: false,
        rule_fail: true,
        luaurc: false,
    },
    Cfg {
        name: "convert_require",
        text: r#"{ rules: [{ rule: "convert_require", current: "path", target: "luau" }, "remove_comments", "rename_variables"], generator: "readable" }"#,
        bundles: false,
        excludes: false,
        rule_fail: false,
        luaurc: true,
    },
];

// ------------------------------------------------------------------------------ the case

#[derive(Clone, Debug, PartialEq)]
struct FileEntry {
    path: String,
    bytes: Vec<u8>,
    /// the fault planted by the generator (only meaningful for files that end up being work)
    fault: Option<String>,
}

#[derive(Clone, Debug)]
struct Case {
    fs: bool,
    files: Vec<FileEntry>,
    /// directories that exist before the run (file system only; parents of files are implied)
    dirs: Vec<String>,
    input: String,
    output: Option<String>,
    fail_fast: bool,
    config: String,
}

impl Case {
    fn to_json(&self) -> Value {
        let files: Vec<Value> = self
            .files
            .iter()
            .map(|f| {
                let mut o = json!({ "path": f.path });
                match std::str::from_utf8(&f.bytes) {
                    Ok(s) => o["text"] = json!(s),
                    Err(_) => o["hex"] = json!(f.bytes.iter().map(|b| format!("{:02x}", b)).collect::<String>()),
                }
                if let Some(k) = &f.fault {
                    o["fault"] = json!(k);
                }
                o
            })
            .collect();
        json!({
            "fs": self.fs,
            "files": files,
            "dirs": self.dirs,
            "input": self.input,
            "output": self.output,
            "fail_fast": self.fail_fast,
            "config": self.config,
        })
    }

    fn from_json(v: &Value) -> Option<Case> {
        let mut files = vec![];
        for f in v.get("files")?.as_array()? {
            let bytes = match (f.get("text").and_then(|t| t.as_str()), f.get("hex").and_then(|t| t.as_str())) {
                (Some(t), _) => t.as_bytes().to_vec(),
                (None, Some(h)) => (0..h.len() / 2).filter_map(|i| u8::from_str_radix(&h[2 * i..2 * i + 2], 16).ok()).collect(),
                _ => return None,
            };
            files.push(FileEntry {
                path: f.get("path")?.as_str()?.to_string(),
                bytes,
                fault: f.get("fault").and_then(|k| k.as_str()).map(|s| s.to_string()),
            });
        }
        Some(Case {
            fs: v.get("fs")?.as_bool()?,
            files,
            dirs: v.get("dirs").and_then(|d| d.as_array()).map(|a| a.iter().filter_map(|s| s.as_str().map(|s| s.to_string())).collect()).unwrap_or_default(),
            input: v.get("input")?.as_str()?.to_string(),
            output: v.get("output").and_then(|o| o.as_str()).map(|s| s.to_string()),
            fail_fast: v.get("fail_fast")?.as_bool()?,
            config: v.get("config")?.as_str()?.to_string(),
        })
    }

    fn is_file(&self, p: &str) -> bool {
        self.files.iter().any(|f| f.path == p)
    }

    fn is_dir(&self, p: &str) -> bool {
        self.files.iter().any(|f| f.path != p && is_under(&f.path, p)) || (self.fs && self.dirs.iter().any(|d| is_under(d, p)))
    }
}

// ------------------------------------------------------------------------------ the model

#[derive(Clone, Debug)]
struct WorkFile {
    /// clean source path
    src: String,
    /// clean destination path (== src when processed in place)
    out: String,
    /// the destination the way it is spelled when the output argument is joined with the
    /// relative path (error messages about the destination use this spelling)
    out_spelled: String,
    fault: Option<String>,
}

#[derive(Clone, Debug)]
struct Plan {
    work: Vec<WorkFile>,
    /// clean output root when an output argument is given
    out_root: Option<String>,
    /// the output argument as spelled
    out_root_spelled: Option<String>,
}

fn spelled_join(output: &str, rel: &str) -> String {
    if rel.is_empty() {
        output.to_string()
    } else {
        PathBuf::from(output).join(rel).display().to_string()
    }
}

/// Which files are work and where does each output go?
/// * input is a file: that file; destination = `output/<file name>` when the output is an
///   existing directory or a new extension-less path, the output path itself when it is an
///   existing file or is spelled with an extension;
/// * input is a directory: every `.lua` / `.luau` file below it, destination = output joined
///   with the path relative to the input (same hierarchy);
/// * no output: in place.
fn plan(case: &Case) -> Plan {
    let input = clean(&case.input);
    let out_root = case.output.as_deref().map(clean);
    let mut work = vec![];
    let fault_of = |p: &str| case.files.iter().find(|f| f.path == p).and_then(|f| f.fault.clone());
    if case.is_file(&input) {
        let name = file_name(&input).to_string();
        let (out, out_spelled) = match (&case.output, &out_root) {
            (Some(o), Some(oc)) => {
                if case.is_dir(oc) {
                    (join(oc, &name), spelled_join(o, &name))
                } else if case.is_file(oc) || extension(file_name(oc)).is_some() {
                    (oc.clone(), o.clone())
                } else {
                    (join(oc, &name), spelled_join(o, &name))
                }
            }
            _ => (input.clone(), input.clone()),
        };
        work.push(WorkFile { fault: fault_of(&input), src: input, out, out_spelled });
    } else {
        let dest_root_is_file = case.fs && out_root.as_deref().map(|oc| case.is_file(oc)).unwrap_or(false);
        for f in &case.files {
            if f.path != input && is_under(&f.path, &input) && is_lua_name(&f.path) {
                let rel = strip(&f.path, &input);
                let (out, out_spelled) = match (&case.output, &out_root) {
                    (Some(o), Some(oc)) => (join(oc, rel), spelled_join(o, rel)),
                    _ => (f.path.clone(), f.path.clone()),
                };
                let mut fault = f.fault.clone();
                if dest_root_is_file && fault.is_none() {
                    // on a real file system nothing can be created below an existing file
                    fault = Some("dest_root_is_file".into());
                }
                work.push(WorkFile { src: f.path.clone(), out, out_spelled, fault });
            }
        }
    }
    Plan { work, out_root, out_root_spelled: case.output.as_ref().map(|o| o.trim_end_matches('/').to_string()) }
}

// ------------------------------------------------------------------------------ sandbox

const ALONE_OUT: &str = "__c11_alone__/out.lua";

struct Sandbox {
    /// canonical absolute directory, None = memory resources with relative paths
    base: Option<PathBuf>,
}

#[derive(Clone, Debug, PartialEq, Default)]
struct Snap {
    files: BTreeMap<String, Vec<u8>>,
    dirs: BTreeSet<String>,
}

impl Sandbox {
    fn arg(&self, rel: &str) -> String {
        match &self.base {
            None => rel.to_string(),
            Some(b) => format!("{}/{}", b.display(), rel),
        }
    }

    fn build(&self, case: &Case, reversed: bool) -> Result<Resources, String> {
        let order: Vec<&FileEntry> = if reversed { case.files.iter().rev().collect() } else { case.files.iter().collect() };
        match &self.base {
            None => {
                let r = Resources::from_memory();
                for f in order {
                    let text = std::str::from_utf8(&f.bytes).map_err(|_| format!("harness: non UTF-8 file {} in a memory case", f.path))?;
                    r.write(&f.path, text).map_err(|e| format!("harness: memory write failed: {:?}", e))?;
                }
                Ok(r)
            }
            Some(base) => {
                for e in std::fs::read_dir(base).map_err(|e| format!("harness: read_dir {}: {}", base.display(), e))? {
                    let p = e.map_err(|e| e.to_string())?.path();
                    let r = if p.is_dir() { std::fs::remove_dir_all(&p) } else { std::fs::remove_file(&p) };
                    r.map_err(|e| format!("harness: cannot clear {}: {}", p.display(), e))?;
                }
                let dirs: Vec<&String> = if reversed { case.dirs.iter().rev().collect() } else { case.dirs.iter().collect() };
                for d in dirs {
                    std::fs::create_dir_all(base.join(d)).map_err(|e| format!("harness: mkdir {}: {}", d, e))?;
                }
                for f in order {
                    let p = base.join(&f.path);
                    if let Some(parent) = p.parent() {
                        std::fs::create_dir_all(parent).map_err(|e| format!("harness: mkdir for {}: {}", f.path, e))?;
                    }
                    std::fs::write(&p, &f.bytes).map_err(|e| format!("harness: write {}: {}", f.path, e))?;
                }
                Ok(Resources::from_file_system())
            }
        }
    }

    fn snapshot(&self, r: &Resources) -> Result<Snap, String> {
        let mut snap = Snap::default();
        match &self.base {
            None => {
                for p in r.walk("") {
                    let key = p.to_str().ok_or("harness: non UTF-8 key")?.to_string();
                    let content = r.get(&p).map_err(|e| format!("harness: cannot read back {}: {:?}", key, e))?;
                    snap.files.insert(key, content.into_bytes());
                }
            }
            Some(base) => {
                let mut stack = vec![base.clone()];
                while let Some(d) = stack.pop() {
                    for e in std::fs::read_dir(&d).map_err(|e| format!("harness: read_dir {}: {}", d.display(), e))? {
                        let e = e.map_err(|e| e.to_string())?;
                        let p = e.path();
                        let rel = p.strip_prefix(base).map_err(|e| e.to_string())?.to_str().ok_or("harness: non UTF-8 path")?.to_string();
                        let ty = e.file_type().map_err(|e| e.to_string())?;
                        if ty.is_dir() {
                            snap.dirs.insert(rel);
                            stack.push(p);
                        } else {
                            snap.files.insert(rel, std::fs::read(&p).map_err(|e| format!("harness: read {}: {}", p.display(), e))?);
                        }
                    }
                }
            }
        }
        Ok(snap)
    }
}

struct RunOut {
    errors: Vec<String>,
    snap: Snap,
}

/// one darklua run; Err = panic (a violation by itself)
fn run_darklua(sb: &Sandbox, r: &Resources, config: &str, input: &str, output: Option<&str>, fail_fast: bool) -> Result<Vec<String>, String> {
    let config = dl::parse_config(config).map_err(|e| format!("harness: configuration rejected: {}", e))?;
    let res = catch(|| {
        let mut options = Options::new(PathBuf::from(sb.arg(input))).with_configuration(config);
        if let Some(o) = output {
            options = options.with_output(PathBuf::from(sb.arg(o)));
        }
        if fail_fast {
            options = options.fail_fast();
        }
        darklua_core::process(r, options)
    });
    match res {
        Err(p) => Err(format!("darklua panicked: {}", p)),
        Ok(Err(e)) => Ok(vec![format!("process() returned Err: {}", e)]),
        Ok(Ok(tree)) => Ok(tree.collect_errors().iter().map(|e| e.to_string()).collect()),
    }
}

fn run_batch(sb: &Sandbox, case: &Case, reversed: bool) -> Result<RunOut, String> {
    let r = sb.build(case, reversed)?;
    let errors = run_darklua(sb, &r, &case.config, &case.input, case.output.as_deref(), case.fail_fast)?;
    let snap = sb.snapshot(&r)?;
    if std::env::var("VERIF_C11_TRACE").is_ok() {
        eprintln!("-- batch run (reversed={}) errors: {:#?}", reversed, errors);
        for (p, b) in &snap.files {
            eprintln!("-- file {} ({} bytes)", p, b.len());
        }
        for d in &snap.dirs {
            eprintln!("-- dir  {}", d);
        }
    }
    Ok(RunOut { errors, snap })
}

/// process `src` alone on a fresh copy of the tree: Ok(output bytes) / Err(why it failed)
fn run_alone(sb: &Sandbox, case: &Case, src: &str) -> Result<Result<Vec<u8>, String>, String> {
    let r = sb.build(case, false)?;
    let errors = run_darklua(sb, &r, &case.config, src, Some(ALONE_OUT), false)?;
    if !errors.is_empty() {
        return Ok(Err(errors.join(" | ")));
    }
    let snap = sb.snapshot(&r)?;
    Ok(snap.files.get(ALONE_OUT).cloned().ok_or_else(|| "no output and no error".to_string()))
}

// ------------------------------------------------------------------------------ the oracle

fn show(b: &[u8]) -> String {
    let s = String::from_utf8_lossy(b);
    if s.len() > 1500 {
        format!("{}…", s.chars().take(1500).collect::<String>())
    } else {
        s.into_owned()
    }
}

fn ancestors(p: &str) -> Vec<String> {
    let mut out = vec![];
    let mut cur = parent(p);
    while !cur.is_empty() {
        out.push(cur.to_string());
        cur = parent(cur);
    }
    out
}

struct Verdict {
    nontrivial: bool,
    work: usize,
    faulty: usize,
}

/// strings that identify a faulty work file in an error message
fn idents(sb: &Sandbox, plan: &Plan, w: &WorkFile) -> Vec<String> {
    let mut v = vec![sb.arg(&w.src)];
    match w.fault.as_deref() {
        Some("dest_dir") => {
            v.push(sb.arg(&w.out_spelled));
            v.push(sb.arg(&w.out));
        }
        Some("dest_root_is_file") => {
            v.push(sb.arg(&w.out_spelled));
            if let Some(o) = &plan.out_root {
                v.push(sb.arg(o));
            }
            if let Some(o) = &plan.out_root_spelled {
                v.push(sb.arg(o));
            }
        }
        _ => {}
    }
    v
}

fn check_errors(sb: &Sandbox, plan: &Plan, errors: &[String], strict: bool, run: &str) -> Result<(), String> {
    let faulty: Vec<&WorkFile> = plan.work.iter().filter(|w| w.fault.is_some()).collect();
    let listing = || format!("reported errors:\n{}", errors.iter().map(|e| format!("  - {}", e)).collect::<Vec<_>>().join("\n"));
    for e in errors {
        if !faulty.iter().any(|w| idents(sb, plan, w).iter().any(|id| e.contains(id.as_str()))) {
            return Err(format!("{}: an error is reported that names no faulty file: {}\nfaulty files: {:?}", run, e, faulty.iter().map(|w| &w.src).collect::<Vec<_>>()));
        }
    }
    if strict {
        for w in &faulty {
            if !errors.iter().any(|e| idents(sb, plan, w).iter().any(|id| e.contains(id.as_str()))) {
                return Err(format!(
                    "{}: faulty file {} ({}) is not reported with its path\n{}",
                    run,
                    w.src,
                    w.fault.as_deref().unwrap_or(""),
                    listing()
                ));
            }
        }
        if errors.len() != faulty.len() {
            return Err(format!("{}: {} faulty files but {} errors\n{}", run, faulty.len(), errors.len(), listing()));
        }
    } else if !faulty.is_empty() && errors.is_empty() {
        return Err(format!("{}: fail-fast run with faulty files {:?} reported no error", run, faulty.iter().map(|w| &w.src).collect::<Vec<_>>()));
    }
    Ok(())
}

fn check_tree(case: &Case, plan: &Plan, alone: &BTreeMap<String, Vec<u8>>, snap: &Snap, strict: bool, run: &str) -> Result<(), String> {
    let original: BTreeMap<&str, &Vec<u8>> = case.files.iter().map(|f| (f.path.as_str(), &f.bytes)).collect();
    // destination -> (source, expected bytes) for healthy work
    let mut dest: BTreeMap<&str, (&str, &Vec<u8>)> = BTreeMap::new();
    for w in plan.work.iter().filter(|w| w.fault.is_none()) {
        if let Some(b) = alone.get(&w.src) {
            dest.insert(w.out.as_str(), (w.src.as_str(), b));
        }
    }
    let faulty_dest: BTreeMap<&str, &WorkFile> = plan.work.iter().filter(|w| w.fault.is_some()).map(|w| (w.out.as_str(), w)).collect();
    let is_source = |p: &str| plan.work.iter().any(|w| w.src == p);
    let mut paths: BTreeSet<&str> = original.keys().copied().collect();
    paths.extend(dest.keys().copied());
    paths.extend(snap.files.keys().map(|s| s.as_str()));
    for p in paths {
        let before = original.get(p).copied();
        let after = snap.files.get(p);
        if let Some((src, exp)) = dest.get(p) {
            match after {
                Some(a) if a == *exp => continue,
                Some(a) if !strict && Some(a) == before => continue,
                None if !strict && before.is_none() => continue,
                None => return Err(format!("{}: healthy file {} has no output at {}", run, src, p)),
                Some(a) => {
                    return Err(format!(
                        "{}: the output of healthy file {} at {} differs from processing that file alone\n--- alone\n{}\n--- batch\n{}",
                        run,
                        src,
                        p,
                        show(exp),
                        show(a)
                    ))
                }
            }
        }
        match (before, after) {
            (Some(b), Some(a)) if a == b => {}
            (None, None) => {}
            (Some(_), None) => return Err(format!("{}: pre-existing file {} disappeared", run, p)),
            (None, Some(a)) => {
                if let Some(w) = faulty_dest.get(p) {
                    return Err(format!("{}: something was written at {} for the faulty file {} ({}):\n{}", run, p, w.src, w.fault.as_deref().unwrap_or(""), show(a)));
                }
                return Err(format!("{}: unexpected new file {}:\n{}", run, p, show(a)));
            }
            (Some(b), Some(a)) => {
                let what = if let Some(w) = faulty_dest.get(p) {
                    format!("the faulty file {} ({}) wrote to its destination {}", w.src, w.fault.as_deref().unwrap_or(""), p)
                } else if is_source(p) {
                    format!("input file {} was modified", p)
                } else {
                    format!("file {} is not part of the work but was modified", p)
                };
                return Err(format!("{}: {}\n--- before\n{}\n--- after\n{}", run, what, show(b), show(a)));
            }
        }
    }
    if case.fs {
        let mut before_dirs: BTreeSet<String> = case.dirs.iter().flat_map(|d| std::iter::once(d.clone()).chain(ancestors(d))).collect();
        for f in &case.files {
            before_dirs.extend(ancestors(&f.path));
        }
        let mut allowed: BTreeSet<String> = BTreeSet::new();
        for w in &plan.work {
            if w.fault.is_none() || w.fault.as_deref() == Some("dest_dir") {
                allowed.extend(ancestors(&w.out));
            }
        }
        for d in &before_dirs {
            if !snap.dirs.contains(d) {
                return Err(format!("{}: pre-existing directory {} disappeared", run, d));
            }
        }
        for d in &snap.dirs {
            if !before_dirs.contains(d) && !allowed.contains(d) {
                return Err(format!("{}: unexpected new directory {}", run, d));
            }
        }
    }
    Ok(())
}

fn check_in(sb: &Sandbox, case: &Case, extra_runs: usize) -> Result<Verdict, String> {
    let plan = plan(case);
    if plan.work.is_empty() {
        return Err("harness: the case has no work".into());
    }
    let faulty = plan.work.iter().filter(|w| w.fault.is_some()).count();
    let strict = !case.fail_fast || faulty == 0;

    let first = run_batch(sb, case, false)?;
    let second = run_batch(sb, case, true)?;

    // isolation reference: every healthy file alone
    let mut alone: BTreeMap<String, Vec<u8>> = BTreeMap::new();
    for w in plan.work.iter().filter(|w| w.fault.is_none()) {
        match run_alone(sb, case, &w.src)? {
            Ok(b) => {
                alone.insert(w.src.clone(), b);
            }
            Err(e) => return Err(format!("healthy file {} cannot be processed alone: {}", w.src, e)),
        }
    }

    for (name, out) in [("first run", &first), ("second run (fresh resources, other enumeration order)", &second)] {
        check_errors(sb, &plan, &out.errors, strict, name)?;
        check_tree(case, &plan, &alone, &out.snap, strict, name)?;
    }
    // replays repeat the batch more often: an order-dependent result shows up only for some
    // of the hash seeds
    for k in 0..extra_runs {
        let out = run_batch(sb, case, k % 2 == 0)?;
        check_errors(sb, &plan, &out.errors, strict, "repeated run")?;
        check_tree(case, &plan, &alone, &out.snap, strict, "repeated run")?;
    }
    if strict {
        // implied by the two tree checks; kept as the direct statement of determinism
        if first.snap != second.snap {
            let diff: Vec<&String> =
                first.snap.files.keys().chain(second.snap.files.keys()).filter(|k| first.snap.files.get(*k) != second.snap.files.get(*k)).collect();
            return Err(format!("two runs on identical inputs produced different trees; differing paths: {:?}", diff));
        }
        let (mut a, mut b) = (first.errors.clone(), second.errors.clone());
        a.sort();
        b.sort();
        if a != b {
            return Err(format!("two runs on identical inputs reported different errors:\n{:?}\n{:?}", a, b));
        }
    }

    let nontrivial = plan.work.len() >= 3
        && plan.work.iter().any(|f| f.fault.is_some() && plan.work.iter().any(|h| h.fault.is_none() && parent(&h.src) == parent(&f.src)));
    Ok(Verdict { nontrivial, work: plan.work.len(), faulty })
}

fn check(case: &Case, work_dir: Option<&Path>, extra_runs: usize) -> Result<Verdict, String> {
    if case.fs {
        let work = work_dir.ok_or("harness: no work directory for a file-system case")?;
        std::fs::create_dir_all(work).map_err(|e| format!("harness: {}", e))?;
        let dir = tempfile::tempdir_in(work).map_err(|e| format!("harness: tempdir: {}", e))?;
        let base = std::fs::canonicalize(dir.path()).map_err(|e| format!("harness: canonicalize: {}", e))?;
        let sb = Sandbox { base: Some(base) };
        let r = check_in(&sb, case, extra_runs);
        let _ = dir.close();
        r
    } else {
        check_in(&Sandbox { base: None }, case, extra_runs)
    }
}

// ------------------------------------------------------------------------------ generator

#[derive(Clone, Copy, Debug)]
struct GenCfg {
    fs: bool,
    /// known finding: in-place bundling of files that require each other depends on the order
    avoid_inplace_bundle: bool,
}

#[derive(Clone, Debug, Default)]
struct Meta {
    cfg: &'static str,
    input: &'static str,
    output: &'static str,
    deco_in: &'static str,
    deco_out: &'static str,
    faults: Vec<&'static str>,
    requires: usize,
    progen_bodies: usize,
    statementless: usize,
    avoided: usize,
}

const SYNTAX_ERRORS: [&str; 7] = [
    "local = 1\n",
    "local t = {1, 2\n",
    "local x = (1 + \n",
    "x = = 2\n",
    "for i = 1 do end\n",
    "local s = \"unterminated\n",
    "if true then\n  local y = 2\n",
];

fn broken_syntax(t: &mut Tape, id: usize, path: &str) -> String {
    format!("-- broken {} at {}\nlocal ok{} = {}\n{}", id, path, id, id, t.pick(&SYNTAX_ERRORS))
}

fn invalid_utf8(t: &mut Tape, id: usize) -> Vec<u8> {
    let mut b = format!("-- latin-1 leftovers {}\nlocal v{} = {}\n", id, id, id).into_bytes();
    match t.choose(3) {
        0 => b.extend_from_slice(b"-- caf\xe9\nreturn v\n"),
        1 => b.extend_from_slice(b"local s = \"\xc3\x28\"\nreturn s\n"),
        _ => {
            b.splice(0..0, [0xff, 0xfe]);
            b.extend_from_slice(b"return 1\n");
        }
    }
    b
}

struct Content<'a> {
    id: usize,
    path: &'a str,
    requires: Vec<String>,
    asserts: bool,
    profiling: bool,
    body: Option<String>,
}

fn healthy_content(c: &Content) -> String {
    let id = c.id;
    let mut s = format!("-- module {} at {}\nlocal M{} = {{ id = {} }} --[[ inline {} ]]\n", id, c.path, id, id, id);
    for (k, r) in c.requires.iter().enumerate() {
        s.push_str(&format!("local dep{}_{} = require(\"{}\")\nM{}[{}] = dep{}_{}\n", id, k, r, id, k + 1, id, k));
    }
    if c.asserts {
        s.push_str(&format!(
            "local function check{id}(select, v, ...)\n  assert(v)\n  local r = assert(v, \"message {id}\", ...)\n  return r, select\nend\nM{id}.check = check{id}\nassert(M{id}, \"top {id}\")\n"
        ));
    }
    if c.profiling {
        s.push_str(&format!("debug.profilebegin(\"label {id}\")\nM{id}.profiled = true\ndebug.profileend()\n"));
    }
    if let Some(b) = &c.body {
        s.push_str("do\n");
        s.push_str(b);
        if !b.ends_with('\n') {
            s.push('\n');
        }
        s.push_str("end\n");
    }
    s.push_str(&format!(
        "M{id}.value = {id} * 2 + 1 -- trailing {id}\nif false then M{id}.dead = {id} end\ndo end\nM{id}[\"field\"] = \"f{id}\"\nfunction M{id}.get(longArgumentName) return longArgumentName, M{id}.value end\nreturn M{id}\n"
    ));
    s
}

fn other_content(t: &mut Tape, name: &str, id: usize, fs: bool) -> Vec<u8> {
    match name {
        "data.json" => format!("{{\"name\":\"d{}\",\"list\":[1,2,{}],\"nested\":{{\"b\":true,\"a\":null,\"c\":\"x\"}}}}\n", id, id).into_bytes(),
        "notes.txt" => format!("plain text {}\nsecond line\n", id).into_bytes(),
        "cfg.toml" => format!("name = \"c{}\"\n[table]\nk = {}\nz = \"last\"\na = \"first\"\n", id, id).into_bytes(),
        "README" | ".hidden" => format!("read me {}\n", id).into_bytes(),
        _ => {
            if fs && t.bool(80) {
                let n = 1 + t.choose(12);
                let mut b = t.bytes(n);
                b.push(0xff);
                b
            } else {
                // tempting: valid Lua in a file that is not a Lua file
                format!("-- decoy {}\nreturn \"decoy {}\"\n", id, id).into_bytes()
            }
        }
    }
}

fn decorate(t: &mut Tape, p: &str, hop: &str, is_dir: bool, allow_trailing: bool) -> (String, &'static str) {
    match t.weighted(&[10, 2, 2, 2]) {
        0 => (p.to_string(), "plain"),
        1 => (format!("./{}", p), "dot_slash"),
        2 if is_dir && allow_trailing => (format!("{}/", p), "trailing_slash"),
        2 => (p.to_string(), "plain"),
        _ => (format!("{}/../{}", hop, p), "parent_hop"),
    }
}

fn gen_case(t: &mut Tape, g: &GenCfg) -> (Case, Meta) {
    let mut meta = Meta::default();
    let cfg_idx = t.choose(CONFIGS.len());
    let cfg = &CONFIGS[cfg_idx];
    meta.cfg = cfg.name;
    let layout = fsgen::gen_layout(t, 8, 3);
    let root = layout.root.clone();
    let mut lua: Vec<String> = layout.lua.clone();

    // ---- input shape
    let input_kind = t.weighted(&[7, 2, 2]);
    let sub_candidates: Vec<String> = layout.dirs.iter().skip(1).filter(|d| lua.iter().any(|f| is_under(f, d))).cloned().collect();
    let mut input_file_idx: Option<usize> = None;
    let mut input_rel = root.clone();
    match input_kind {
        1 if !sub_candidates.is_empty() => {
            input_rel = t.pick(&sub_candidates).clone();
            meta.input = "sub_directory";
        }
        2 => {
            let k = t.choose(lua.len());
            input_file_idx = Some(k);
            meta.input = "single_file";
        }
        _ => meta.input = "root_directory",
    }
    let file_input = input_file_idx.is_some();

    // ---- output shape
    #[derive(PartialEq, Clone, Copy)]
    enum OutKind {
        InPlace,
        Same,
        NewDir,
        NewFile,
        ExistingDir,
        ExistingFile,
    }
    let out_kind = match t.weighted(&[4, 1, 6, 2, 5, 2]) {
        0 => OutKind::InPlace,
        1 => OutKind::Same,
        2 => OutKind::NewDir,
        3 => OutKind::NewFile,
        4 => OutKind::ExistingDir,
        _ => OutKind::ExistingFile,
    };
    let in_place = matches!(out_kind, OutKind::InPlace | OutKind::Same);
    let mut extra_files: Vec<FileEntry> = vec![];
    let mut dirs: Vec<String> = vec![];
    let mut output_rel: Option<String> = None;
    match out_kind {
        OutKind::InPlace => meta.output = "in_place",
        OutKind::Same => meta.output = "same_as_input",
        OutKind::NewDir => {
            meta.output = "new_directory";
            let names: &[&str] = if file_input { &["out", "build/dist", "out put", "résultat"] } else { &["out", "build/dist", "out put", "résultat", "out.d"] };
            output_rel = Some(t.pick(names).to_string());
        }
        OutKind::NewFile => {
            if file_input {
                meta.output = "new_file";
                output_rel = Some(t.pick(&["out/result.lua", "res.luau", "gen/ö x.lua", "plain.txt"]).to_string());
            } else {
                meta.output = "new_directory_named_like_lua";
                output_rel = Some(t.pick(&["dist.lua", "o.luau"]).to_string());
            }
        }
        OutKind::ExistingDir => {
            meta.output = "existing_directory";
            let name = t.pick(&["out", "dist dir", "out.v1", "old.lua"]).to_string();
            let empty = g.fs && t.bool(70);
            if empty {
                dirs.push(name.clone());
            } else {
                extra_files.push(FileEntry { path: join(&name, "keep.txt"), bytes: b"keep me\n".to_vec(), fault: None });
                if t.bool(110) {
                    extra_files.push(FileEntry { path: join(&name, "stale.lua"), bytes: b"-- stale output without a source\nreturn 'stale'\n".to_vec(), fault: None });
                }
                if t.bool(60) {
                    extra_files.push(FileEntry { path: join(&name, "old/sub/x.lua"), bytes: b"return 'x'\n".to_vec(), fault: None });
                }
            }
            output_rel = Some(name);
        }
        OutKind::ExistingFile => {
            meta.output = "existing_file";
            let name = t.pick(&["old_output.lua", "out/previous.luau", "old_no_ext"]).to_string();
            extra_files.push(FileEntry { path: name.clone(), bytes: b"-- previous output\nreturn 0\n".to_vec(), fault: None });
            output_rel = Some(name);
        }
    }
    let dest_ok = g.fs && !in_place && out_kind != OutKind::ExistingFile && !(file_input && out_kind == OutKind::NewFile);

    // ---- faults
    let input_dir = input_rel.clone();
    let in_work = |i: usize, lua: &Vec<String>| match input_file_idx {
        Some(k) => i == k,
        None => is_under(&lua[i], &input_dir),
    };
    let n = lua.len();
    let mut fault: Vec<Option<&'static str>> = vec![None; n];
    let mut broken = vec![false; n]; // not requirable
    let mut bystander_syntax = vec![false; n];
    let kinds: [(&'static str, u32); 6] = [
        ("syntax", 4),
        ("invalid_utf8", if g.fs { 3 } else { 0 }),
        ("dest_dir", if dest_ok { 4 } else { 0 }),
        ("missing_require", if cfg.bundles { 4 } else { 0 }),
        ("unknown_source", if cfg.bundles && !cfg.excludes { 2 } else { 0 }),
        ("rule_fail", if cfg.rule_fail { 6 } else { 0 }),
    ];
    let weights: Vec<u32> = kinds.iter().map(|k| k.1).collect();
    let work_count = (0..n).filter(|i| in_work(*i, &lua)).count();
    for i in 0..n {
        if in_work(i, &lua) {
            if t.bool(98) {
                fault[i] = Some(kinds[t.weighted(&weights)].0);
            }
        } else if t.bool(40) {
            broken[i] = true;
            bystander_syntax[i] = true;
        }
    }
    if work_count >= 2 && fault.iter().all(|f| f.is_none()) && t.bool(200) {
        let ws: Vec<usize> = (0..n).filter(|i| in_work(*i, &lua)).collect();
        let i = *t.pick(&ws);
        fault[i] = Some(kinds[t.weighted(&weights)].0);
    }
    for i in 0..n {
        if fault[i] == Some("rule_fail") {
            let renamed = join(parent(&lua[i]), &format!("rf_{}", file_name(&lua[i])));
            lua[i] = renamed;
        }
        if fault[i].is_some() {
            broken[i] = true;
        }
    }
    if let Some(k) = input_file_idx {
        input_rel = lua[k].clone();
    }

    // ---- a malformed .luaurc above some of the work
    let mut other: Vec<(String, Vec<u8>)> = vec![];
    if cfg.luaurc && t.bool(60) {
        let cands: Vec<String> = layout.dirs.iter().skip(1).filter(|d| (0..n).any(|i| in_work(i, &lua) && is_under(&lua[i], d))).cloned().collect();
        if !cands.is_empty() {
            let d = t.pick(&cands).clone();
            let text: &str = *t.pick(&["{ not json", "{\"aliases\": [1, 2]}", "", "{\"aliases\": {\"a\": 1}}"][..]);
            other.push((join(&d, ".luaurc"), text.as_bytes().to_vec()));
            for i in 0..n {
                if is_under(&lua[i], &d) {
                    broken[i] = true;
                    if in_work(i, &lua) && fault[i].is_none() {
                        fault[i] = Some("luaurc");
                    }
                }
            }
        }
    }
    if t.bool(30) && !other.iter().any(|o| o.0 == join(&root, ".luaurc")) {
        other.push((join(&root, ".luaurc"), b"{\"aliases\": {\"pkg\": \"./lib\", \"zeta\": \"./z\", \"alpha\": \"./a\"}}".to_vec()));
    }

    // ---- non-Lua files
    for (k, p) in layout.other.iter().enumerate() {
        let bytes = other_content(t, file_name(p), 100 + k, g.fs);
        other.push((p.clone(), bytes));
    }
    let data_targets: Vec<String> = other.iter().filter(|o| matches!(file_name(&o.0), "data.json" | "notes.txt" | "cfg.toml")).map(|o| o.0.clone()).collect();

    // ---- contents
    let mut files: Vec<FileEntry> = vec![];
    let mut popts = GenOpts::lua51();
    popts.max_stmts = 5;
    popts.max_depth = 2;
    let mut reaches_work: Vec<bool> = (0..n).map(|i| in_work(i, &lua)).collect();
    for i in 0..n {
        let id = i + 1;
        let path = lua[i].clone();
        let work = in_work(i, &lua);
        let bytes: Vec<u8> = if fault[i] == Some("syntax") || bystander_syntax[i] {
            broken_syntax(t, id, &path).into_bytes()
        } else if fault[i] == Some("invalid_utf8") {
            invalid_utf8(t, id)
        } else if fault[i].is_none() && t.bool(14) {
            // a healthy file without a single statement (empty, blank, comments only): it still has
            // exactly one output; nothing can require it
            broken[i] = true;
            meta.statementless += 1;
            t.pick(&["", "\n", "-- only a comment\n", "--[[ nothing here ]]", "  \n\t\n", "--!strict\n-- todo\n"]).as_bytes().to_vec()
        } else {
            let mut requires: Vec<String> = vec![];
            let dir = parent(&path).to_string();
            let targets: Vec<usize> = (0..i)
                .filter(|j| !broken[*j])
                .filter(|j| {
                    // the bundle of a work file would (transitively) inline another work file
                    // that is rewritten in place during the same run
                    let both_work_in_place = in_place && cfg.bundles && work && reaches_work[*j];
                    if both_work_in_place && g.avoid_inplace_bundle {
                        meta.avoided += 1;
                        false
                    } else {
                        true
                    }
                })
                .collect();
            if !targets.is_empty() && t.bool(if cfg.bundles || cfg.name == "convert_require" { 170 } else { 50 }) {
                let k = 1 + t.choose(2);
                for _ in 0..k {
                    let j = *t.pick(&targets);
                    if reaches_work[j] {
                        reaches_work[i] = true;
                    }
                    let mut r = relative_from(&dir, &lua[j]);
                    if t.bool(100) {
                        // extension-less spelling when it cannot be ambiguous
                        let stem_path = &lua[j][..lua[j].rfind('.').unwrap()];
                        let ambiguous = lua.iter().enumerate().any(|(m, p)| m != j && p.starts_with(stem_path) && p[..p.rfind('.').unwrap()] == *stem_path)
                            || layout.dirs.iter().any(|d| d == stem_path)
                            || other.iter().any(|o| o.0 == stem_path);
                        if !ambiguous {
                            r = relative_from(&dir, stem_path);
                        }
                    }
                    if !requires.contains(&r) {
                        requires.push(r);
                    }
                }
            }
            if cfg.bundles && !data_targets.is_empty() && t.bool(90) {
                let d = t.pick(&data_targets);
                requires.push(relative_from(&dir, d));
            }
            if cfg.excludes && t.bool(100) {
                requires.push(t.pick(&["@lune/fs", "@ext/thing", "@lune/net/http"]).to_string());
            }
            if !cfg.bundles && t.bool(30) {
                requires.push(format!("./absent_{}", id)); // inert without bundling
            }
            match fault[i] {
                Some("missing_require") => requires.push(format!("./nope_{}", id)),
                Some("unknown_source") => requires.push(t.pick(&["@lune/fs", "pkgs/thing"]).to_string()),
                _ => {}
            }
            meta.requires += requires.len();
            let body = if t.bool(90) {
                let p = progen::gen_program(t, &popts);
                meta.progen_bodies += 1;
                Some(luaprint::print_plain(&p.block))
            } else {
                None
            };
            healthy_content(&Content { id, path: &path, requires, asserts: t.bool(120), profiling: t.bool(90), body }).into_bytes()
        };
        files.push(FileEntry { path, bytes, fault: if work { fault[i].map(|s| s.to_string()) } else { None } });
    }
    for (p, b) in other {
        files.push(FileEntry { path: p, bytes: b, fault: None });
    }
    files.extend(extra_files);

    // ---- argument spellings
    let (input, deco_in) = decorate(t, &input_rel, &root, !file_input, true);
    meta.deco_in = deco_in;
    let output = match (&output_rel, out_kind) {
        (_, OutKind::Same) => Some(input.clone()),
        (Some(o), _) => {
            let (s, d) = decorate(t, o, &root, false, false);
            meta.deco_out = d;
            Some(s)
        }
        _ => None,
    };
    let mut case = Case { fs: g.fs, files, dirs, input, output, fail_fast: false, config: cfg.text.to_string() };

    // ---- things that already sit at destinations
    let provisional = plan(&case);
    for w in &provisional.work {
        if w.out == w.src {
            continue;
        }
        match w.fault.as_deref() {
            Some("dest_dir") => {
                case.dirs.push(w.out.clone());
                if t.bool(120) {
                    case.files.push(FileEntry { path: join(&w.out, "inner.txt"), bytes: b"inside the blocking directory\n".to_vec(), fault: None });
                }
            }
            _ => {
                if out_kind == OutKind::ExistingDir && t.bool(64) && !case.is_file(&w.out) && !case.is_dir(&w.out) {
                    case.files.push(FileEntry { path: w.out.clone(), bytes: format!("-- old output for {}\nreturn 'old'\n", w.src).into_bytes(), fault: None });
                }
            }
        }
    }
    case.fail_fast = t.bool(64);
    for f in &case.files {
        if let Some(k) = &f.fault {
            if let Some(s) = kinds.iter().map(|k| k.0).chain(["luaurc"]).find(|s| s == k) {
                meta.faults.push(s);
            }
        }
    }
    if plan(&case).work.iter().any(|w| w.fault.as_deref() == Some("dest_root_is_file")) {
        meta.faults.push("dest_root_is_file");
    }
    (case, meta)
}

// ------------------------------------------------------------------------------ driver

fn classify(case: &Case, meta: &Meta, st: &mut Stats) {
    st.class(if case.fs { "mode:file_system" } else { "mode:memory" });
    st.class(&format!("config:{}", meta.cfg));
    st.class(&format!("input:{}", meta.input));
    st.class(&format!("output:{}", meta.output));
    st.class(&format!("input_spelling:{}", meta.deco_in));
    if !meta.deco_out.is_empty() {
        st.class(&format!("output_spelling:{}", meta.deco_out));
    }
    if case.fail_fast {
        st.class("fail_fast");
    }
    for f in &meta.faults {
        st.class(&format!("fault:{}", f));
    }
    if meta.faults.is_empty() {
        st.class("no_fault");
    }
    st.class_n("require_calls", meta.requires as u64);
    st.class_n("progen_bodies", meta.progen_bodies as u64);
    st.class_n("files_without_statement", meta.statementless as u64);
    if meta.avoided > 0 {
        st.class("avoided:inplace-bundle-order");
    }
    if case.files.iter().any(|f| file_name(&f.path) == ".luaurc") {
        st.class("has_luaurc");
    }
    if case.files.iter().any(|f| f.path.contains(".lua/") || f.path.contains(".luau/")) {
        st.class("directory_named_like_lua_file");
    }
}

fn run_phase(ctx: &RunCtx, phase: &str, cases: u64, g: GenCfg, work: Option<PathBuf>) {
    ctx.search(phase, cases, 700, |tape, st| {
        let mut t = Tape::new(tape);
        let (case, meta) = gen_case(&mut t, &g);
        classify(&case, &meta, st);
        st.sample(|| {
            json!({
                "mode": if case.fs { "file_system" } else { "memory" },
                "config": case.config, "input": case.input, "output": case.output, "fail_fast": case.fail_fast,
                "files": case.files.iter().map(|f| match &f.fault { Some(k) => format!("{} [{}]", f.path, k), None => f.path.clone() }).collect::<Vec<_>>(),
                "dirs": case.dirs,
            })
        });
        match check(&case, work.as_deref(), 0) {
            Ok(v) => {
                st.class(&format!("work_files:{}", v.work.min(8)));
                if v.faulty > 0 && v.faulty < v.work {
                    st.class("mixed_healthy_and_faulty");
                }
                if v.nontrivial {
                    st.class("nontrivial");
                }
                CaseResult::Pass { nontrivial: v.nontrivial.then(|| hash_str(&case.to_json().to_string())) }
            }
            Err(m) if m.starts_with("harness:") => {
                // a harness-side problem must never be reported as a darklua violation silently
                CaseResult::Fail(Failure::new(format!("HARNESS PROBLEM (not a darklua defect): {}", m), case.to_json()))
            }
            Err(m) => CaseResult::Fail(Failure::new(m, case.to_json())),
        }
    });
}

fn run(ctx: &RunCtx) {
    let avoid = ctx.avoid("inplace-bundle-order");
    let n_mem = ctx.tier.pick(6_000, 80_000);
    run_phase(ctx, "memory", n_mem, GenCfg { fs: false, avoid_inplace_bundle: avoid }, None);
    let n_fs = ctx.tier.pick(400, 3_000);
    let work = ctx.verif_dir.join(".work/c11fs");
    let _ = std::fs::create_dir_all(&work);
    run_phase(ctx, "filesystem", n_fs, GenCfg { fs: true, avoid_inplace_bundle: avoid }, Some(work.clone()));
    let _ = std::fs::remove_dir_all(&work);
    // the input given as the current directory (`.`, `./`, `sub/..`): needs a process of its own,
    // because the working directory is process-wide
    ctx.isolate("cwd_input");
    let n_cwd = ctx.tier.pick(320, 3_200);
    let base = ctx.verif_dir.join(".work/c11cwd");
    ctx.search("cwd_input", n_cwd, 300, |tape, st| {
        let mut t = Tape::new(tape);
        let case = gen_cwd_case(&mut t);
        st.class(&format!("input_spelled:{}", case.input));
        st.class(if case.output.is_some() { "with_output" } else { "in_place" });
        st.sample(|| case.to_json());
        match check_cwd(&case, &base) {
            Ok(nested) => CaseResult::Pass { nontrivial: nested.then(|| hash_str(&case.to_json().to_string())) },
            Err(m) if m.starts_with("harness:") => CaseResult::Fail(Failure::new(format!("HARNESS PROBLEM (not a darklua defect): {}", m), case.to_json())),
            Err(m) => CaseResult::Fail(Failure::new(m, case.to_json())),
        }
    });
    if ctx.child.is_none() {
        let _ = std::fs::remove_dir_all(&base);
    }
    // the `darklua process` and `darklua minify` commands themselves (the binary ./check builds from
    // /repo's working tree), on trees in which some files are faulty
    match cli_binary() {
        Some(bin) => {
            let n_cli = ctx.tier.pick(240, 6_000);
            let cli_base = ctx.verif_dir.join(".work/c11cli");
            let _ = std::fs::create_dir_all(&cli_base);
            ctx.search("commands", n_cli, 300, |tape, st| {
                let mut t = Tape::new(tape);
                let case = gen_cli_case(&mut t);
                let Ok(dir) = tempfile::tempdir_in(&cli_base) else { return CaseResult::Discard("cannot create temp dir") };
                st.class(&format!("command:{}", case.command));
                st.class(&format!("faulty_files:{}", case.faulty.len().min(3)));
                st.sample(|| case.to_json());
                match check_cli(&bin, &case, dir.path()) {
                    Ok(()) => CaseResult::Pass { nontrivial: (!case.faulty.is_empty() && case.faulty.len() < case.files.len()).then(|| hash_str(&case.to_json().to_string())) },
                    Err(m) if m.starts_with("harness:") => CaseResult::Fail(Failure::new(format!("HARNESS PROBLEM (not a darklua defect): {}", m), case.to_json())),
                    Err(m) => CaseResult::Fail(Failure::new(m, case.to_json())),
                }
            });
            let _ = std::fs::remove_dir_all(&cli_base);
            ctx.note(format!("the `darklua process` and `darklua minify` commands were run from {}", bin.display()));
        }
        None => ctx.note("the darklua commands were not exercised: no binary at DLV_DARKLUA_BIN (./check builds it)"),
    }
    // symbolic links inside the input tree (a linked file, a linked directory): the files they lead to
    // are files under the input like any other
    let n_links = ctx.tier.pick(120, 1_200);
    let link_base = ctx.verif_dir.join(".work/c11links");
    let _ = std::fs::create_dir_all(&link_base);
    ctx.search("symlinks", n_links, 200, |tape, st| {
        let mut t = Tape::new(tape);
        let case = gen_cwd_case(&mut t);
        let Ok(dir) = tempfile::tempdir_in(&link_base) else { return CaseResult::Discard("cannot create temp dir") };
        st.class("symlink_case");
        match check_links(&case, dir.path(), &mut t) {
            Ok(()) => CaseResult::Pass { nontrivial: Some(hash_str(&case.to_json().to_string())) },
            Err(m) if m.starts_with("harness:") => CaseResult::Discard("harness: cannot set the tree up"),
            Err(m) => CaseResult::Fail(Failure::new(m, json!({"kind": "symlinks", "case": case.to_json()}))),
        }
    });
    let _ = std::fs::remove_dir_all(&link_base);
}

/// the tree of `case` under <dir>/in, plus <dir>/shared/{x.lua, deep/y.luau} reached through a
/// file link and a directory link placed in a generated position
fn check_links(case: &CwdCase, dir: &Path, t: &mut Tape) -> Result<(), String> {
    let io = |e: std::io::Error| format!("harness: {}", e);
    let root = dir.join("in");
    std::fs::create_dir_all(&root).map_err(io)?;
    for (p, c) in &case.files {
        let f = root.join(p);
        std::fs::create_dir_all(f.parent().unwrap()).map_err(io)?;
        std::fs::write(&f, c).map_err(io)?;
    }
    let shared = dir.join("shared");
    std::fs::create_dir_all(shared.join("deep")).map_err(io)?;
    std::fs::write(shared.join("x.lua"), "-- shared x\nreturn 'x'\n").map_err(io)?;
    std::fs::write(shared.join("deep/y.luau"), "-- shared y\nreturn 'y'\n").map_err(io)?;
    // link positions: the root or an existing sub-directory
    let mut dirs: Vec<PathBuf> = vec![PathBuf::new()];
    for (p, _) in &case.files {
        if let Some(parent) = Path::new(p).parent() {
            if !dirs.contains(&parent.to_path_buf()) {
                dirs.push(parent.to_path_buf());
            }
        }
    }
    let file_at = dirs[t.choose(dirs.len())].join("linked file.lua");
    let dir_at = dirs[t.choose(dirs.len())].join("linked_dir");
    let absolute = t.bool(128);
    let target = |name: &str, from: &Path| -> PathBuf {
        if absolute {
            shared.join(name)
        } else {
            let ups = from.components().count();
            let mut p = PathBuf::new();
            for _ in 0..ups {
                p.push("..");
            }
            p.join("shared").join(name)
        }
    };
    std::os::unix::fs::symlink(target("x.lua", &file_at), root.join(&file_at)).map_err(io)?;
    std::os::unix::fs::symlink(target("", &dir_at), root.join(&dir_at)).map_err(io)?;
    let config = dl::parse_config("{ rules: [], generator: \"retain_lines\" }").map_err(|e| format!("harness: {}", e))?;
    let out = dir.join("out");
    let result = catch(|| {
        let options = Options::new(root.clone()).with_output(out.clone()).with_configuration(config);
        darklua_core::process(&Resources::from_file_system(), options).map(|tree| tree.collect_errors().iter().map(|e| e.to_string()).collect::<Vec<_>>())
    });
    match result {
        Err(p) => return Err(format!("darklua panicked: {}", p)),
        Ok(Err(e)) => return Err(format!("processing a tree with symbolic links fails: {}", e)),
        Ok(Ok(errs)) if !errs.is_empty() => return Err(format!("processing a tree with symbolic links reports errors: {:?}", errs)),
        Ok(Ok(_)) => {}
    }
    let mut expected: Vec<(PathBuf, String)> = case.files.iter().map(|(p, c)| (PathBuf::from(p), c.clone())).collect();
    expected.push((file_at.clone(), "-- shared x\nreturn 'x'\n".into()));
    expected.push((dir_at.join("x.lua"), "-- shared x\nreturn 'x'\n".into()));
    expected.push((dir_at.join("deep/y.luau"), "-- shared y\nreturn 'y'\n".into()));
    for (p, c) in &expected {
        let got = std::fs::read(out.join(p)).map_err(|e| format!("no output at the mirrored path `{}` (link to a file: `{}`, link to a directory: `{}`): {}", p.display(), file_at.display(), dir_at.display(), e))?;
        if got != c.as_bytes() {
            return Err(format!("the output at `{}` is not darklua's output for the file it leads to: {:?}", p.display(), String::from_utf8_lossy(&got)));
        }
    }
    let mut count = 0;
    let mut stack = vec![out.clone()];
    while let Some(d) = stack.pop() {
        for e in std::fs::read_dir(&d).map_err(io)? {
            let e = e.map_err(io)?;
            if e.file_type().map_err(io)?.is_dir() {
                stack.push(e.path());
            } else {
                count += 1;
            }
        }
    }
    if count != expected.len() {
        return Err(format!("{} files were written, {} were expected (link to a file: `{}`, link to a directory: `{}`)", count, expected.len(), file_at.display(), dir_at.display()));
    }
    // the link targets are not modified
    if std::fs::read(shared.join("x.lua")).map_err(io)? != b"-- shared x\nreturn 'x'\n" {
        return Err("the file a link leads to was modified".into());
    }
    Ok(())
}

/// a tree processed from inside it: `input` is a spelling of the current directory
struct CwdCase {
    files: Vec<(String, String)>,
    other: Vec<String>,
    input: String,
    output: Option<String>,
}

impl CwdCase {
    fn to_json(&self) -> Value {
        json!({"kind": "cwd_input", "files": self.files, "other": self.other, "input": self.input, "output": self.output})
    }
    fn from_json(v: &Value) -> Option<CwdCase> {
        Some(CwdCase {
            files: serde_json::from_value(v.get("files")?.clone()).ok()?,
            other: serde_json::from_value(v.get("other")?.clone()).ok()?,
            input: v.get("input")?.as_str()?.to_string(),
            output: v.get("output").and_then(|o| o.as_str()).map(|s| s.to_string()),
        })
    }
}

fn gen_cwd_case(t: &mut Tape) -> CwdCase {
    let layout = fsgen::gen_layout(t, 5, 2);
    let below = |p: &String| p[layout.root.len() + 1..].to_string();
    let files: Vec<(String, String)> = layout.lua.iter().enumerate().map(|(i, p)| (below(p), format!("-- file {}\nreturn {}\n", i, i))).collect();
    let other = layout.other.iter().map(below).collect();
    let sub = layout.dirs.iter().skip(1).map(below).find(|d| !d.contains('/'));
    let input = match (t.choose(5), sub) {
        (1, _) => "./".to_string(),
        (2, _) => "./.".to_string(),
        (3, _) => ".//".to_string(),
        (4, Some(d)) => format!("{}/..", d),
        _ => ".".to_string(),
    };
    let output = match t.choose(3) {
        0 => None,
        1 => Some("../out".to_string()),
        _ => Some("../out dir/nested".to_string()),
    };
    CwdCase { files, other, input, output }
}

/// the command-line binary built by ./check (DLV_DARKLUA_BIN), when it exists
fn cli_binary() -> Option<PathBuf> {
    let p = PathBuf::from(std::env::var("DLV_DARKLUA_BIN").ok()?);
    p.is_file().then_some(p)
}

struct CliCase {
    files: Vec<(String, String)>,
    other: Vec<String>,
    /// indexes of `files` whose content does not parse
    faulty: Vec<usize>,
    /// "minify" | "process"
    command: String,
}

impl CliCase {
    fn to_json(&self) -> Value {
        json!({"kind": "commands", "files": self.files, "other": self.other, "faulty": self.faulty, "command": self.command})
    }
    fn from_json(v: &Value) -> Option<CliCase> {
        Some(CliCase {
            files: serde_json::from_value(v.get("files")?.clone()).ok()?,
            other: serde_json::from_value(v.get("other")?.clone()).ok()?,
            faulty: serde_json::from_value(v.get("faulty")?.clone()).ok()?,
            command: v.get("command")?.as_str()?.to_string(),
        })
    }
}

fn gen_cli_case(t: &mut Tape) -> CliCase {
    let base = gen_cwd_case(t);
    let mut files = base.files;
    let mut faulty = vec![];
    for (i, f) in files.iter_mut().enumerate() {
        if t.bool(70) {
            f.1 = broken_syntax(t, i, &f.0);
            faulty.push(i);
        } else {
            f.1 = format!("-- file {}\nlocal value = {}\n\nreturn value + {}\n", i, i, t.choose(9));
        }
    }
    CliCase { files, other: base.other, faulty, command: if t.bool(128) { "minify" } else { "process" }.to_string() }
}

const CLI_CONFIG: &str = "{ rules: [], generator: \"dense\" }";

fn check_cli(bin: &Path, case: &CliCase, dir: &Path) -> Result<(), String> {
    let io = |e: std::io::Error| format!("harness: {}", e);
    let root = dir.join("in");
    for (p, c) in &case.files {
        let f = root.join(p);
        std::fs::create_dir_all(f.parent().unwrap()).map_err(io)?;
        std::fs::write(&f, c).map_err(io)?;
    }
    for p in &case.other {
        let f = root.join(p);
        std::fs::create_dir_all(f.parent().unwrap()).map_err(io)?;
        std::fs::write(&f, "not lua").map_err(io)?;
    }
    std::fs::create_dir_all(&root).map_err(io)?;
    std::fs::write(dir.join("conf.json5"), CLI_CONFIG).map_err(io)?;
    let mut cmd = std::process::Command::new(bin);
    cmd.current_dir(dir);
    if case.command == "minify" {
        cmd.args(["minify", "in", "out"]);
    } else {
        cmd.args(["process", "--config", "conf.json5", "in", "out"]);
    }
    let out = cmd.output().map_err(|e| format!("harness: cannot run {}: {}", bin.display(), e))?;
    let said = format!("{}{}", String::from_utf8_lossy(&out.stdout), String::from_utf8_lossy(&out.stderr));
    let what = format!("`darklua {}` on a tree with {} faulty file(s) of {}", case.command, case.faulty.len(), case.files.len());
    if out.status.code().is_none() {
        return Err(format!("{}: the command was killed by a signal\n{}", what, said));
    }
    if case.faulty.is_empty() != out.status.success() {
        return Err(format!("{}: exit status {:?}\n{}", what, out.status.code(), said));
    }
    let mut expected_outputs = 0;
    for (i, (p, c)) in case.files.iter().enumerate() {
        let written = std::fs::read(dir.join("out").join(p));
        if case.faulty.contains(&i) {
            if written.is_ok() {
                return Err(format!("{}: something was written for the faulty file `{}`", what, p));
            }
            if !said.contains(p.as_str()) {
                return Err(format!("{}: the faulty file `{}` is not reported with its path\n{}", what, p, said));
            }
        } else {
            expected_outputs += 1;
            let alone = dl::process_one_named(c, CLI_CONFIG, "alone.lua").map_err(|e| format!("harness: {}", e))?;
            match written {
                Err(_) => return Err(format!("{}: no output at the mirrored path for the healthy file `{}` (the faulty ones: {:?})\n{}", what, p, case.faulty.iter().map(|i| &case.files[*i].0).collect::<Vec<_>>(), said)),
                Ok(w) if w != alone.as_bytes() => return Err(format!("{}: the output of the healthy file `{}` differs from processing that file alone: {:?}", what, p, String::from_utf8_lossy(&w))),
                Ok(_) => {}
            }
        }
        if std::fs::read(root.join(p)).map_err(io)? != c.as_bytes() {
            return Err(format!("{}: the input file `{}` was modified", what, p));
        }
    }
    // nothing else is written
    let mut count = 0;
    let mut stack = vec![dir.join("out")];
    while let Some(d) = stack.pop() {
        let Ok(rd) = std::fs::read_dir(&d) else { continue };
        for e in rd {
            let e = e.map_err(io)?;
            if e.file_type().map_err(io)?.is_dir() {
                stack.push(e.path());
            } else {
                count += 1;
            }
        }
    }
    if count != expected_outputs {
        return Err(format!("{}: {} files were written for {} healthy Lua files", what, count, expected_outputs));
    }
    Ok(())
}

/// Ok(true) when the tree has a file below a sub-directory
fn check_cwd(case: &CwdCase, base: &Path) -> Result<bool, String> {
    struct Back(PathBuf);
    impl Drop for Back {
        fn drop(&mut self) {
            let _ = std::env::set_current_dir(&self.0);
        }
    }
    let home = std::env::current_dir().map_err(|e| format!("harness: current_dir: {}", e))?;
    let dir = base.join(format!("p{}", std::process::id()));
    let _ = std::fs::remove_dir_all(&dir);
    let root = dir.join("in");
    let io = |e: std::io::Error| format!("harness: {}", e);
    for (p, c) in &case.files {
        let f = root.join(p);
        std::fs::create_dir_all(f.parent().unwrap()).map_err(io)?;
        std::fs::write(&f, c).map_err(io)?;
    }
    for p in &case.other {
        let f = root.join(p);
        std::fs::create_dir_all(f.parent().unwrap()).map_err(io)?;
        std::fs::write(&f, "not lua").map_err(io)?;
    }
    std::fs::create_dir_all(&root).map_err(io)?;
    let config = dl::parse_config("{ rules: [], generator: \"retain_lines\" }").map_err(|e| format!("harness: {}", e))?;
    let result = {
        let _back = Back(home);
        std::env::set_current_dir(&root).map_err(io)?;
        catch(|| {
            let mut options = Options::new(PathBuf::from(&case.input)).with_configuration(config);
            if let Some(o) = &case.output {
                options = options.with_output(PathBuf::from(o));
            }
            darklua_core::process(&Resources::from_file_system(), options).map(|tree| tree.collect_errors().iter().map(|e| e.to_string()).collect::<Vec<_>>())
        })
    };
    let verdict = (|| {
        match result {
            Err(p) => return Err(format!("darklua panicked: {}", p)),
            Ok(Err(e)) => return Err(format!("processing the current directory (input spelled `{}`) fails although every file is healthy: {}", case.input, e)),
            Ok(Ok(errs)) if !errs.is_empty() => return Err(format!("processing the current directory (input spelled `{}`) reports errors although every file is healthy: {:?}", case.input, errs)),
            Ok(Ok(_)) => {}
        }
        let out_root = match &case.output {
            Some(o) => root.join(o),
            None => root.clone(),
        };
        for (p, c) in &case.files {
            let got = std::fs::read(out_root.join(p)).map_err(|e| format!("no output at the mirrored path `{}` for `{}` (input spelled `{}`): {}", out_root.join(p).display(), p, case.input, e))?;
            if got != c.as_bytes() {
                return Err(format!("the output for `{}` is not darklua's output for that file: {:?}", p, String::from_utf8_lossy(&got)));
            }
            if std::fs::read(root.join(p)).map_err(io)? != c.as_bytes() {
                return Err(format!("the input file `{}` was modified", p));
            }
        }
        if case.output.is_some() {
            // nothing else is written
            let mut stack = vec![out_root.clone()];
            let mut count = 0;
            while let Some(d) = stack.pop() {
                for e in std::fs::read_dir(&d).map_err(io)? {
                    let e = e.map_err(io)?;
                    if e.file_type().map_err(io)?.is_dir() {
                        stack.push(e.path());
                    } else {
                        count += 1;
                    }
                }
            }
            if count != case.files.len() {
                return Err(format!("{} files were written for {} Lua files", count, case.files.len()));
            }
        }
        Ok(case.files.iter().any(|(p, _)| p.contains('/')))
    })();
    let _ = std::fs::remove_dir_all(&dir);
    verdict
}

fn replay(v: &Value) -> Result<(), String> {
    if v.get("kind").and_then(|k| k.as_str()) == Some("commands") {
        let case = CliCase::from_json(v).ok_or("malformed C11 replay file")?;
        let bin = cli_binary().ok_or("harness: no darklua binary at DLV_DARKLUA_BIN (./check --replay builds it)")?;
        let base = PathBuf::from(std::env::var("VERIF_DIR").unwrap_or_else(|_| "/verif".into())).join(".work/c11cli-replay");
        let _ = std::fs::create_dir_all(&base);
        let dir = tempfile::tempdir_in(&base).map_err(|e| format!("harness: {}", e))?;
        let r = check_cli(&bin, &case, dir.path());
        drop(dir);
        let _ = std::fs::remove_dir_all(&base);
        return r;
    }
    if v.get("kind").and_then(|k| k.as_str()) == Some("symlinks") {
        // the positions of the links are generated: the replay tries every position with a fixed tape
        let case = CwdCase::from_json(v.get("case").ok_or("malformed C11 replay file")?).ok_or("malformed C11 replay file")?;
        let base = PathBuf::from(std::env::var("VERIF_DIR").unwrap_or_else(|_| "/verif".into())).join(".work/c11links-replay");
        let _ = std::fs::create_dir_all(&base);
        let mut result = Ok(());
        for k in 0..16u8 {
            let dir = tempfile::tempdir_in(&base).map_err(|e| e.to_string())?;
            let tape = [k.wrapping_mul(37), k.wrapping_mul(91), k.wrapping_mul(17)];
            let mut t = Tape::new(&tape);
            if let Err(m) = check_links(&case, dir.path(), &mut t) {
                if !m.starts_with("harness:") {
                    result = Err(m);
                    break;
                }
            }
        }
        let _ = std::fs::remove_dir_all(&base);
        return result;
    }
    if v.get("kind").and_then(|k| k.as_str()) == Some("cwd_input") {
        let case = CwdCase::from_json(v).ok_or("malformed C11 replay file")?;
        let base = PathBuf::from(std::env::var("VERIF_DIR").unwrap_or_else(|_| "/verif".into())).join(".work/c11cwd-replay");
        return check_cwd(&case, &base).map(|_| ());
    }
    let case = Case::from_json(v).ok_or("malformed C11 replay file")?;
    if case.fs {
        let work = PathBuf::from(std::env::var("VERIF_DIR").unwrap_or_else(|_| "/verif".into())).join(".work/c11fs-replay");
        let r = check(&case, Some(&work), 10).map(|_| ());
        let _ = std::fs::remove_dir_all(&work);
        r
    } else {
        check(&case, None, 10).map(|_| ())
    }
}
