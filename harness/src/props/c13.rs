//! C13 — string and number literals survive generation exactly.

use crate::engine::*;
use crate::luaref::{self, Dialect, Outcome};
use crate::luasyn::ast::Expr;
use crate::luasyn::literal::{decode_number, decode_string};
use crate::luasyn::{self, Mode};
use crate::tape::Tape;
use crate::visit::{walk_block, Node};
use darklua_core::generator::{DenseLuaGenerator, LuaGenerator, ReadableLuaGenerator, TokenBasedLuaGenerator};
use darklua_core::nodes as dn;
use serde_json::{json, Value};

pub fn def() -> PropDef {
    PropDef {
        id: "C13",
        rule: "strings: every byte string of length <= 2 (exhaustive), then structured families (each control byte before a digit, both quotes, backslashes, `]` runs `]] ]=] ]==]` in every position incl. the end, leading newline, CR, CRLF, invalid UTF-8, non-ASCII before digits, lengths 19/20/59/60/61, 5/6/7 newlines) and random byte strings; numbers: boundary classes of f64 (+-0, subnormals, min / max normal, powers of 2 and 10 and their neighbours, 2^53 +- 1, shortest-representation hard cases, random bit patterns) through Expression::from(f64), DecimalNumber::with_exponent, HexNumber and BinaryNumber (<= 64 bits); each x {dense, readable, token-based generator on token-less nodes} x neighbour contexts (bare, both sides of `..`, under unary minus, index t[lit], call argument incl. string-call sugar, list element, table item, right of binary minus). Oracle: the independent parser reads the written text; string literals decode to the same bytes under Luau rules, and under Lua 5.1 rules unless the spelling uses \\u{...}; number literals decode to the same bits (negative / infinite / NaN values, written as expressions, are evaluated by the independent interpreter). Parsing side: number literal texts of every Luau form go through darklua's parser and compute_value() must equal the independent decoder's value. Non-trivial = the writer had to escape, choose a quote or bracket level, or change notation.",
        assumptions: &["hex literals with binary exponents are not generated (neither Lua 5.1 nor Luau reads them)", "hex / binary literals wider than 64 bits are outside the claim"],
        run,
        replay,
        minimize: None,
    }
}

#[derive(Clone, Copy, Debug, PartialEq)]
pub enum G {
    Dense,
    Readable,
    Token,
}
const GENS: [G; 3] = [G::Dense, G::Readable, G::Token];

fn write(block: &dn::Block, g: G, span: usize) -> String {
    match g {
        G::Dense => {
            let mut w = DenseLuaGenerator::new(span);
            w.write_block(block);
            w.into_string()
        }
        G::Readable => {
            let mut w = ReadableLuaGenerator::new(span);
            w.write_block(block);
            w.into_string()
        }
        G::Token => {
            let mut w = TokenBasedLuaGenerator::new("");
            w.write_block(block);
            w.into_string()
        }
    }
}

const CONTEXTS: usize = 9;

fn in_context(lit: dn::Expression, ctx: usize) -> dn::Block {
    use dn::*;
    let e: Expression = match ctx {
        0 => lit,
        1 => BinaryExpression::new(BinaryOperator::Concat, lit.clone(), lit).into(),
        2 => UnaryExpression::new(UnaryOperator::Minus, lit).into(),
        3 => IndexExpression::new(Prefix::from_name("t"), lit).into(),
        4 => match lit {
            Expression::String(s) => FunctionCall::from_name("f").with_arguments(s).into(),
            other => FunctionCall::from_name("f").with_argument(other).into(),
        },
        5 => {
            return Block::default().with_last_statement(ReturnStatement::default().with_expression(lit.clone()).with_expression(Expression::identifier("x")).with_expression(lit));
        }
        6 => TableExpression::new(vec![TableEntry::from_value(lit.clone()), TableEntry::Index(Box::new(TableIndexEntry::new(lit, Expression::from(true))))]).into(),
        7 => BinaryExpression::new(BinaryOperator::Minus, Expression::identifier("x"), lit).into(),
        _ => FunctionCall::from_name("f").with_argument(lit.clone()).with_argument(lit).into(),
    };
    Block::default().with_last_statement(ReturnStatement::one(e))
}

fn literals_of(text: &str) -> Result<Vec<Expr>, String> {
    let p = luasyn::parse(text, Mode::Luau).map_err(|e| format!("output is not valid Luau: {} (line {})", e.msg, e.line))?;
    let mut v = vec![];
    walk_block(&p.block, &mut |n| {
        if let Node::Expr { e, .. } = n {
            if matches!(e, Expr::Str { .. } | Expr::Number { .. }) {
                v.push(e.clone());
            }
        }
    });
    Ok(v)
}

fn expected_count(ctx: usize) -> usize {
    match ctx {
        1 | 5 | 6 | 8 => 2,
        _ => 1,
    }
}

pub fn check_string(bytes: &[u8], g: G, span: usize, ctx: usize) -> Result<bool, String> {
    let lit: dn::Expression = dn::StringExpression::from_value(bytes.to_vec()).into();
    let block = in_context(lit, ctx);
    let out = catch(|| write(&block, g, span)).map_err(|p| format!("PANIC in {:?} generator writing the string {:?}: {}", g, bytes, p))?;
    let lits = literals_of(&out).map_err(|e| format!("{} \n--- string bytes {:?}, generator {:?}, context {}\n--- output\n{}", e, bytes, g, ctx, out))?;
    let strings: Vec<&Expr> = lits.iter().filter(|e| matches!(e, Expr::Str { .. })).collect();
    if strings.len() != expected_count(ctx) {
        return Err(format!("expected {} string literal(s) in the output, found {}\n--- string bytes {:?}, generator {:?}, context {}\n--- output\n{}", expected_count(ctx), strings.len(), bytes, g, ctx, out));
    }
    let mut interesting = false;
    for s in strings {
        if let Expr::Str { raw, value } = s {
            if value.as_slice() != bytes {
                return Err(format!(
                    "the string {:?} is written as {} which Luau reads back as {:?}\n--- generator {:?}, span {}, context {}\n--- output\n{}",
                    bytes, raw, value, g, span, ctx, out
                ));
            }
            if !raw.contains("\\u{") {
                match decode_string(raw, Mode::Lua51) {
                    Ok(v51) if v51.as_slice() == bytes => {}
                    Ok(v51) => {
                        return Err(format!(
                            "the string {:?} is written as {} which Lua 5.1 reads back as {:?}\n--- generator {:?}, span {}, context {}\n--- output\n{}",
                            bytes, raw, v51, g, span, ctx, out
                        ))
                    }
                    Err(e) => {
                        if !luasyn::literal::uses_luau_only_escape(raw) {
                            return Err(format!("the string {:?} is written as {} which Lua 5.1 cannot read: {}\n--- output\n{}", bytes, raw, e, out));
                        }
                        // \x / \z spellings are Luau-only: the statement names \u only
                        return Err(format!("the string {:?} is written as {} with a Luau-only escape other than \\u{{}}, unreadable for Lua 5.1\n--- output\n{}", bytes, raw, out));
                    }
                }
            }
            if raw.contains('\\') || raw.starts_with('[') || raw.starts_with('\'') {
                interesting = true;
            }
        }
    }
    Ok(interesting)
}

fn lua_number_literal(n: f64) -> String {
    if n.is_nan() {
        "(0/0)".into()
    } else if n.is_infinite() {
        if n > 0.0 { "(1/0)".into() } else { "(-1/0)".into() }
    } else if n == 0.0 && n.is_sign_negative() {
        "(-0)".into()
    } else if n < 0.0 {
        format!("(-{:e})", -n)
    } else {
        format!("{:e}", n)
    }
}

fn eval_bits(text: &str) -> Result<String, String> {
    let p = luasyn::parse(text, Mode::Luau).map_err(|e| format!("not valid Luau: {} (line {})", e.msg, e.line))?;
    match luaref::run(&p.block, &crate::behave::cfg(Dialect::Luau)) {
        Outcome::Done { ret, .. } if ret.len() == 1 => Ok(ret[0].clone()),
        other => Err(format!("unexpected outcome {:?}", other)),
    }
}

#[derive(Clone, Debug)]
pub enum NumSpec {
    F64(f64),
    DecimalExp(f64, i64, bool),
    Hex(u64, bool),
    Bin(u64, bool),
}

impl NumSpec {
    fn expr(&self) -> dn::Expression {
        match self {
            NumSpec::F64(v) => dn::Expression::from(*v),
            NumSpec::DecimalExp(v, e, up) => dn::DecimalNumber::new(*v).with_exponent(*e, *up).into(),
            NumSpec::Hex(v, up) => dn::HexNumber::new(*v, *up).into(),
            NumSpec::Bin(v, up) => dn::BinaryNumber::new(*v, *up).into(),
        }
    }
    fn value(&self) -> f64 {
        match self {
            NumSpec::F64(v) | NumSpec::DecimalExp(v, _, _) => *v,
            NumSpec::Hex(v, _) | NumSpec::Bin(v, _) => *v as f64,
        }
    }
    fn json(&self) -> Value {
        match self {
            NumSpec::F64(v) => json!({"kind": "f64", "bits": format!("{:016x}", v.to_bits())}),
            NumSpec::DecimalExp(v, e, up) => json!({"kind": "decimal_exp", "bits": format!("{:016x}", v.to_bits()), "exponent": e, "upper": up}),
            NumSpec::Hex(v, up) => json!({"kind": "hex", "value": v.to_string(), "upper": up}),
            NumSpec::Bin(v, up) => json!({"kind": "bin", "value": v.to_string(), "upper": up}),
        }
    }
    fn from_json(v: &Value) -> Option<NumSpec> {
        let bits = || u64::from_str_radix(v.get("bits")?.as_str()?, 16).ok().map(f64::from_bits);
        let up = v.get("upper").and_then(|b| b.as_bool()).unwrap_or(false);
        Some(match v.get("kind")?.as_str()? {
            "f64" => NumSpec::F64(bits()?),
            "decimal_exp" => NumSpec::DecimalExp(bits()?, v.get("exponent")?.as_i64()?, up),
            "hex" => NumSpec::Hex(v.get("value")?.as_str()?.parse().ok()?, up),
            "bin" => NumSpec::Bin(v.get("value")?.as_str()?.parse().ok()?, up),
            _ => return None,
        })
    }
}

pub fn check_number(spec: &NumSpec, g: G, span: usize, ctx: usize) -> Result<bool, String> {
    let value = spec.value();
    let simple = value.is_finite() && !(value.is_sign_negative());
    // contexts other than the bare one only make sense for a literal that is a single token
    let ctx = if simple { ctx } else { 0 };
    let block = in_context(spec.expr(), ctx);
    let out = catch(|| write(&block, g, span)).map_err(|p| format!("PANIC in {:?} generator writing the number {:?}: {}", g, spec, p))?;
    if ctx == 0 {
        // evaluate the written expression and the reference literal in the same interpreter
        let got = eval_bits(&out).map_err(|e| format!("the number {:?} ({}) is written as text that is {}\n--- output\n{}", spec, value, e, out))?;
        let want = eval_bits(&format!("return {}\n", lua_number_literal(value))).map_err(|e| format!("harness: {}", e))?;
        if got != want {
            return Err(format!("the number {:?} (bits {:016x}) is written as text that evaluates to {} instead of {}\n--- generator {:?}, span {}\n--- output\n{}", spec, value.to_bits(), got, want, g, span, out));
        }
    } else {
        let lits = literals_of(&out).map_err(|e| format!("{}\n--- number {:?}, generator {:?}, context {}\n--- output\n{}", e, spec, g, ctx, out))?;
        let nums: Vec<f64> = lits.iter().filter_map(|e| if let Expr::Number { value, .. } = e { Some(*value) } else { None }).collect();
        if nums.len() != expected_count(ctx) || nums.iter().any(|n| n.to_bits() != value.to_bits()) {
            return Err(format!(
                "the number {:?} (bits {:016x}) written in context {} reads back as {:?}\n--- generator {:?}, span {}\n--- output\n{}",
                spec,
                value.to_bits(),
                ctx,
                nums.iter().map(|n| format!("{:e}", n)).collect::<Vec<_>>(),
                g,
                span,
                out
            ));
        }
    }
    Ok(!(value.fract() == 0.0 && value.abs() < 1e6 && matches!(spec, NumSpec::F64(_))))
}

/// parsing side: text -> darklua value vs the independent decoder
pub fn check_parse_number(text: &str) -> Result<Option<()>, String> {
    let Ok(model) = decode_number(text, Mode::Luau) else { return Ok(None) };
    let src = format!("return {}", text);
    let block = match catch(|| darklua_core::Parser::default().parse(&src)) {
        Ok(Ok(b)) => b,
        Ok(Err(_)) => return Ok(None),
        Err(p) => return Err(format!("PANIC parsing the number literal `{}`: {}", text, p)),
    };
    let value = catch(|| match block.get_last_statement() {
        Some(dn::LastStatement::Return(r)) => match r.iter_expressions().next() {
            Some(dn::Expression::Number(n)) => Some(n.compute_value()),
            _ => None,
        },
        _ => None,
    })
    .map_err(|p| format!("PANIC computing the value of the number literal `{}`: {}", text, p))?;
    let Some(value) = value else { return Ok(None) };
    if value.to_bits() != model.to_bits() {
        return Err(format!("the literal `{}` is {:e} (bits {:016x}) for Luau but darklua computes {:e} (bits {:016x})", text, model, model.to_bits(), value, value.to_bits()));
    }
    Ok(Some(()))
}

fn structured_strings() -> Vec<Vec<u8>> {
    let mut v: Vec<Vec<u8>> = vec![];
    for c in 0u8..32 {
        for d in [b'0', b'9', b'a'] {
            v.push(vec![c, d]);
            v.push(vec![b'x', c, d, c]);
        }
    }
    for c in [127u8, 128, 160, 194, 233, 255] {
        for d in [b'0', b'7', b'z'] {
            v.push(vec![c, d]);
            v.push(vec![b'a', c, c, d]);
        }
    }
    v.push("é1".as_bytes().to_vec());
    v.push("日本語42".as_bytes().to_vec());
    let quotes: [&[u8]; 8] = [b"'", b"\"", b"'\"", b"\"'\"", b"it's", b"say \"hi\"", b"both ' and \" here", b"\\\"'"];
    for q in quotes {
        v.push(q.to_vec());
    }
    for s in ["\\", "\\\\", "\\n", "a\\", "\\0", "\\x41", "\\u{41}", "\\z", "%s\\d"] {
        v.push(s.as_bytes().to_vec());
    }
    // long-bracket territory: length >= 60, or >= 20 with >= 6 newlines
    let fill60 = "0123456789".repeat(6);
    let lines7 = "l1\nl2\nl3\nl4\nl5\nl6\nl7 padded to twenty";
    for base in [fill60.as_str(), lines7] {
        for closer in ["]]", "]=]", "]==]", "]", "]=", "]==", "[[", "[=[", "]]]", "]=]=]"] {
            v.push(format!("{}{}", base, closer).into_bytes());
            v.push(format!("{}{}", closer, base).into_bytes());
            v.push(format!("{}{}{}", &base[..10], closer, &base[10..]).into_bytes());
            v.push(format!("{} ]] {}", base, closer).into_bytes());
            v.push(format!("{} ]] ]=] {}", base, closer).into_bytes());
        }
        v.push(format!("\n{}", base).into_bytes());
        v.push(format!("\r{}", base).into_bytes());
        v.push(format!("\r\n{}", base).into_bytes());
        v.push(format!("{}\r\nmore", base).into_bytes());
        v.push(format!("{}\n", base).into_bytes());
        v.push(format!("{}\t\0", base).into_bytes());
        v.push(format!("{}é", base).into_bytes());
        let mut bad = base.as_bytes().to_vec();
        bad.push(0xff);
        v.push(bad);
    }
    for n in [18usize, 19, 20, 21, 58, 59, 60, 61, 62] {
        v.push("a".repeat(n).into_bytes());
        v.push(format!("{}\n", "a".repeat(n - 1)).into_bytes());
        for nl in [4usize, 5, 6, 7] {
            let mut s = String::new();
            for i in 0..nl {
                s.push_str(&format!("r{}\n", i));
            }
            while s.len() < n {
                s.push('p');
            }
            v.push(s.into_bytes());
        }
    }
    v
}

fn boundary_numbers() -> Vec<NumSpec> {
    let mut v: Vec<f64> = vec![0.0, -0.0, 1.0, -1.0, 0.5, 0.1, 0.2, 0.3, 1.0 / 3.0, 2.0 / 3.0, 1e15, 1e16, 1e21, 1e22, 1e23, 1e100, 1e308, 1.7976931348623157e308, 5e-324, 2.2250738585072014e-308, 2.225073858507201e-308, 1e-7, 1e-5, 1e-4, 123456789012345680.0, 9007199254740991.0, 9007199254740992.0, 9007199254740993.0, 9007199254740994.0, 4503599627370496.5, 0.30000000000000004, 5e-324 * 3.0, f64::INFINITY, f64::NEG_INFINITY, f64::NAN, 255.0, 65535.0, 4294967296.0, 18446744073709551615.0, 1.5e300, 3.141592653589793, 2.718281828459045, 100.0, 1e3, 12345.678, 0.000123];
    for p in -1074i32..=1023 {
        if p % 37 == 0 || p > 1000 || p < -1050 || (-60..=60).contains(&p) {
            let x = 2f64.powi(p);
            v.push(x);
            v.push(f64::from_bits(x.to_bits() + 1));
            if x.to_bits() > 0 {
                v.push(f64::from_bits(x.to_bits() - 1));
            }
        }
    }
    for p in -320i32..=308 {
        if p % 11 == 0 || (-25..=25).contains(&p) {
            let x: f64 = format!("1e{}", p).parse().unwrap();
            v.push(x);
            v.push(f64::from_bits(x.to_bits() + 1));
            if x.to_bits() > 0 {
                v.push(f64::from_bits(x.to_bits() - 1));
            }
            v.push(-x);
        }
    }
    let mut out: Vec<NumSpec> = v.iter().map(|x| NumSpec::F64(*x)).collect();
    for x in [1.0f64, 1.5, 12.0, 1e10, 0.001, 123.456, 1e300, 5e-324] {
        for e in [-300i64, -10, -1, 0, 1, 2, 10, 21, 300] {
            out.push(NumSpec::DecimalExp(x, e, e % 2 == 0));
        }
    }
    for x in [0u64, 1, 9, 10, 15, 16, 255, 4096, 0xdead_beef, (1u64 << 53) - 1, 1u64 << 53, (1u64 << 53) + 1, (1u64 << 63) + 1025, u64::MAX, u64::MAX - 1024] {
        out.push(NumSpec::Hex(x, false));
        out.push(NumSpec::Hex(x, true));
        out.push(NumSpec::Bin(x, false));
        out.push(NumSpec::Bin(x, true));
    }
    out
}

const PARSE_TEXTS: [&str; 40] = [
    "0", "1", "10", "1.5", ".5", "5.", "1e2", "1E2", "1e+2", "1e-2", "1.5e3", "0.1", "0x10", "0XfF", "0xABCDEF", "0b101", "0B11", "1_000", "1_0.5_0", "0x_FF", "0b1_0", "1e1_0", "9007199254740993", "18446744073709551615", "18446744073709551616", "1e308", "1e309", "5e-324", "2.2250738585072014e-308", "0.30000000000000004", "123456789012345678901234567890", "0x7fffffffffffffff", "0xffffffffffffffff", "0b1111111111111111111111111111111111111111111111111111111111111111", "1e-400", "0e0", "00012", "1__0", "3.14159265358979323846", "4.35",
];

const NEG_CONTEXTS: usize = 8;

/// a (possibly negative / non-finite) number literal node next to other tokens
fn check_negative_in_context(v: f64, g: G, c: usize) -> Result<(), String> {
    use dn::*;
    let lit = || Expression::from(v);
    let x = || Expression::identifier("x");
    let reference_lit = format!("({})", lua_number_literal(v));
    let (e, reference): (Expression, String) = match c {
        0 => (BinaryExpression::new(BinaryOperator::Concat, lit(), Expression::from(StringExpression::from_value("s"))).into(), format!("{} .. \"s\"", reference_lit)),
        1 => (BinaryExpression::new(BinaryOperator::Concat, Expression::from(StringExpression::from_value("s")), lit()).into(), format!("\"s\" .. {}", reference_lit)),
        2 => (BinaryExpression::new(BinaryOperator::Minus, x(), lit()).into(), format!("x - {}", reference_lit)),
        3 => (BinaryExpression::new(BinaryOperator::Minus, lit(), x()).into(), format!("{} - x", reference_lit)),
        4 => (BinaryExpression::new(BinaryOperator::Caret, lit(), Expression::from(2.0)).into(), format!("{} ^ 2", reference_lit)),
        5 => (UnaryExpression::new(UnaryOperator::Minus, lit()).into(), format!("-{}", reference_lit)),
        6 => (BinaryExpression::new(BinaryOperator::Concat, lit(), lit()).into(), format!("{} .. {}", reference_lit, reference_lit)),
        _ => (TableExpression::new(vec![TableEntry::from_value(lit()), TableEntry::from_value(BinaryExpression::new(BinaryOperator::Plus, x(), lit()))]).into(), format!("{{ {}, x + {} }}", reference_lit, reference_lit)),
    };
    let block = Block::default().with_last_statement(ReturnStatement::one(e));
    let out = catch(|| write(&block, g, 80)).map_err(|p| format!("PANIC in {:?} generator: {}", g, p))?;
    let run = |text: &str| -> Result<Outcome, String> {
        let p = luasyn::parse(&format!("local x = 7\n{}", text), Mode::Luau).map_err(|e| format!("not valid Luau: {} (line {})", e.msg, e.line))?;
        Ok(luaref::run(&p.block, &crate::behave::cfg(Dialect::Luau)))
    };
    let got = run(&out).map_err(|e| format!("the {:?} generator writes the number {} in context {} as text that is {}\n--- output\n{}", g, v, c, e, out))?;
    let want = run(&format!("return {}\n", reference)).map_err(|e| format!("harness: reference {}", e))?;
    if got != want {
        return Err(format!("the {:?} generator writes `{}` (the number {} as one literal) as text that evaluates differently\n--- output\n{}\n--- reference\nreturn {}", g, reference, v, out, reference));
    }
    Ok(())
}

/// programs holding one literal spelling in a few positions
fn literal_texts() -> Vec<String> {
    let bodies: [&str; 51] = [
        "\\0", "\\00", "\\000", "\\0001", "\\0011", "\\0012", "\\0277", "\\1", "\\12", "\\123", "\\1234", "\\255", "\\2550", "\\2555", "\\9", "\\99", "\\0a", "\\10a",
        "\\x41", "\\x4142", "\\x00", "\\xff", "\\xFF0", "\\u{48}", "\\u{0048}1", "\\u{e9}", "\\u{10FFFF}", "\\u{D800}", "\\z  \n  x", "\\z\n  7", "\\\nq", "a\\\r\nb",
        // `\z` skips ASCII white space only
        "\\z\u{3000}x", "\\z \u{a0}y", "\\z\n  \u{2003}z", "\\z\u{85}w", "\\z\u{2028}v",
        "\\a\\b\\f\\n\\r\\t\\v", "\\\\", "\\'", "\\\"", "tab\there", "\\0010\\0020", "1\\0002", "\\065\\0661", "%d\\037", "\\127\\128\\1291", "[[", "]]", "--", "\\u{7f}7",
    ];
    let numbers = [
        "0", "1", "9007199254740992", "9007199254740993", "9223372036854775807", "9223372036854775808", "18446744073709551615", "18446744073709551616", "100000000000000000000",
        "123456789012345678901234567890", "1e15", "1e16", "1e21", "1e22", "1e23", "1e100", "1e308", "1.7976931348623157e308", "5e-324", "2.2250738585072014e-308", "0.1", "0.30000000000000004",
        "1.3e-3", "2.7e-4", "4.7e-8", "5.2e-2", "6.6743e-11", "4.6982573308436185e159", "1.5e300", "12345.678e-2", "1E+10", "1e-5", "1e-7", ".5", "5.", "0e0", "00012", "3.14159265358979",
        "0x10", "0XfF", "0xFFFFFFFFFFFFFFFF", "0x7fffffffffffffff", "0x8000000000000000", "0x1p4", "0b1111", "0B1010", "1_000_000", "0x_FF", "0b_1", "1__0", "1_e1_0", "123456789.123456789",
    ];
    let mut v = vec![];
    for b in bodies {
        // backticks, braces and bare quotes need the right delimiter
        v.push(format!("return \"{}\"", b.replace("[[", "[ [")));
        v.push(format!("return '{}'", b));
        if !b.contains('`') {
            v.push(format!("return `{}`", b));
            v.push(format!("return `{}{{x}}{}`", b, b));
            v.push(format!("return `{{x}}{}{{y}}7`", b));
        }
        v.push(format!("local s = f(\"{}\", \"{}\") .. \"{}\"", b, b, b));
    }
    // long bracket strings: the line break after the opening bracket, line breaks written CR LF,
    // several leading line breaks; text that is not ASCII in every kind of quote
    for l in ["[[\n\nUsage]]", "[[\r\nline one\r\nline two\r\n]]", "[==[\n]==]", "[[\n]]", "[[\r\n]]", "[[\n\n]]", "[[a\r\nb]]", "[=[\r\n\r\nx]=]", "[[ \nx]]", "[[\tq\n\n]]", "[[]]", "[[\n\r\nx]]"] {
        v.push(format!("return {}", l));
        v.push(format!("local s = f({}) .. {}", l, l));
        v.push(format!("f {}", l));
    }
    for b in ["é", "Café: € — merci", "日本語", "a\u{e9}é"] {
        v.push(format!("return \"{}\"", b));
        v.push(format!("return '{}'", b));
        v.push(format!("return `{}`", b));
        v.push(format!("return `{}{{x}} {} {{y}}{}`", b, b, b));
        v.push(format!("return [[{}]]", b));
    }
    for n in numbers {
        v.push(format!("return {}", n));
        v.push(format!("return -{}, f({}, {})", n, n, n));
        v.push(format!("local t = {{ {} ; [{}] = {} }}", n, n, n));
    }
    v
}

fn run(ctx: &RunCtx) {
    crate::props::c02::allow_unicode_escape_for_non_ascii_text();
    // strings: exhaustive up to length 2
    let total = 1u64 + 256 + 65536;
    ctx.add_class("exhaustive_short_strings", total);
    ctx.enumerate("short_strings", total * 3, |i, st| {
        let g = GENS[(i % 3) as usize];
        let k = i / 3;
        let bytes: Vec<u8> = if k == 0 {
            vec![]
        } else if k <= 256 {
            vec![(k - 1) as u8]
        } else {
            let x = k - 257;
            vec![(x >> 8) as u8, (x & 255) as u8]
        };
        // three contexts per string, rotating
        let mut interesting = false;
        for c in 0..3 {
            let ctx_id = ((k as usize) + c * 3) % CONTEXTS;
            match check_string(&bytes, g, 80, ctx_id) {
                Ok(x) => interesting |= x,
                Err(m) => return CaseResult::Fail(Failure::new(m, json!({"kind": "string", "bytes": bytes, "generator": format!("{:?}", g), "span": 80, "context": ctx_id}))),
            }
        }
        if k % 5003 == 0 {
            st.sample(|| json!({"bytes": bytes, "generator": format!("{:?}", g)}));
        }
        CaseResult::Pass { nontrivial: interesting.then(|| hash_parts(&[&bytes, &[i as u8 % 3]])) }
    });
    static STRUCTURED: std::sync::OnceLock<Vec<Vec<u8>>> = std::sync::OnceLock::new();
    let structured = STRUCTURED.get_or_init(structured_strings);
    ctx.add_class("structured_strings", structured.len() as u64);
    ctx.enumerate("structured_strings", structured.len() as u64 * 3 * CONTEXTS as u64, |i, st| {
        let g = GENS[(i % 3) as usize];
        let c = ((i / 3) % CONTEXTS as u64) as usize;
        let bytes = &structured[(i / (3 * CONTEXTS as u64)) as usize];
        for span in [80usize, 0, 10] {
            match check_string(bytes, g, span, c) {
                Ok(x) => {
                    if x {
                        st.class("string_needed_escape_or_choice");
                    }
                }
                Err(m) => return CaseResult::Fail(Failure::new(m, json!({"kind": "string", "bytes": bytes, "generator": format!("{:?}", g), "span": span, "context": c}))),
            }
        }
        CaseResult::Pass { nontrivial: Some(hash_parts(&[bytes, &[g as u8, c as u8]])) }
    });
    static NUMBERS: std::sync::OnceLock<Vec<NumSpec>> = std::sync::OnceLock::new();
    let numbers = NUMBERS.get_or_init(boundary_numbers);
    ctx.add_class("boundary_numbers", numbers.len() as u64);
    ctx.enumerate("boundary_numbers", numbers.len() as u64 * 3 * CONTEXTS as u64, |i, _st| {
        let g = GENS[(i % 3) as usize];
        let c = ((i / 3) % CONTEXTS as u64) as usize;
        let spec = &numbers[(i / (3 * CONTEXTS as u64)) as usize];
        match check_number(spec, g, 80, c) {
            Ok(nt) => CaseResult::Pass { nontrivial: nt.then(|| hash_str(&format!("{:?}{:?}{}", spec, g, c))) },
            Err(m) => CaseResult::Fail(Failure::new(m, json!({"kind": "number", "spec": spec.json(), "generator": format!("{:?}", g), "span": 80, "context": c}))),
        }
    });
    ctx.enumerate("parse_numbers", PARSE_TEXTS.len() as u64, |i, _st| {
        let text = PARSE_TEXTS[i as usize];
        match check_parse_number(text) {
            Ok(None) => CaseResult::Discard("not a literal for both parsers"),
            Ok(Some(())) => CaseResult::Pass { nontrivial: Some(hash_str(text)) },
            Err(m) => CaseResult::Fail(Failure::new(m, json!({"kind": "parse_number", "text": text}))),
        }
    });
    // negative and non-finite numbers are single literals in darklua's tree (rules leave them behind):
    // next to operators, as index, call argument, in a table, the written text must still evaluate to
    // the same thing as the fully parenthesised reference
    let negatives: [f64; 9] = [-0.0, -1.0, -2.5, -10.0, -1e300, -5e-324, -0.1, f64::NEG_INFINITY, f64::INFINITY];
    ctx.enumerate("negative_numbers_in_context", negatives.len() as u64 * 3 * NEG_CONTEXTS as u64, |i, st| {
        let g = GENS[(i % 3) as usize];
        let c = ((i / 3) % NEG_CONTEXTS as u64) as usize;
        let v = negatives[(i / (3 * NEG_CONTEXTS as u64)) as usize];
        st.class("negative_number_in_context");
        match check_negative_in_context(v, g, c) {
            Ok(()) => CaseResult::Pass { nontrivial: Some(hash_str(&format!("{}{:?}{}", v, g, c))) },
            Err(m) => CaseResult::Fail(Failure::new(m, json!({"kind": "negative_context", "bits": format!("{:016x}", v.to_bits()), "generator": format!("{:?}", g), "context": c}))),
        }
    });
    // literal SOURCE texts: read by darklua's parser, written again by the dense and readable
    // generators, read by the independent parser: the value must be the one the independent decoder
    // gives to the source text (escape forms followed by digits, whole numbers beyond 2^53 / 2^63 /
    // 2^64 written with all their digits, exponent spellings, interpolated text segments)
    static TEXTS: std::sync::OnceLock<Vec<String>> = std::sync::OnceLock::new();
    let texts = TEXTS.get_or_init(literal_texts);
    ctx.enumerate("literal_texts", texts.len() as u64 * 2, |i, st| {
        let text = &texts[(i / 2) as usize];
        let g = if i % 2 == 0 { crate::props::c02::Gen::Dense } else { crate::props::c02::Gen::Readable };
        st.class("literal_source_text");
        match crate::props::c02::check_text(text, g, 80) {
            Ok(Some(())) => CaseResult::Pass { nontrivial: Some(hash_str(text)) },
            Ok(None) => {
                if luasyn::parse(text, Mode::Luau).is_ok() {
                    CaseResult::Fail(Failure::new(format!("darklua refuses the valid literal text {:?}", text), json!({"kind": "literal_text", "text": text, "generator": format!("{:?}", g)})))
                } else {
                    CaseResult::Discard("harness: literal text is not valid for the independent parser")
                }
            }
            Err(m) => CaseResult::Fail(Failure::new(m, json!({"kind": "literal_text", "text": text, "generator": format!("{:?}", g)}))),
        }
    });
    ctx.exhaustive.store(true, std::sync::atomic::Ordering::Relaxed);
    // random strings and numbers
    let n = ctx.tier.pick(60_000, 3_000_000);
    ctx.search("random", n, 96, |tape, st| {
        let mut t = Tape::new(tape);
        let g = GENS[t.choose(3)];
        let c = t.choose(CONTEXTS);
        let span = *t.pick(&[80usize, 0, 1, 10, 40]);
        match t.weighted(&[5, 4, 2]) {
            0 => {
                // random bytes biased to troublemakers
                let len = match t.weighted(&[4, 3, 2]) {
                    0 => t.choose(8),
                    1 => 18 + t.choose(6),
                    _ => 56 + t.choose(10),
                };
                let pool: &[u8] = b"]]=[[\n\r\\\"'\0\x01\x7f\xff\xc3\xa9 019az";
                let bytes: Vec<u8> = (0..len).map(|_| if t.bool(170) { pool[t.choose(pool.len())] } else { t.byte() }).collect();
                st.class("random_string");
                st.sample(|| json!({"bytes": bytes}));
                match check_string(&bytes, g, span, c) {
                    Ok(x) => CaseResult::Pass { nontrivial: x.then(|| hash_parts(&[&bytes, &[g as u8, c as u8]])) },
                    Err(m) => CaseResult::Fail(Failure::new(m, json!({"kind": "string", "bytes": bytes, "generator": format!("{:?}", g), "span": span, "context": c}))),
                }
            }
            1 => {
                let bits = u64::from_le_bytes([t.byte(), t.byte(), t.byte(), t.byte(), t.byte(), t.byte(), t.byte(), t.byte()]);
                let spec = match t.choose(4) {
                    0 => NumSpec::F64(f64::from_bits(bits)),
                    1 => {
                        let v = f64::from_bits(bits);
                        NumSpec::DecimalExp(if v.is_finite() { v.abs() } else { 1.0 }, t.int(-320, 320), t.bool(128))
                    }
                    2 => NumSpec::Hex(bits >> t.choose(64), t.bool(128)),
                    _ => NumSpec::Bin(bits >> t.choose(64), t.bool(128)),
                };
                st.class("random_number");
                match check_number(&spec, g, span, c) {
                    Ok(nt) => CaseResult::Pass { nontrivial: nt.then(|| hash_str(&format!("{:?}{:?}{}", spec, g, c))) },
                    Err(m) => CaseResult::Fail(Failure::new(m, json!({"kind": "number", "spec": spec.json(), "generator": format!("{:?}", g), "span": span, "context": c}))),
                }
            }
            _ => {
                // number literal texts assembled from digit groups
                let mut text = String::new();
                match t.choose(3) {
                    0 => {
                        text.push_str(["0x", "0X"][t.choose(2)]);
                        for _ in 0..1 + t.choose(18) {
                            text.push(*t.pick(&['0', '1', '9', 'a', 'F', 'f', '_']));
                        }
                    }
                    1 => {
                        text.push_str(["0b", "0B"][t.choose(2)]);
                        for _ in 0..1 + t.choose(66) {
                            text.push(*t.pick(&['0', '1', '_']));
                        }
                    }
                    _ => {
                        for _ in 0..t.choose(20) {
                            text.push(*t.pick(&['0', '1', '5', '9', '_']));
                        }
                        if t.bool(150) {
                            text.push('.');
                            for _ in 0..t.choose(20) {
                                text.push(*t.pick(&['0', '3', '9', '_']));
                            }
                        }
                        if t.bool(120) {
                            text.push(*t.pick(&['e', 'E']));
                            if t.bool(128) {
                                text.push(*t.pick(&['+', '-']));
                            }
                            for _ in 0..1 + t.choose(3) {
                                text.push(*t.pick(&['0', '1', '3', '9']));
                            }
                        }
                    }
                }
                st.class("random_number_text");
                match check_parse_number(&text) {
                    Ok(None) => CaseResult::Discard("not a literal for both parsers"),
                    Ok(Some(())) => CaseResult::Pass { nontrivial: Some(hash_str(&text)) },
                    Err(m) => CaseResult::Fail(Failure::new(m, json!({"kind": "parse_number", "text": text}))),
                }
            }
        }
    });
}

fn replay(v: &Value) -> Result<(), String> {
    crate::props::c02::allow_unicode_escape_for_non_ascii_text();
    let g = match v.get("generator").and_then(|s| s.as_str()) {
        Some("Readable") => G::Readable,
        Some("Token") => G::Token,
        _ => G::Dense,
    };
    let span = v.get("span").and_then(|s| s.as_u64()).unwrap_or(80) as usize;
    let ctx = v.get("context").and_then(|s| s.as_u64()).unwrap_or(0) as usize;
    match v.get("kind").and_then(|k| k.as_str()) {
        Some("string") => {
            let bytes: Vec<u8> = v.get("bytes").and_then(|b| b.as_array()).ok_or("malformed C13 replay")?.iter().filter_map(|x| x.as_u64().map(|n| n as u8)).collect();
            check_string(&bytes, g, span, ctx).map(|_| ())
        }
        Some("number") => {
            let spec = NumSpec::from_json(v.get("spec").ok_or("malformed C13 replay")?).ok_or("malformed C13 replay spec")?;
            check_number(&spec, g, span, ctx).map(|_| ())
        }
        Some("parse_number") => check_parse_number(v.get("text").and_then(|s| s.as_str()).ok_or("malformed C13 replay")?).map(|_| ()),
        Some("negative_context") => {
            let v = u64::from_str_radix(v.get("bits").and_then(|s| s.as_str()).ok_or("malformed C13 replay")?, 16).map(f64::from_bits).map_err(|_| "malformed C13 replay")?;
            check_negative_in_context(v, g, ctx)
        }
        Some("literal_text") => {
            let text = v.get("text").and_then(|s| s.as_str()).ok_or("malformed C13 replay")?;
            let g2 = if matches!(g, G::Readable) { crate::props::c02::Gen::Readable } else { crate::props::c02::Gen::Dense };
            match crate::props::c02::check_text(text, g2, span)? {
                Some(()) => Ok(()),
                None => Err(format!("darklua refuses the valid literal text {:?}", text)),
            }
        }
        _ => Err("malformed C13 replay".into()),
    }
}
