//! C15 — requires resolve as documented and conversions keep the target.
//!
//! Observation: an in-memory project is BUNDLED (`darklua_core::process`, configuration read from
//! a configuration file so that "relative to the configuration file" is defined) and the bundle is
//! run in `luaref`; every candidate file returns a marker naming itself, so the returned value
//! identifies the file darklua resolved.  The oracle is `model::resolver` (documentation only).
//! Conversion: `convert_require` current -> target, the new argument is read back with `luasyn`,
//! resolved by darklua (bundle under the target mode) and by the model: both must reach the file
//! the original resolved to.

use crate::engine::*;
use crate::luaref::{self, Dialect};
use crate::luasyn::ast::{Expr, Stmt};
use crate::luasyn::{self, Mode};
use crate::model::resolver::{self, ModeSpec, World};
use crate::tape::Tape;
use darklua_core::{Options, Resources};
use serde_json::{json, Map, Value};
use std::collections::BTreeMap;
use std::path::Path;

pub fn def() -> PropDef {
    PropDef {
        id: "C15",
        rule: "EXHAUSTIVE (both tiers): every subset a real file system can hold of the candidate files {m, m.luau, m.lua, m/<folder>, m/<folder>.luau, m/<folder>.lua, m.json, directory m.lua/ holding <folder>.lua} (108 of 256 layout indexes; <folder> follows module_folder_name) mirrored under the root, src/ and src/pkg/ so that a wrong base directory is visible, every file returning a marker naming itself — x requiring file {src/main.lua, src/pkg/init.lua} x mode {path with module_folder_name init | index | init.lua, luau} x require string {./m ./m.lua ./m.luau ./m.json ../m ../src/m ./a/../m ././m @self/m m} plus {lib/m @alias/m @rc/m mod data} under 6 environments (sources/aliases map only; map + root .luaurc; two .luaurc files, nearest wins; same name in map and .luaurc; use_luau_configuration false; configuration file in conf/ with ../ locations). Each case: the requiring file is bundled (configuration read from a file), the bundle is run in luaref and the returned marker compared with the documentation-only model resolver; when the model finds nothing darklua must report an error naming the require or a tried path. Then convert_require (path->luau; luau->path[init] and path[index]) rewrites the requiring file, the new argument is read back with luasyn and must resolve — by the model under the target mode AND by darklua bundling under the target mode — to the originally resolved file. RANDOM phase (30k quick / 5M thorough): 1-2 stems from {m, n.x, init, index, util} with random candidate subsets in 1-3 of 6 directories, requiring file main|init|index .lua/.luau in any of them, random sources/aliases (to directories, stems or files), optional .luaurc at 3 depths, use_luau_configuration, configuration in the root or conf/, require strings aimed at a populated directory (relative path or through an ancestor alias, with ./ and a/../ noise) or composed blindly, with and without extension or explicit folder file. Non-trivial = at least 2 of the documented candidates exist simultaneously, or the requiring file is a module-folder file, or the joined path needs normalisation.",
        assumptions: &[
            "Resources::from_memory: a path is a file iff a file was written there; directories exist implicitly (layouts that a real file system cannot hold are discarded)",
            "@self is taken relative to the directory of the requiring file also for an ordinary file (documentation silent; darklua's behaviour accepted)",
            "a name defined both in the configuration and in the nearest .luaurc with different locations: either location is accepted (documentation ambiguous); which one darklua takes is recorded in the class histogram",
            "the luau mode uses the candidate order of the path mode with module folder name `init` (its page only refers to the Luau RFCs)",
            "a require that resolves to a file without extension cannot be observed by bundling (known finding: panic); with the avoid switch on, such cases are checked through the model side of the conversion only; a file with an unsupported extension must produce an error naming that file",
            "`name/../x` strings in which normalisation would cancel or escape the source name are not generated (the documentation does not say whether normalisation precedes the name lookup; darklua normalises first)",
            "absolute require paths are not generated (in-memory resources)",
        ],
        run,
        replay,
        minimize: None,
    }
}

// ------------------------------------------------------------------------------------ case

#[derive(Clone, Debug, PartialEq)]
struct ModeCfg {
    luau: bool,
    mfn: String,
    map: BTreeMap<String, String>,
    use_rc: Option<bool>,
}

impl ModeCfg {
    fn spec(&self) -> ModeSpec {
        ModeSpec { luau: self.luau, module_folder_name: self.mfn.clone(), map: self.map.clone(), use_luau_configuration: self.use_rc.unwrap_or(true) }
    }
    /// the require-mode object of the configuration file
    fn config_value(&self) -> Value {
        let mut o = Map::new();
        o.insert("name".into(), json!(if self.luau { "luau" } else { "path" }));
        if !self.luau && self.mfn != "init" {
            o.insert("module_folder_name".into(), json!(self.mfn));
        }
        if !self.map.is_empty() {
            o.insert(if self.luau { "aliases".into() } else { "sources".into() }, json!(self.map));
        }
        if let Some(b) = self.use_rc {
            o.insert("use_luau_configuration".into(), json!(b));
        }
        Value::Object(o)
    }
    fn to_json(&self) -> Value {
        json!({"luau": self.luau, "mfn": self.mfn, "map": self.map, "use_rc": self.use_rc})
    }
    fn from_json(v: &Value) -> Option<ModeCfg> {
        Some(ModeCfg {
            luau: v.get("luau")?.as_bool()?,
            mfn: v.get("mfn")?.as_str()?.to_string(),
            map: v.get("map")?.as_object()?.iter().filter_map(|(k, x)| Some((k.clone(), x.as_str()?.to_string()))).collect(),
            use_rc: v.get("use_rc").and_then(|b| b.as_bool()),
        })
    }
    fn label(&self) -> String {
        if self.luau {
            "luau".into()
        } else {
            format!("path[{}]", self.mfn)
        }
    }
}

#[derive(Clone, Debug)]
struct Case {
    /// every file of the project except the configuration file (includes the requiring file and
    /// any `.luaurc`)
    files: BTreeMap<String, String>,
    requirer: String,
    req: String,
    config_path: String,
    mode: ModeCfg,
    /// convert_require targets to try
    targets: Vec<ModeCfg>,
    /// avoid switches active when the case was built (kept so that a replay decides the same)
    avoid_luau_plain_alias: bool,
    avoid_ext_exact: bool,
    avoid_no_ext_file: bool,
    avoid_convert_shadow: bool,
    avoid_convert_init_data: bool,
    avoid_luau_root_init: bool,
    avoid_cwd_dot: bool,
    avoid_double_pop: bool,
}

impl Case {
    fn to_json(&self) -> Value {
        json!({
            "files": self.files,
            "requirer": self.requirer,
            "require": self.req,
            "config_path": self.config_path,
            "mode": self.mode.to_json(),
            "mode_config": self.mode.config_value(),
            "targets": self.targets.iter().map(|t| t.to_json()).collect::<Vec<_>>(),
            "avoid": {
                "luau_plain_alias": self.avoid_luau_plain_alias,
                "ext_exact": self.avoid_ext_exact,
                "no_ext_file": self.avoid_no_ext_file,
                "convert_shadow": self.avoid_convert_shadow,
                "convert_init_data": self.avoid_convert_init_data,
                "luau_root_init": self.avoid_luau_root_init,
                "cwd_dot": self.avoid_cwd_dot,
                "double_pop": self.avoid_double_pop,
            },
        })
    }
    fn from_json(v: &Value) -> Option<Case> {
        let av = |k: &str| v.get("avoid").and_then(|a| a.get(k)).and_then(|b| b.as_bool()).unwrap_or(false);
        Some(Case {
            files: v.get("files")?.as_object()?.iter().filter_map(|(k, x)| Some((k.clone(), x.as_str()?.to_string()))).collect(),
            requirer: v.get("requirer")?.as_str()?.to_string(),
            req: v.get("require")?.as_str()?.to_string(),
            config_path: v.get("config_path")?.as_str()?.to_string(),
            mode: ModeCfg::from_json(v.get("mode")?)?,
            targets: v.get("targets")?.as_array()?.iter().filter_map(ModeCfg::from_json).collect(),
            avoid_luau_plain_alias: av("luau_plain_alias"),
            avoid_ext_exact: av("ext_exact"),
            avoid_no_ext_file: av("no_ext_file"),
            avoid_convert_shadow: av("convert_shadow"),
            avoid_convert_init_data: av("convert_init_data"),
            avoid_luau_root_init: av("luau_root_init"),
            avoid_cwd_dot: av("cwd_dot"),
            avoid_double_pop: av("double_pop"),
        })
    }
    fn config_dir(&self) -> String {
        resolver::dir_of(&self.config_path)
    }
}

fn lua_string(s: &str) -> String {
    let mut o = String::from("\"");
    for c in s.chars() {
        match c {
            '"' => o.push_str("\\\""),
            '\\' => o.push_str("\\\\"),
            c => o.push(c),
        }
    }
    o.push('"');
    o
}

fn requirer_text(req: &str) -> String {
    format!("return require({})\n", lua_string(req))
}

// ------------------------------------------------------------------------------------ darklua side

#[derive(Clone, Debug, PartialEq)]
enum Seen {
    /// the bundle ran and returned this string
    Marker(String),
    /// darklua reported errors (work item errors / process error)
    Error(Vec<String>),
    Panic(String),
    /// anything else (bundle does not parse, does not return a string, ...)
    Other(String),
}

thread_local! {
    /// Some(dir): projects are written into this directory, which is the current directory of the
    /// (child) process, and darklua works on the real file system
    static FS_SANDBOX: std::cell::RefCell<Option<std::path::PathBuf>> = const { std::cell::RefCell::new(None) };
}

fn write_project(files: &BTreeMap<String, String>, config_path: &str, config_text: &str) -> Resources {
    if let Some(dir) = FS_SANDBOX.with(|d| d.borrow().clone()) {
        // wipe the sandbox (we are inside it), then write with relative paths
        if let Ok(rd) = std::fs::read_dir(&dir) {
            for e in rd.flatten() {
                let p = e.path();
                if p.is_dir() {
                    let _ = std::fs::remove_dir_all(&p);
                } else {
                    let _ = std::fs::remove_file(&p);
                }
            }
        }
        let put = |p: &str, c: &str| {
            let f = dir.join(p);
            if let Some(parent) = f.parent() {
                std::fs::create_dir_all(parent).expect("sandbox mkdir");
            }
            std::fs::write(&f, c).expect("sandbox write");
        };
        for (p, c) in files {
            put(p, c);
        }
        put(config_path, config_text);
        return Resources::from_file_system();
    }
    let resources = Resources::from_memory();
    for (p, c) in files {
        resources.write(p, c).expect("memory write");
    }
    resources.write(config_path, config_text).expect("memory write");
    resources
}

fn process(resources: &Resources, entry: &str, out: &str, config_path: &str) -> Result<Vec<String>, Seen> {
    let r = catch(|| {
        let options = Options::new(Path::new(entry)).with_output(Path::new(out)).with_configuration_at(Path::new(config_path));
        darklua_core::process(resources, options)
    });
    match r {
        Err(p) => Err(Seen::Panic(p)),
        Ok(Err(e)) => Err(Seen::Error(vec![e.to_string()])),
        Ok(Ok(tree)) => Ok(tree.collect_errors().iter().map(|e| e.to_string()).collect()),
    }
}

const OUT: &str = "out/bundle.lua";

/// bundle `entry` under `mode` and run the bundle
fn bundle_and_run(files: &BTreeMap<String, String>, entry: &str, config_path: &str, mode: &ModeCfg) -> (Seen, Option<String>) {
    let config_text = json!({"rules": [], "bundle": {"require_mode": mode.config_value()}}).to_string();
    let resources = write_project(files, config_path, &config_text);
    let errs = match process(&resources, entry, OUT, config_path) {
        Err(s) => return (s, None),
        Ok(e) => e,
    };
    if !errs.is_empty() {
        return (Seen::Error(errs), None);
    }
    let Ok(text) = resources.get(OUT) else { return (Seen::Other("no output written and no error reported".into()), None) };
    let parsed = match luasyn::parse(&text, Mode::Luau) {
        Ok(p) => p,
        Err(e) => return (Seen::Other(format!("bundle does not parse: {}", e)), Some(text)),
    };
    let cfg = luaref::Config { dialect: Dialect::Luau, step_budget: 20_000, ..luaref::Config::default() };
    let seen = match luaref::run(&parsed.block, &cfg) {
        luaref::Outcome::Done { ret, .. } => match ret.first() {
            Some(s) if ret.len() == 1 && s.starts_with('"') && s.ends_with('"') && s.len() >= 2 => Seen::Marker(s[1..s.len() - 1].to_string()),
            _ => Seen::Other(format!("bundle returned {:?}", ret)),
        },
        luaref::Outcome::Error { class, .. } => Seen::Other(format!("bundle raised an error of class {}", class)),
        luaref::Outcome::OutOfSteps { .. } => Seen::Other("bundle ran out of steps".into()),
    };
    (seen, Some(text))
}

/// apply convert_require to the requiring file; Ok(new argument)
fn convert(case: &Case, target: &ModeCfg) -> Result<String, Seen> {
    let config_text = json!({"rules": [{"rule": "convert_require", "current": case.mode.config_value(), "target": target.config_value()}]}).to_string();
    let resources = write_project(&case.files, &case.config_path, &config_text);
    let out = "out/converted.lua";
    let errs = process(&resources, &case.requirer, out, &case.config_path)?;
    if !errs.is_empty() {
        return Err(Seen::Error(errs));
    }
    let text = resources.get(out).map_err(|_| Seen::Other("convert_require: no output written".into()))?;
    let parsed = luasyn::parse(&text, Mode::Luau).map_err(|e| Seen::Other(format!("converted file does not parse: {}\n{}", e, text)))?;
    match parsed.block.stmts.as_slice() {
        [Stmt::Return(values)] => match values.as_slice() {
            [Expr::Call { f, args, .. }] if matches!(&**f, Expr::Name(n) if n == "require") => match args.as_slice() {
                [Expr::Str { value, .. }] => String::from_utf8(value.clone()).map_err(|_| Seen::Other("converted argument is not UTF-8".into())),
                _ => Err(Seen::Other(format!("converted require has an unexpected argument list: {}", text))),
            },
            _ => Err(Seen::Other(format!("converted file has an unexpected shape: {}", text))),
        },
        _ => Err(Seen::Other(format!("converted file has an unexpected shape: {}", text))),
    }
}

// ------------------------------------------------------------------------------------ oracle

fn has_lua_extension(p: &str) -> bool {
    p.ends_with(".lua") || p.ends_with(".luau")
}

/// extension of the last component, if any
fn extension(p: &str) -> Option<&str> {
    let name = resolver::file_name(p);
    match name.rfind('.') {
        Some(i) if i > 0 && i + 1 < name.len() => Some(&name[i + 1..]),
        _ => None,
    }
}

const LOADABLE: [&str; 8] = ["lua", "luau", "json", "json5", "yml", "yaml", "toml", "txt"];

fn needs_normalisation(req: &str) -> bool {
    let comps = resolver::components(req);
    comps.first() == Some(&"..") || comps.iter().skip(1).any(|c| *c == "." || *c == "..")
}

struct Verdict {
    discard: Option<&'static str>,
    nontrivial: bool,
    classes: Vec<String>,
}

fn describe(case: &Case) -> String {
    let names: Vec<&String> = case.files.keys().collect();
    format!(
        "require({}) in `{}`, mode {} (configuration `{}`: {})\nfiles: {:?}",
        lua_string(&case.req),
        case.requirer,
        case.mode.label(),
        case.config_path,
        case.mode.config_value(),
        names
    )
}

fn error_names_require(errs: &[String], case: &Case, outcome: &resolver::Outcome) -> bool {
    let text = errs.join("\n");
    if !outcome.candidates.is_empty() {
        // the located path (first candidate) or every tried path
        let first = &outcome.candidates[0];
        text.contains(first.as_str()) || text.contains(&case.req)
    } else {
        let name = resolver::components(&case.req).first().copied().unwrap_or("");
        text.contains(name) || text.contains(&case.req) || text.contains(&resolver::normalize(&case.req))
    }
}

fn check(case: &Case) -> Result<Verdict, String> {
    let mut classes: Vec<String> = vec![];
    let config_dir = case.config_dir();
    let world = World { files: &case.files, config_dir: &config_dir };
    let spec = case.mode.spec();
    let answer = resolver::resolve(&world, &spec, &case.requirer, &case.requirer, &case.req);
    let first = &answer.accepted[0];

    if answer.accepts_file(&resolver::normalize(&case.requirer)) {
        return Ok(Verdict { discard: Some("the file requires itself"), nontrivial: false, classes });
    }
    // ---- known-finding triggers (removed only when the matching switch is active)
    let plain_head = !resolver::is_relative(&case.req) && !case.req.starts_with('/') && !case.req.starts_with('@');
    if case.mode.luau && plain_head && case.avoid_luau_plain_alias {
        classes.push("avoided:luau-plain-alias".into());
        return Ok(Verdict { discard: None, nontrivial: false, classes });
    }
    let root_init = resolver::is_luau_module_folder_file(&case.requirer) && resolver::dir_of(&resolver::normalize(&case.requirer)).is_empty();
    if case.avoid_luau_root_init && case.mode.luau && root_init && resolver::is_relative(&case.req) {
        classes.push("avoided:luau-root-init".into());
        return Ok(Verdict { discard: None, nontrivial: false, classes });
    }
    if case.avoid_ext_exact && has_lua_extension(&case.req) {
        if let Some(f) = &first.file {
            if *f != first.candidates[0] {
                classes.push("avoided:ext-exact".into());
                return Ok(Verdict { discard: None, nontrivial: false, classes });
            }
        }
    }

    let existing = first.candidates.iter().filter(|c| case.files.contains_key(*c)).count();
    let module_folder_requirer = resolver::is_luau_module_folder_file(&case.requirer);
    let nontrivial = existing >= 2 || module_folder_requirer || needs_normalisation(&case.req);
    if existing >= 2 {
        classes.push("nt:several_candidates".into());
    }
    if module_folder_requirer {
        classes.push("nt:module_folder_requirer".into());
    }
    if needs_normalisation(&case.req) {
        classes.push("nt:needs_normalisation".into());
    }
    if answer.accepted.len() > 1 {
        classes.push("model:ambiguous(config vs .luaurc)".into());
    }

    // ---- resolution
    // a resolved file that bundling cannot load (no / unknown extension) cannot return a marker
    let ext_of = |o: &resolver::Outcome| o.file.as_ref().map(|f| extension(f).map(|e| e.to_string()));
    let no_ext = answer.accepted.iter().any(|o| matches!(ext_of(o), Some(None)));
    let unknown_exts: Vec<String> = answer
        .accepted
        .iter()
        .filter_map(|o| match ext_of(o) {
            Some(Some(e)) if !LOADABLE.contains(&e.as_str()) => o.file.clone(),
            // a file without extension is a documented candidate, but it cannot be loaded: like an
            // unsupported extension, the expected outcome is an error naming the file
            Some(None) if !case.avoid_no_ext_file => o.file.clone(),
            _ => None,
        })
        .collect();
    let unknown_ext = unknown_exts.first().cloned();
    let mut original: Option<String> = None;
    let mut observe = true;
    if no_ext && case.avoid_no_ext_file {
        {
            classes.push("avoided:no-ext-file(bundle not observable)".into());
            observe = false;
            if let Some(o) = answer.unique() {
                original = o.file.clone();
            }
        }
    } else if let Some(f) = &unknown_ext {
        // documented: only the listed data extensions can be bundled; an error naming the file
        // is the expected outcome and shows which file was resolved
        let (seen, _) = bundle_and_run(&case.files, &case.requirer, &case.config_path, &case.mode);
        match seen {
            Seen::Error(errs) if unknown_exts.iter().any(|f| errs.join("\n").contains(f.as_str())) => {
                classes.push("resolved:file with an unsupported extension (error names it)".into());
                observe = false;
                if answer.accepted.len() == 1 {
                    original = Some(f.clone());
                }
            }
            Seen::Marker(m) if answer.accepted.len() > 1 && answer.accepts_file(&m) => {
                classes.push("resolved:ambiguous name, the other location".into());
                observe = false;
            }
            Seen::Error(_) if answer.accepted.len() > 1 && answer.accepts_nothing() => {
                classes.push("error:ambiguous name, the other location".into());
                observe = false;
            }
            other => return Err(format!("the require resolves to `{}` (unsupported extension): expected an error naming that file, got {:?}\n{}", f, other, describe(case))),
        }
    }
    if observe {
        let (seen, text) = bundle_and_run(&case.files, &case.requirer, &case.config_path, &case.mode);
        match &seen {
            Seen::Marker(m) => {
                if !answer.accepts_file(m) {
                    return Err(format!(
                        "darklua resolved the require to `{}`, the documentation says {}\n{}\nmodel: {:?}",
                        m,
                        answer.accepted.iter().map(|o| o.file.as_ref().map(|f| format!("`{}`", f)).unwrap_or_else(|| "nothing (an error)".into())).collect::<Vec<_>>().join(" or "),
                        describe(case),
                        answer.accepted
                    ));
                }
                if answer.accepted.len() > 1 {
                    let idx = answer.accepted.iter().position(|o| o.file.as_deref() == Some(m.as_str())).unwrap_or(0);
                    // accepted[0] is the configuration's location when the name is in both
                    classes.push(format!("ambiguous name:{}:took the location of the {}", case.mode.label(), if idx == 0 { "configuration" } else { ".luaurc" }));
                }
                classes.push(format!("resolved:{}", candidate_kind(m, &answer)));
                original = Some(m.clone());
            }
            Seen::Error(errs) => {
                if !answer.accepts_nothing() {
                    return Err(format!(
                        "darklua failed to resolve the require, the documentation says it resolves to {}\nerrors: {:?}\n{}\nmodel: {:?}",
                        answer.accepted.iter().filter_map(|o| o.file.as_ref()).map(|f| format!("`{}`", f)).collect::<Vec<_>>().join(" or "),
                        errs,
                        describe(case),
                        answer.accepted
                    ));
                }
                let Some(o) = answer.accepted.iter().find(|o| o.file.is_none() && error_names_require(errs, case, o)) else {
                    return Err(format!("nothing is found (as documented) but the error does not name the require or a tried path\nerrors: {:?}\n{}", errs, describe(case)));
                };
                classes.push(if o.candidates.is_empty() { "error:unknown_name".into() } else { "error:no_candidate_exists".into() });
            }
            Seen::Panic(p) => {
                return Err(format!("PANIC darklua panicked while bundling: {}\n{}\nmodel: {:?}", p, describe(case), answer.accepted));
            }
            Seen::Other(o) => {
                return Err(format!("{}\n{}\n--- bundle\n{}\nmodel: {:?}", o, describe(case), text.unwrap_or_default(), answer.accepted));
            }
        }
    }

    // ---- conversion
    let Some(original) = original else {
        if !case.targets.is_empty() {
            classes.push("convert:skipped(nothing to resolve)".into());
        }
        return Ok(Verdict { discard: None, nontrivial, classes });
    };
    for target in &case.targets {
        let label = format!("{}->{}", case.mode.label(), target.label());
        if case.avoid_cwd_dot
            && case.mode.luau
            && resolver::is_luau_module_folder_file(&case.requirer)
            && resolver::components(&resolver::dir_of(&resolver::normalize(&case.requirer))).len() == 1
            && resolver::is_relative(&case.req)
        {
            // known finding: the resolved path is `./x` (relative to the working directory)
            classes.push("avoided:convert-cwd-dot(luau init one level deep)".into());
            continue;
        }
        if case.avoid_cwd_dot && resolver::is_relative(&case.req) && !resolver::dir_of(&resolver::normalize(&case.requirer)).is_empty() && bare_directory_form(&case.req) && resolver::dir_of(&resolver::normalize(&original)).is_empty() {
            // same known finding: a relative require that names the working directory itself
            // (`..` from `lib/main.lua`, `..` from `src/pkg/init.lua` in the luau mode) is located
            // as `./init.lua`
            classes.push("avoided:convert-cwd-dot(relative require of the working directory)".into());
            continue;
        }
        let new_req = match convert(case, target) {
            Ok(s) => s,
            Err(Seen::Panic(p)) => return Err(format!("darklua panicked in convert_require ({}): {}\n{}", label, p, describe(case))),
            Err(Seen::Error(e)) => return Err(format!("convert_require ({}) reported errors {:?}\n{}", label, e, describe(case))),
            Err(Seen::Other(o)) | Err(Seen::Marker(o)) => return Err(format!("convert_require ({}): {}\n{}", label, o, describe(case))),
        };
        classes.push(if new_req == case.req { "convert:argument_unchanged".into() } else { format!("convert:{}:rewritten", label) });
        let tspec = target.spec();
        let tanswer = resolver::resolve(&world, &tspec, &case.requirer, &case.requirer, &new_req);
        let tplain = !resolver::is_relative(&new_req) && !new_req.starts_with('/') && !new_req.starts_with('@');
        if target.luau && tplain && case.avoid_luau_plain_alias {
            classes.push("avoided:luau-plain-alias(convert)".into());
            continue;
        }
        if case.avoid_luau_root_init && target.luau && root_init && resolver::is_relative(&new_req) {
            classes.push("avoided:luau-root-init(convert)".into());
            continue;
        }
        if case.avoid_double_pop && target.luau && resolver::is_luau_module_folder_file(&case.requirer) {
            // known finding: `init/init[.lua]` required from a module-folder file
            let name = resolver::file_name(&original);
            let stem = name.rfind('.').map(|i| &name[..i]).unwrap_or(name);
            let dir = resolver::dir_of(&original);
            if stem == "init" && resolver::file_name(&dir) == "init" {
                classes.push("avoided:convert-double-pop".into());
                continue;
            }
        }
        if case.avoid_convert_init_data {
            // known finding: a data file named like the module folder is dropped from the path
            let name = resolver::file_name(&original);
            let stem = name.rfind('.').map(|i| &name[..i]).unwrap_or(name);
            if !has_lua_extension(name) && name != stem && stem == target.spec().folder_name() {
                classes.push("avoided:convert-init-data".into());
                continue;
            }
        }
        if case.avoid_convert_shadow {
            // known finding: the generated argument drops the extension / the module-folder
            // file name although an earlier candidate of the shortened path exists
            if !tanswer.accepts_file(&original) && tanswer.accepted.iter().any(|o| o.candidates.iter().any(|c| *c == original)) {
                classes.push("avoided:convert-shadow".into());
                continue;
            }
        }
        if !tanswer.accepts_file(&original) {
            return Err(format!(
                "convert_require {}: require({}) became require({}), which the documentation of the target mode resolves to {} instead of `{}`\n{}\ntarget configuration: {}\nmodel: {:?}",
                label,
                lua_string(&case.req),
                lua_string(&new_req),
                tanswer.accepted.iter().map(|o| o.file.as_ref().map(|f| format!("`{}`", f)).unwrap_or_else(|| "nothing".into())).collect::<Vec<_>>().join(" or "),
                original,
                describe(case),
                target.config_value(),
                tanswer.accepted
            ));
        }
        if !observe {
            continue;
        }
        if case.avoid_no_ext_file && tanswer.accepted.iter().any(|o| matches!(&o.file, Some(f) if extension(f).is_none())) {
            // (only with an ambiguous name) one of the documented outcomes is a file without extension
            classes.push("avoided:no-ext-file(convert)".into());
            continue;
        }
        let mut files = case.files.clone();
        files.insert(case.requirer.clone(), requirer_text(&new_req));
        let (seen, _) = bundle_and_run(&files, &case.requirer, &case.config_path, target);
        match seen {
            Seen::Marker(m) if m == original => {}
            // the name is defined both in the configuration and in a .luaurc: the documentation
            // does not say which wins, and the two modes may differ
            _ if tanswer.accepted.len() > 1 => {
                classes.push(format!("convert:{}:ambiguous name (config vs .luaurc) resolved differently by the target mode", label));
                continue;
            }
            other => {
                return Err(format!(
                    "convert_require {}: require({}) became require({}); bundled under the target mode it gives {:?} instead of `{}`\n{}\ntarget configuration: {}",
                    label,
                    lua_string(&case.req),
                    lua_string(&new_req),
                    other,
                    original,
                    describe(case),
                    target.config_value()
                ));
            }
        }
        classes.push("convert:checked".into());
    }
    Ok(Verdict { discard: None, nontrivial, classes })
}

fn candidate_kind(file: &str, answer: &resolver::Answer) -> String {
    for o in &answer.accepted {
        if let Some(i) = o.candidates.iter().position(|c| c == file) {
            return match i {
                0 => "the path itself".into(),
                1 => "path.luau".into(),
                2 => "path.lua".into(),
                3 => "folder/<name>".into(),
                4 => "folder/<name>.luau".into(),
                _ => "folder/<name>.lua".into(),
            };
        }
    }
    "?".into()
}

// ------------------------------------------------------------------------------------ enumeration

/// the layout (bits 0-6 = the candidate files of `candidate_names`, bit 7 = a directory `m.lua/`
/// holding a module-folder file) is mirrored in each of these directories
const DIRS: [&str; 3] = ["", "src", "src/pkg"];
const REQUIRERS: [&str; 2] = ["src/main.lua", "src/pkg/init.lua"];
const PLAIN_REQS: [&str; 10] = ["./m", "./m.lua", "./m.luau", "./m.json", "../m", "../src/m", "./a/../m", "././m", "@self/m", "m"];
const NAMED_REQS: [&str; 5] = ["lib/m", "@alias/m", "@rc/m", "mod", "data"];
const ENVS: usize = 6;

fn marker_content(path: &str) -> String {
    if path.ends_with(".json") {
        format!("{}\n", serde_json::to_string(path).unwrap())
    } else {
        format!("return {}\n", lua_string(path))
    }
}

/// the seven candidate names of `stem` for a module folder name
fn candidate_names(stem: &str, folder: &str) -> [String; 7] {
    [
        stem.to_string(),
        format!("{}.luau", stem),
        format!("{}.lua", stem),
        format!("{}/{}", stem, folder_stem(folder)),
        format!("{}/{}", stem, with_ext(folder, "luau")),
        format!("{}/{}", stem, with_ext(folder, "lua")),
        format!("{}.json", stem),
    ]
}

/// None = a real file system cannot hold this layout
fn layout_files(bits: u32, folder: &str) -> Option<BTreeMap<String, String>> {
    let has = |i: usize| bits & (1 << i) != 0;
    // `m` cannot be a file and a directory
    if has(0) && (has(3) || has(4) || has(5)) {
        return None;
    }
    // nor can `m.lua`
    if has(7) && has(2) {
        return None;
    }
    let mut files = BTreeMap::new();
    for d in DIRS {
        for (i, c) in candidate_names("m", folder).iter().enumerate() {
            if has(i) {
                let p = resolver::join(d, c);
                files.insert(p.clone(), marker_content(&p));
            }
        }
        if has(7) {
            let p = resolver::join(d, &format!("m.lua/{}", with_ext(folder, "lua")));
            files.insert(p.clone(), marker_content(&p));
        }
    }
    Some(files)
}

/// `init` -> `init`, `index` -> `index`, `init.lua` -> `init` (the files are then `init.lua` ...)
fn folder_stem(folder: &str) -> &str {
    folder.split('.').next().unwrap_or(folder)
}

fn with_ext(folder: &str, ext: &str) -> String {
    format!("{}.{}", folder_stem(folder), ext)
}

fn mode_of(index: usize) -> ModeCfg {
    let (luau, mfn) = match index {
        0 => (false, "init"),
        1 => (false, "index"),
        2 => (false, "init.lua"),
        _ => (true, "init"),
    };
    ModeCfg { luau, mfn: mfn.to_string(), map: BTreeMap::new(), use_rc: None }
}

#[derive(Clone, Copy)]
struct Avoid {
    dot_source: bool,
    luau_plain_alias: bool,
    ext_exact: bool,
    no_ext_file: bool,
    convert_shadow: bool,
    convert_init_data: bool,
    luau_root_init: bool,
    double_pop: bool,
}

impl Avoid {
    fn read(ctx: &RunCtx) -> Avoid {
        Avoid {
            dot_source: ctx.avoid("c15-convert-cwd-dot"),
            luau_plain_alias: ctx.avoid("c15-luau-plain-alias"),
            ext_exact: ctx.avoid("c15-ext-exact"),
            no_ext_file: ctx.avoid("c15-no-ext-file"),
            convert_shadow: ctx.avoid("c15-convert-shadow"),
            convert_init_data: ctx.avoid("c15-convert-init-data"),
            luau_root_init: ctx.avoid("c15-luau-root-init"),
            double_pop: ctx.avoid("c15-convert-double-pop"),
        }
    }
}

/// environment `env` for the source/alias strings: (configuration path, map, .luaurc files, use_rc)
fn environment(env: usize, luau: bool, avoid_plain: bool, avoid_dot: bool) -> (String, BTreeMap<String, String>, Vec<(String, String)>, Option<bool>) {
    let prefix = if env == 5 {
        "../"
    } else if avoid_dot {
        ""
    } else {
        "./"
    };
    let mut map: BTreeMap<String, String> = BTreeMap::new();
    let full = |map: &mut BTreeMap<String, String>| {
        map.insert("lib".into(), format!("{}src", prefix));
        map.insert("@alias".into(), format!("{}src", prefix));
        map.insert("mod".into(), format!("{}src/m", prefix));
        map.insert("data".into(), format!("{}src/m.json", prefix));
    };
    let mut rcs: Vec<(String, String)> = vec![];
    let mut use_rc = None;
    let mut config_path = ".darklua.json".to_string();
    match env {
        0 => {
            full(&mut map);
            rcs.push((".luaurc".into(), r#"{"aliases":{"rc":"./src"}}"#.into()));
        }
        1 => full(&mut map),
        2 => {
            // nearest .luaurc wins; its locations are relative to itself
            rcs.push((".luaurc".into(), r#"{"aliases":{"rc":"./src/pkg","alias":"./src/pkg"}}"#.into()));
            rcs.push(("src/.luaurc".into(), r#"{"languageMode":"strict","aliases":{"rc":".","alias":"./"}}"#.into()));
        }
        3 => {
            // the same name in the configuration and in the .luaurc, different locations
            map.insert("@alias".into(), format!("{}src", prefix));
            map.insert("@rc".into(), format!("{}src/pkg", prefix));
            rcs.push((".luaurc".into(), r#"{"aliases":{"alias":"./src/pkg","rc":"./src"}}"#.into()));
        }
        4 => {
            full(&mut map);
            rcs.push((".luaurc".into(), r#"{"aliases":{"rc":"./src"}}"#.into()));
            use_rc = Some(false);
        }
        _ => {
            full(&mut map);
            rcs.push((".luaurc".into(), r#"{"aliases":{"rc":"src"}}"#.into()));
            config_path = "conf/darklua.json5".to_string();
        }
    }
    if luau && avoid_plain {
        map.retain(|k, _| k.starts_with('@'));
    }
    (config_path, map, rcs, use_rc)
}

fn build_enumerated(index: u64, avoid: &Avoid) -> Result<Case, &'static str> {
    // index = (((layout * 2 + requirer) * 4 + mode) * COMBOS + combo)
    let combos = (PLAIN_REQS.len() + NAMED_REQS.len() * ENVS) as u64;
    let combo = (index % combos) as usize;
    let rest = index / combos;
    let mode_index = (rest % 4) as usize;
    let rest = rest / 4;
    let requirer = REQUIRERS[(rest % 2) as usize];
    let bits = (rest / 2) as u32;
    let mut mode = mode_of(mode_index);
    let folder = if mode.luau { "init".to_string() } else { mode.mfn.clone() };
    let Some(mut files) = layout_files(bits, &folder) else { return Err("layout not realisable on a file system") };
    let (req, env) = if combo < PLAIN_REQS.len() { (PLAIN_REQS[combo], 0) } else { (NAMED_REQS[(combo - PLAIN_REQS.len()) / ENVS], (combo - PLAIN_REQS.len()) % ENVS) };
    let (config_path, map, rcs, use_rc) = environment(env, mode.luau, avoid.luau_plain_alias, avoid.dot_source);
    mode.map = map;
    mode.use_rc = use_rc;
    for (p, c) in rcs {
        files.insert(p, c);
    }
    files.insert(requirer.to_string(), requirer_text(req));
    // conversion targets: the other family, same names
    let mut targets = vec![];
    if mode.luau {
        for mfn in ["init", "index"] {
            let map = environment(env, false, false, avoid.dot_source).1;
            targets.push(ModeCfg { luau: false, mfn: mfn.into(), map, use_rc });
        }
    } else {
        let map = environment(env, true, avoid.luau_plain_alias, avoid.dot_source).1;
        targets.push(ModeCfg { luau: true, mfn: "init".into(), map, use_rc });
    }
    Ok(Case {
        files,
        requirer: requirer.to_string(),
        req: req.to_string(),
        config_path,
        mode,
        targets,
        avoid_luau_plain_alias: avoid.luau_plain_alias,
        avoid_ext_exact: avoid.ext_exact,
        avoid_no_ext_file: avoid.no_ext_file,
        avoid_convert_shadow: avoid.convert_shadow,
        avoid_convert_init_data: avoid.convert_init_data,
        avoid_luau_root_init: avoid.luau_root_init,
        avoid_cwd_dot: avoid.dot_source,
        avoid_double_pop: avoid.double_pop,
    })
}

fn enumerated_total() -> u64 {
    let combos = (PLAIN_REQS.len() + NAMED_REQS.len() * ENVS) as u64;
    256 * 2 * 4 * combos
}

// ------------------------------------------------------------------------------------ random phase

const R_DIRS: [&str; 6] = ["", "src", "src/pkg", "src/pkg/deep", "lib", "src/a"];
const R_STEMS: [&str; 5] = ["m", "n.x", "init", "index", "util"];

/// `./`-style path from directory `from` to directory `to` (ends with `/`)
fn rel_path(from: &str, to: &str) -> String {
    let a = resolver::components(from);
    let b = resolver::components(to);
    let common = a.iter().zip(b.iter()).take_while(|(x, y)| x == y).count();
    let mut out = String::new();
    if a.len() == common {
        out.push_str("./");
    }
    for _ in common..a.len() {
        out.push_str("../");
    }
    for c in &b[common..] {
        out.push_str(c);
        out.push('/');
    }
    out
}

fn gen_random(t: &mut Tape, avoid: &Avoid) -> Case {
    let mode_index = t.choose(4);
    let mut mode = mode_of(mode_index);
    let folder = if mode.luau { "init".to_string() } else { mode.mfn.clone() };
    let mut files: BTreeMap<String, String> = BTreeMap::new();
    // two stems, each with a random candidate subset in 1-3 directories
    let nstems = 1 + t.choose(2);
    let mut stems = vec![];
    let mut placed: Vec<(&str, &str)> = vec![];
    for _ in 0..nstems {
        let stem = *t.pick(&R_STEMS);
        stems.push(stem);
        let ndirs = 1 + t.choose(3);
        for _ in 0..ndirs {
            let d = *t.pick(&R_DIRS);
            placed.push((d, stem));
            let bits = t.byte() as u32;
            let has = |i: usize| bits & (1 << i) != 0;
            let as_file = has(0) && !(has(3) || has(4) || has(5));
            let names = candidate_names(stem, &folder);
            for (i, n) in names.iter().enumerate() {
                if !has(i) || (i == 0 && !as_file) {
                    continue;
                }
                let p = resolver::join(d, n);
                files.insert(p.clone(), marker_content(&p));
            }
        }
    }
    // a path may not be both a file and a directory
    let keys: Vec<String> = files.keys().cloned().collect();
    for k in &keys {
        let prefix = format!("{}/", k);
        if keys.iter().any(|o| o.starts_with(&prefix)) {
            files.remove(k);
        }
    }
    let requirer_dir = *t.pick(&R_DIRS);
    // names that merely start like a module-folder file (`init.server.luau`) are ordinary files
    let requirer_name = *t.pick(&["main.lua", "init.lua", "init.luau", "main.luau", "index.lua", "init.server.luau", "init.spec.lua", "index.client.luau"]);
    let requirer = resolver::join(requirer_dir, requirer_name);
    let keys: Vec<String> = files.keys().cloned().collect();
    let rprefix = format!("{}/", requirer);
    for k in &keys {
        if k.starts_with(&rprefix) || requirer.starts_with(&format!("{}/", k)) {
            files.remove(k);
        }
    }
    // maps
    let config_path = if t.bool(50) { "conf/darklua.json5".to_string() } else { ".darklua.json".to_string() };
    let conf_prefix = if config_path.starts_with("conf/") {
        "../"
    } else if avoid.dot_source {
        ""
    } else {
        "./"
    };
    let mut map = BTreeMap::new();
    let names = ["@alias", "lib", "@pkg", "deep"];
    for n in names {
        if t.bool(120) {
            let mut d = *t.pick(&R_DIRS);
            if avoid.dot_source && d.is_empty() {
                // known finding (cwd-dot): a location that is the working directory itself
                d = "src";
            }
            let mut loc = format!("{}{}", conf_prefix, d);
            if loc.is_empty() {
                loc = ".".to_string();
            }
            if t.bool(40) {
                // directly to a file / a stem
                loc = format!("{}/{}", loc.trim_end_matches('/'), t.pick(&R_STEMS));
            }
            map.insert(n.to_string(), loc);
        }
    }
    if t.bool(40) {
        mode.use_rc = Some(t.bool(128));
    }
    if t.bool(110) {
        let d = *t.pick(&["", "src", "src/pkg"]);
        let mut target = *t.pick(&R_DIRS);
        let mut target2 = *t.pick(&R_DIRS);
        if avoid.dot_source {
            if target.is_empty() {
                target = "lib";
            }
            if target2.is_empty() {
                target2 = "src";
            }
        }
        // relative to the .luaurc: climb to the root first
        let up = "../".repeat(resolver::components(d).len());
        let text = json!({"aliases": {"rc": format!("./{}{}", up, target), "alias": format!("{}{}", up, target2)}}).to_string();
        files.insert(resolver::join(d, ".luaurc"), text);
    }
    // require string: aimed at a directory that holds candidates (60%) or composed blindly
    let (aim_dir, aim_stem) = *t.pick(&placed);
    let aimed = t.weighted(&[4, 3, 3]);
    let stem = if aimed < 2 { aim_stem } else { *t.pick(&stems) };
    let head = if aimed == 0 {
        rel_path(requirer_dir, aim_dir)
    } else if aimed == 1 && !(aim_dir.is_empty() && avoid.dot_source) {
        // through a name whose location is an ancestor of the aimed directory
        let comps = resolver::components(aim_dir);
        let keep = if comps.is_empty() { 0 } else { (if avoid.dot_source { 1 } else { 0 }) + t.choose(comps.len() + if avoid.dot_source { 0 } else { 1 }) };
        let keep = keep.min(comps.len());
        let ancestor = comps[..keep].join("/");
        let below = comps[keep..].join("/");
        let name = if mode.luau && avoid.luau_plain_alias { *t.pick(&["@alias", "@pkg"]) } else { *t.pick(&["@alias", "@pkg", "lib", "deep"]) };
        let mut loc = format!("{}{}", conf_prefix, ancestor);
        if loc.is_empty() {
            loc = ".".to_string();
        }
        map.insert(name.to_string(), loc);
        if below.is_empty() {
            format!("{}/", name)
        } else {
            format!("{}/{}/", name, below)
        }
    } else {
        match t.weighted(&[5, 3, 2, 2, 2, 2, 1]) {
            0 => "./".to_string(),
            1 => "../".to_string(),
            2 => "../../".to_string(),
            3 => format!("{}/", t.pick(&["@alias", "@pkg", "@rc"])),
            4 => format!("{}/", t.pick(&["lib", "deep"])),
            5 => "@self/".to_string(),
            _ => String::new(),
        }
    };
    if mode.luau && avoid.luau_plain_alias {
        map.retain(|k, _| k.starts_with('@'));
    }
    mode.map = map.clone();
    let mut mid = String::new();
    let noise: &[&str] = if aimed < 2 { &["./", "a/../", "./"] } else { &["./", "a/../", "pkg/", "src/", "deep/", "../"] };
    for _ in 0..t.choose(3) {
        mid.push_str(*t.pick(noise));
    }
    let tail = match t.weighted(&[6, 2, 2, 1, 1]) {
        0 => stem.to_string(),
        1 => format!("{}.lua", stem),
        2 => format!("{}.luau", stem),
        3 => format!("{}.json", stem),
        _ => format!("{}/{}", stem, folder_stem(&folder)),
    };
    let mut req = format!("{}{}{}", head, mid, tail);
    // now and then the bare directory forms: `.`, `..`, `./`, `../`, `./x/..` (the module-folder file
    // of the own or of the parent directory)
    if t.bool(12) {
        req = t.pick(&[".", "..", "./", "../", "./pkg/..", "../."]).to_string();
    }
    if !resolver::is_relative(&req) {
        // the documentation does not say whether `name/../x` is normalised before the name is
        // looked up (darklua does): keep the name in place
        let comps = resolver::components(&req);
        let rest = comps[1..].join("/");
        if resolver::normalize(&rest).starts_with("..") {
            req = format!("{}{}", head, tail);
        }
    }
    files.insert(requirer.clone(), requirer_text(&req));
    let mut targets = vec![];
    if mode.luau {
        let mfn = *t.pick(&["init", "index", "init.lua"]);
        targets.push(ModeCfg { luau: false, mfn: mfn.into(), map: map.clone(), use_rc: mode.use_rc });
    } else {
        let mut m = map.clone();
        if avoid.luau_plain_alias {
            m.retain(|k, _| k.starts_with('@'));
        }
        targets.push(ModeCfg { luau: true, mfn: "init".into(), map: m, use_rc: mode.use_rc });
    }
    Case {
        files,
        requirer,
        req,
        config_path,
        mode,
        targets,
        avoid_luau_plain_alias: avoid.luau_plain_alias,
        avoid_ext_exact: avoid.ext_exact,
        avoid_no_ext_file: avoid.no_ext_file,
        avoid_convert_shadow: avoid.convert_shadow,
        avoid_convert_init_data: avoid.convert_init_data,
        avoid_luau_root_init: avoid.luau_root_init,
        avoid_cwd_dot: avoid.dot_source,
        avoid_double_pop: avoid.double_pop,
    }
}

/// `.`, `..`, `./`, `../..`, `./x/..`: a require that names a directory only
fn bare_directory_form(req: &str) -> bool {
    let n = resolver::normalize(req);
    n.is_empty() || n.split('/').all(|c| c == "." || c == "..")
}

// ------------------------------------------------------------------------------------ driver

fn evaluate(case: &Case, st: &mut Stats) -> CaseResult {
    match check(case) {
        Ok(v) => {
            if let Some(why) = v.discard {
                return CaseResult::Discard(why);
            }
            for c in &v.classes {
                st.class(c);
            }
            st.class(&format!("mode:{}", case.mode.label()));
            if v.classes.iter().any(|c| c.starts_with("avoided:")) {
                st.class("avoided_for_known_findings");
            }
            CaseResult::Pass { nontrivial: v.nontrivial.then(|| hash_str(&case.to_json().to_string())) }
        }
        Err(m) => CaseResult::Fail(Failure::new(m, case.to_json())),
    }
}

fn run(ctx: &RunCtx) {
    let avoid = Avoid::read(ctx);
    let total = enumerated_total();
    ctx.note(format!("enumeration: {} indexed cases = 256 layout indexes x 2 requiring files x 4 modes x ({} plain + {} named x {} environments) require strings", total, PLAIN_REQS.len(), NAMED_REQS.len(), ENVS));
    ctx.enumerate("layouts", total, |i, st| {
        let case = match build_enumerated(i, &avoid) {
            Ok(c) => c,
            Err(why) => return CaseResult::Discard(why),
        };
        if i % 9973 == 0 {
            st.sample(|| json!({"require": case.req, "requirer": case.requirer, "mode": case.mode.config_value(), "files": case.files.keys().collect::<Vec<_>>()}));
        }
        evaluate(&case, st)
    });
    ctx.exhaustive.store(true, std::sync::atomic::Ordering::Relaxed);
    let cases = ctx.tier.pick(30_000, 5_000_000);
    ctx.search("random", cases, 64, |tape, st| {
        let mut t = Tape::new(tape);
        let case = gen_random(&mut t, &avoid);
        st.class("random_case");
        evaluate(&case, st)
    });
    // the same random cases on the real file system (is_file / is_directory / read errors differ
    // from the in-memory resources): each shard is a child process whose current directory is its
    // own sandbox
    ctx.isolate("filesystem");
    let base = ctx.verif_dir.join(".work/c15fs");
    let n_fs = ctx.tier.pick(1_600, 40_000);
    ctx.search("filesystem", n_fs, 64, |tape, st| {
        let dir = base.join(format!("p{}", std::process::id()));
        if FS_SANDBOX.with(|d| d.borrow().is_none()) {
            let _ = std::fs::remove_dir_all(&dir);
            if std::fs::create_dir_all(&dir).is_err() || std::env::set_current_dir(&dir).is_err() {
                return CaseResult::Discard("cannot enter the sandbox directory");
            }
            FS_SANDBOX.with(|d| *d.borrow_mut() = Some(dir.clone()));
        }
        let mut t = Tape::new(tape);
        let case = gen_random(&mut t, &avoid);
        st.class("file_system_case");
        match evaluate(&case, st) {
            CaseResult::Fail(mut f) => {
                f.replay["file_system"] = json!(true);
                CaseResult::Fail(f)
            }
            r => r,
        }
    });
    if ctx.child.is_some() {
        // leave and remove this process's own sandbox
        if let Some(dir) = FS_SANDBOX.with(|d| d.borrow_mut().take()) {
            let _ = std::env::set_current_dir(&ctx.verif_dir);
            let _ = std::fs::remove_dir_all(dir);
        }
    } else {
        let _ = std::fs::remove_dir_all(&base);
    }
}

fn replay(v: &Value) -> Result<(), String> {
    let case = Case::from_json(v).ok_or("malformed C15 replay file")?;
    if v.get("file_system").and_then(|b| b.as_bool()) == Some(true) {
        let home = std::env::current_dir().map_err(|e| e.to_string())?;
        let dir = std::path::PathBuf::from(std::env::var("VERIF_DIR").unwrap_or_else(|_| "/verif".into())).join(format!(".work/c15fs-replay/p{}", std::process::id()));
        let _ = std::fs::remove_dir_all(&dir);
        std::fs::create_dir_all(&dir).map_err(|e| e.to_string())?;
        std::env::set_current_dir(&dir).map_err(|e| e.to_string())?;
        FS_SANDBOX.with(|d| *d.borrow_mut() = Some(dir.clone()));
        let r = check(&case).map(|_| ());
        FS_SANDBOX.with(|d| *d.borrow_mut() = None);
        let _ = std::env::set_current_dir(home);
        let _ = std::fs::remove_dir_all(&dir);
        return r;
    }
    check(&case).map(|_| ())
}
