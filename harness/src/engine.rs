//! Search engine shared by all property checks: sharded proptest runners over choice tapes,
//! exhaustive enumerations, shrinking, replay files, evidence, known findings, watchdog.

use proptest::strategy::Strategy;
use proptest::test_runner::{Config as PtConfig, RngAlgorithm, TestCaseError, TestError, TestRng, TestRunner};
use serde_json::{json, Value};
use std::cell::RefCell;
use std::collections::{BTreeMap, BTreeSet};
use std::path::{Path, PathBuf};
use std::sync::atomic::{AtomicBool, AtomicU64, Ordering};
use std::sync::{Arc, Mutex};
use std::time::Instant;

use crate::tape::mix;

#[derive(Clone, Copy, Debug, PartialEq, Eq)]
pub enum Tier {
    Quick,
    Thorough,
}

impl Tier {
    pub fn name(self) -> &'static str {
        match self {
            Tier::Quick => "quick",
            Tier::Thorough => "thorough",
        }
    }
    pub fn pick<T>(self, quick: T, thorough: T) -> T {
        match self {
            Tier::Quick => quick,
            Tier::Thorough => thorough,
        }
    }
}

/// a failure of the oracle on one concrete case
#[derive(Clone, Debug)]
pub struct Failure {
    /// human readable description of what went wrong
    pub message: String,
    /// the concrete inputs, enough for `replay` to re-run the oracle without any generator
    pub replay: Value,
    /// exact signature used ONLY to recognise listed known findings (e.g. panic location + message)
    pub signature: Option<String>,
}

impl Failure {
    pub fn to_json(&self) -> Value {
        json!({"message": self.message, "replay": self.replay, "signature": self.signature})
    }
    pub fn from_json(v: &Value) -> Option<Failure> {
        if v.is_null() {
            return None;
        }
        Some(Failure { message: v["message"].as_str().unwrap_or("").to_string(), replay: v["replay"].clone(), signature: v["signature"].as_str().map(|s| s.to_string()) })
    }
    pub fn new(message: impl Into<String>, replay: Value) -> Self {
        Failure { message: message.into(), replay, signature: None }
    }
    pub fn with_signature(mut self, s: impl Into<String>) -> Self {
        self.signature = Some(s.into());
        self
    }
}

pub enum CaseResult {
    /// oracle evaluated and held; `nontrivial` = hash of the (input, configuration) when the case
    /// is non-trivial by the property's stated rule
    Pass { nontrivial: Option<u64> },
    /// the case is outside the property's domain (precondition failed); counted by reason
    Discard(&'static str),
    Fail(Failure),
}

/// statistics gathered by one shard / one enumeration
#[derive(Default, Clone, Debug)]
pub struct Stats {
    pub evaluations: u64,
    pub discards: BTreeMap<String, u64>,
    pub classes: BTreeMap<String, u64>,
    pub nontrivial: BTreeSet<u64>,
    pub samples: Vec<Value>,
    pub known_hits: BTreeMap<String, u64>,
}

impl Stats {
    pub fn to_json(&self) -> Value {
        json!({
            "evaluations": self.evaluations,
            "discards": self.discards,
            "classes": self.classes,
            "nontrivial": self.nontrivial.iter().map(|h| h.to_string()).collect::<Vec<_>>(),
            "samples": self.samples,
            "known_hits": self.known_hits,
        })
    }
    pub fn from_json(v: &Value) -> Stats {
        let map = |x: &Value| -> BTreeMap<String, u64> { x.as_object().map(|o| o.iter().map(|(k, v)| (k.clone(), v.as_u64().unwrap_or(0))).collect()).unwrap_or_default() };
        Stats {
            evaluations: v["evaluations"].as_u64().unwrap_or(0),
            discards: map(&v["discards"]),
            classes: map(&v["classes"]),
            nontrivial: v["nontrivial"].as_array().map(|a| a.iter().filter_map(|x| x.as_str().and_then(|s| s.parse().ok())).collect()).unwrap_or_default(),
            samples: v["samples"].as_array().cloned().unwrap_or_default(),
            known_hits: map(&v["known_hits"]),
        }
    }
    /// like merge, for the single shard of a child process
    pub fn merge_full(&mut self, o: Stats) {
        self.merge(o)
    }
    pub fn class(&mut self, name: &str) {
        *self.classes.entry(name.to_string()).or_insert(0) += 1;
    }
    pub fn class_n(&mut self, name: &str, n: u64) {
        *self.classes.entry(name.to_string()).or_insert(0) += n;
    }
    pub fn sample(&mut self, v: impl FnOnce() -> Value) {
        if self.samples.len() < 3 {
            self.samples.push(v());
        }
    }
    pub fn merge(&mut self, o: Stats) {
        self.evaluations += o.evaluations;
        for (k, v) in o.discards {
            *self.discards.entry(k).or_insert(0) += v;
        }
        for (k, v) in o.classes {
            *self.classes.entry(k).or_insert(0) += v;
        }
        for (k, v) in o.known_hits {
            *self.known_hits.entry(k).or_insert(0) += v;
        }
        self.nontrivial.extend(o.nontrivial);
        for s in o.samples {
            if self.samples.len() < 8 {
                self.samples.push(s);
            }
        }
    }
}

#[derive(Clone, Debug)]
pub struct KnownFinding {
    pub id: String,
    pub property: String,
    pub status: String, // "known" | "fixed"
    pub what: String,
    pub replay: String, // path relative to /verif
    pub avoid: Option<String>,
    pub signature: Option<String>,
    pub commit: Option<String>,
    /// other properties whose checks meet the same defect (e.g. C16 runs the default rules too)
    pub also: Vec<String>,
}

impl KnownFinding {
    pub fn applies_to(&self, prop: &str) -> bool {
        self.property == prop || self.also.iter().any(|p| p == prop)
    }
}

pub struct RunCtx {
    pub prop: String,
    pub tier: Tier,
    pub seed: u64,
    pub threads: usize,
    pub verif_dir: PathBuf,
    pub known: Vec<KnownFinding>,
    /// ignore the known-findings avoidance switches (used when validating findings / mutants)
    pub no_avoid: bool,
    pub start: Instant,
    pub stats: Mutex<Stats>,
    pub failures: Mutex<Vec<Failure>>,
    pub notes: Mutex<Vec<String>>,
    pub exhaustive: AtomicBool,
    /// Some((phase, shard)): this process is a child running exactly that shard
    pub child: Option<(String, u64)>,
    /// Some((phase, tape)): single-case mode — `search` evaluates exactly this tape for this
    /// phase and stores the result (used by the coverage-guided fuzz target and `dlv tape`)
    pub single: Mutex<Option<(String, Vec<u8>)>>,
    pub single_result: Mutex<Option<CaseResult>>,
    isolated: Mutex<Vec<String>>,
    watchdog: Arc<Watchdog>,
}

struct Watchdog {
    // per thread slot: start time in ms since engine start (0 = idle)
    slots: Vec<AtomicU64>,
    descr: Mutex<Vec<String>>,
    epoch: Instant,
    limit_ms: u64,
}

thread_local! {
    static WD_SLOT: RefCell<Option<usize>> = const { RefCell::new(None) };
}

/// A failure that the harness attributes to itself (its printer and its parser disagree, a scratch
/// directory cannot be set up ...) is not something darklua did: it is counted as a discard named
/// "harness problem", never reported as a violation of the property.
fn harness_guard(r: CaseResult) -> CaseResult {
    match r {
        CaseResult::Fail(f) if f.message.starts_with("harness:") || f.message.starts_with("HARNESS PROBLEM") => CaseResult::Discard("harness problem (not a darklua defect)"),
        r => r,
    }
}

impl RunCtx {
    pub fn new(prop: &str, tier: Tier, seed: u64, verif_dir: PathBuf) -> RunCtx {
        let threads = std::env::var("VERIF_THREADS")
            .ok()
            .and_then(|s| s.parse().ok())
            .unwrap_or_else(|| std::thread::available_parallelism().map(|n| n.get()).unwrap_or(8).min(16));
        let known = load_known(&verif_dir);
        let limit_ms = std::env::var("VERIF_WATCHDOG_S").ok().and_then(|s| s.parse::<u64>().ok()).unwrap_or(120) * 1000;
        let wd = Arc::new(Watchdog {
            slots: (0..64).map(|_| AtomicU64::new(0)).collect(),
            descr: Mutex::new(vec![String::new(); 64]),
            epoch: Instant::now(),
            limit_ms,
        });
        {
            let wd = wd.clone();
            let prop = prop.to_string();
            let parent = std::os::unix::process::parent_id();
            std::thread::spawn(move || loop {
                std::thread::sleep(std::time::Duration::from_millis(500));
                // a process whose parent went away (a child shard of a check that has ended, or a
                // check whose caller was killed) must not linger
                if std::os::unix::process::parent_id() != parent {
                    std::process::exit(3);
                }
                let now = wd.epoch.elapsed().as_millis() as u64;
                for (i, s) in wd.slots.iter().enumerate() {
                    let st = s.load(Ordering::Relaxed);
                    if st != 0 && now > st + wd.limit_ms {
                        let d = wd.descr.lock().map(|d| d[i].clone()).unwrap_or_default();
                        // never `println!` here: a closed pipe would panic this thread and the
                        // process would hang for ever
                        use std::io::Write;
                        let _ = writeln!(
                            std::io::stdout(),
                            "INCONCLUSIVE property={} a case exceeded the {} s watchdog (not a violation): {}",
                            prop,
                            wd.limit_ms / 1000,
                            d
                        );
                        let _ = std::io::stdout().flush();
                        std::process::exit(2);
                    }
                }
            });
        }
        RunCtx {
            prop: prop.to_string(),
            tier,
            seed,
            threads,
            verif_dir,
            known,
            no_avoid: std::env::var("VERIF_NO_AVOID").is_ok(),
            start: Instant::now(),
            stats: Mutex::new(Stats::default()),
            failures: Mutex::new(Vec::new()),
            notes: Mutex::new(std::env::var("VERIF_BUILD_NOTE").ok().into_iter().collect()),
            exhaustive: AtomicBool::new(false),
            child: None,
            single: Mutex::new(None),
            single_result: Mutex::new(None),
            isolated: Mutex::new(Vec::new()),
            watchdog: wd,
        }
    }

    /// is the generator switch of a listed known finding active?
    pub fn avoid(&self, switch: &str) -> bool {
        if self.no_avoid {
            return false;
        }
        self.known
            .iter()
            .any(|k| k.applies_to(&self.prop) && k.status == "known" && k.avoid.as_deref() == Some(switch))
    }

    pub fn known_signature(&self, sig: &str) -> Option<&KnownFinding> {
        self.known
            .iter()
            .find(|k| k.applies_to(&self.prop) && k.status == "known" && k.signature.as_deref() == Some(sig))
    }

    pub fn note(&self, s: impl Into<String>) {
        self.notes.lock().unwrap().push(s.into());
    }

    pub fn failed(&self) -> bool {
        !self.failures.lock().unwrap().is_empty()
    }

    fn wd_enter(&self, slot: usize, descr: impl FnOnce() -> String) {
        let now = self.watchdog.epoch.elapsed().as_millis() as u64 + 1;
        if let Ok(mut d) = self.watchdog.descr.try_lock() {
            d[slot] = descr();
        }
        self.watchdog.slots[slot].store(now, Ordering::Relaxed);
    }
    fn wd_leave(&self, slot: usize) {
        self.watchdog.slots[slot].store(0, Ordering::Relaxed);
    }

    /// Random search: `cases` tapes (length < `max_len`) split over shards, each shard a proptest
    /// TestRunner with a fixed seed derived from (VERIF_SEED, property, phase, shard).  On a
    /// failure proptest shrinks the tape; the failure of the minimal tape is recorded.
    ///
    /// A phase listed in `isolated` runs each shard in a child process (`dlv shard ...`), so that
    /// an abort (stack overflow, double panic) of the code under test is attributed to one input
    /// instead of killing the check.
    pub fn search<F>(&self, phase: &str, cases: u64, max_len: usize, f: F)
    where
        F: Fn(&[u8], &mut Stats) -> CaseResult + Sync,
    {
        let f = move |tape: &[u8], st: &mut Stats| harness_guard(f(tape, st));
        if let Some((p, tape)) = self.single.lock().unwrap().as_ref() {
            if p == phase {
                let mut st = Stats::default();
                let r = match f(&tape[..tape.len().min(max_len)], &mut st) {
                    CaseResult::Fail(fl) if fl.signature.as_deref().and_then(|s| self.known_signature(s)).is_some() => CaseResult::Discard("listed known finding"),
                    r => r,
                };
                *self.single_result.lock().unwrap() = Some(r);
            }
            return;
        }
        if self.failed() {
            return;
        }
        let shards = self.threads.max(1) as u64;
        let per = cases.div_ceil(shards);
        let stop = AtomicBool::new(false);
        if let Some((child_phase, child_shard)) = &self.child {
            if child_phase != phase {
                return;
            }
            let (st, fail) = self.run_shard(phase, *child_shard, per, max_len, &f, &stop);
            self.stats.lock().unwrap().merge_full(st);
            if let Some(f) = fail {
                self.failures.lock().unwrap().push(f);
            }
            return;
        }
        let isolated = self.isolated.lock().unwrap().iter().any(|p| p == phase);
        let results: Vec<(Stats, Option<Failure>)> = std::thread::scope(|sc| {
            let mut hs = Vec::new();
            for shard in 0..shards {
                let f = &f;
                let stop = &stop;
                let h = std::thread::Builder::new()
                    .stack_size(256 << 20)
                    .spawn_scoped(sc, move || {
                        if isolated {
                            self.run_shard_in_child(phase, shard)
                        } else {
                            self.run_shard(phase, shard, per, max_len, f, stop)
                        }
                    })
                    .expect("spawn");
                hs.push(h);
            }
            hs.into_iter().map(|h| h.join().expect("shard panicked (harness bug)")).collect()
        });
        let mut first_fail = None;
        let mut total = self.stats.lock().unwrap();
        for (st, fail) in results {
            total.merge(st);
            if first_fail.is_none() {
                first_fail = fail;
            }
        }
        drop(total);
        if let Some(f) = first_fail {
            self.failures.lock().unwrap().push(f);
        }
    }

    /// mark a search phase as process-isolated (must be called before `search`)
    pub fn isolate(&self, phase: &str) {
        self.isolated.lock().unwrap().push(phase.to_string());
    }

    fn run_shard_in_child(&self, phase: &str, shard: u64) -> (Stats, Option<Failure>) {
        let exe = std::env::current_exe().expect("current exe");
        let run = |trace: Option<&Path>| -> (Option<i32>, String) {
            let mut cmd = std::process::Command::new(&exe);
            cmd.args(["shard", &self.prop, self.tier.name(), phase, &shard.to_string()])
                .env("VERIF_SEED", (self.seed as i64).to_string())
                .env("VERIF_DIR", &self.verif_dir)
                .env("VERIF_THREADS", self.threads.to_string())
                .stderr(std::process::Stdio::null());
            if let Some(t) = trace {
                cmd.env("VERIF_TRACE_FILE", t);
            }
            match cmd.output() {
                Ok(o) => (o.status.code(), String::from_utf8_lossy(&o.stdout).to_string()),
                Err(e) => (Some(-1), format!("spawn failed: {}", e)),
            }
        };
        let (code, out) = run(None);
        if let Some(line) = out.lines().find(|l| l.starts_with("SHARD-RESULT ")) {
            if let Ok(v) = serde_json::from_str::<Value>(&line["SHARD-RESULT ".len()..]) {
                return (Stats::from_json(&v["stats"]), Failure::from_json(&v["failure"]));
            }
        }
        if code == Some(2) {
            // the child's watchdog (or another inconclusive condition) fired: not a violation
            for l in out.lines().filter(|l| l.starts_with("INCONCLUSIVE")) {
                println!("{}", l);
            }
            println!("INCONCLUSIVE property={} a child process of phase `{}` (shard {}) ended inconclusively (not a violation)", self.prop, phase, shard);
            std::process::exit(2);
        }
        // the child died without a result: find the input it was working on
        let dir = self.verif_dir.join(".work/trace");
        let _ = std::fs::create_dir_all(&dir);
        let trace = dir.join(format!("{}-{}-{}.trace", self.prop, hash_str(phase) % 100000, shard));
        let _ = std::fs::remove_file(&trace);
        let (code2, _) = run(Some(&trace));
        let last = std::fs::read_to_string(&trace).ok().and_then(|t| t.lines().last().map(|l| l.to_string())).unwrap_or_default();
        let _ = std::fs::remove_file(&trace);
        let mut st = Stats::default();
        st.evaluations = 1;
        (
            st,
            Some(Failure::new(
                format!(
                    "the process running phase `{}` shard {} died (exit code {:?}, then {:?} when re-run with tracing): an abort such as a stack overflow or a double panic; last input (tape, hex): {}",
                    phase, shard, code, code2, last
                ),
                json!({"kind": "abort", "phase": phase, "tape": last}),
            )),
        )
    }

    fn run_shard<F>(&self, phase: &str, shard: u64, per: u64, max_len: usize, f: &F, stop: &AtomicBool) -> (Stats, Option<Failure>)
    where
        F: Fn(&[u8], &mut Stats) -> CaseResult + Sync,
    {
        let phase_id = hash_str(phase);
        let prop_id = hash_str(&self.prop);
        let trace_file = std::env::var("VERIF_TRACE_FILE").ok();
        let slot = shard as usize % 64;
        let seed = mix(self.seed, prop_id ^ phase_id, shard);
        let mut seed_bytes = [0u8; 32];
        for i in 0..4 {
            seed_bytes[i * 8..i * 8 + 8].copy_from_slice(&mix(seed, i as u64, 77).to_le_bytes());
        }
        let cfg = PtConfig {
            cases: per as u32,
            failure_persistence: None,
            max_shrink_iters: 600,
            max_local_rejects: u32::MAX,
            max_global_rejects: u32::MAX,
            ..PtConfig::default()
        };
        let mut runner = TestRunner::new_with_rng(cfg, TestRng::from_seed(RngAlgorithm::ChaCha, &seed_bytes));
        let stats = RefCell::new(Stats::default());
        let last_fail: RefCell<Option<Failure>> = RefCell::new(None);
        let strat = tape_strategy(max_len);
        let res = runner.run(&strat, |tape| {
            let counting = last_fail.borrow().is_none();
            if counting && stop.load(Ordering::Relaxed) {
                // another shard already found a violation: do not start new work
                return Ok(());
            }
            if let Some(tf) = &trace_file {
                use std::io::Write;
                if let Ok(mut fh) = std::fs::OpenOptions::new().create(true).append(true).open(tf) {
                    let _ = writeln!(fh, "{}", hex_full(&tape));
                    let _ = fh.sync_all();
                }
            }
            let mut scratch = Stats::default();
            self.wd_enter(slot, || format!("phase={} tape={} (evaluate it with `dlv tape <ID> <phase> <file holding these bytes>`)", phase, hex_full(&tape)));
            let r = {
                let mut st = stats.borrow_mut();
                let target: &mut Stats = if counting { &mut st } else { &mut scratch };
                f(&tape, target)
            };
            self.wd_leave(slot);
            match r {
                CaseResult::Pass { nontrivial } => {
                    if counting {
                        let mut st = stats.borrow_mut();
                        st.evaluations += 1;
                        if let Some(h) = nontrivial {
                            st.nontrivial.insert(h);
                        }
                    }
                    Ok(())
                }
                CaseResult::Discard(why) => {
                    if counting {
                        *stats.borrow_mut().discards.entry(why.to_string()).or_insert(0) += 1;
                    }
                    Ok(())
                }
                CaseResult::Fail(fail) => {
                    if let Some(sig) = fail.signature.as_deref() {
                        if let Some(k) = self.known_signature(sig) {
                            if counting {
                                *stats.borrow_mut().known_hits.entry(k.id.clone()).or_insert(0) += 1;
                            }
                            return Ok(());
                        }
                    }
                    if counting {
                        stats.borrow_mut().evaluations += 1;
                    }
                    let msg = fail.message.clone();
                    stop.store(true, Ordering::Relaxed);
                    *last_fail.borrow_mut() = Some(fail);
                    Err(TestCaseError::fail(msg))
                }
            }
        });
        let fail = match res {
            Ok(()) => None,
            Err(TestError::Fail(_, _)) => last_fail.into_inner(),
            Err(TestError::Abort(r)) => Some(Failure::new(format!("proptest aborted: {}", r), json!({"abort": r.to_string()}))),
        };
        (stats.into_inner(), fail)
    }

    /// Deterministic enumeration of `n` indexed cases in parallel; the first failing index wins.
    pub fn enumerate<F>(&self, phase: &str, n: u64, f: F)
    where
        F: Fn(u64, &mut Stats) -> CaseResult + Sync,
    {
        let f = move |i: u64, st: &mut Stats| harness_guard(f(i, st));
        if self.failed() || n == 0 || self.child.is_some() || self.single.lock().unwrap().is_some() {
            return;
        }
        let shards = (self.threads.max(1) as u64).min(n);
        let chunk = n.div_ceil(shards);
        let results: Vec<(Stats, Option<(u64, Failure)>)> = std::thread::scope(|sc| {
            let mut hs = Vec::new();
            for shard in 0..shards {
                let f = &f;
                let h = std::thread::Builder::new()
                    .stack_size(256 << 20)
                    .spawn_scoped(sc, move || {
                        let slot = shard as usize % 64;
                        let mut st = Stats::default();
                        let lo = shard * chunk;
                        let hi = ((shard + 1) * chunk).min(n);
                        for i in lo..hi {
                            self.wd_enter(slot, || format!("phase={} index={}", phase, i));
                            let r = f(i, &mut st);
                            self.wd_leave(slot);
                            match r {
                                CaseResult::Pass { nontrivial } => {
                                    st.evaluations += 1;
                                    if let Some(h) = nontrivial {
                                        st.nontrivial.insert(h);
                                    }
                                }
                                CaseResult::Discard(why) => {
                                    *st.discards.entry(why.to_string()).or_insert(0) += 1;
                                }
                                CaseResult::Fail(fail) => {
                                    if let Some(sig) = fail.signature.as_deref() {
                                        if let Some(k) = self.known_signature(sig) {
                                            *st.known_hits.entry(k.id.clone()).or_insert(0) += 1;
                                            continue;
                                        }
                                    }
                                    st.evaluations += 1;
                                    return (st, Some((i, fail)));
                                }
                            }
                        }
                        (st, None)
                    })
                    .expect("spawn");
                hs.push(h);
            }
            hs.into_iter().map(|h| h.join().expect("shard panicked (harness bug)")).collect()
        });
        let mut first: Option<(u64, Failure)> = None;
        let mut total = self.stats.lock().unwrap();
        for (st, fail) in results {
            total.merge(st);
            if let Some((i, f)) = fail {
                if first.as_ref().map(|(j, _)| i < *j).unwrap_or(true) {
                    first = Some((i, f));
                }
            }
        }
        drop(total);
        if let Some((_, f)) = first {
            self.failures.lock().unwrap().push(f);
        }
    }

    pub fn add_class(&self, name: &str, n: u64) {
        self.stats.lock().unwrap().class_n(name, n);
    }
}

fn tape_strategy(max_len: usize) -> impl Strategy<Value = Vec<u8>> {
    // lengths: mostly full-size tapes (short tapes decode to tiny programs), some short
    let max_len = max_len.max(2);
    proptest::prop_oneof![
        6 => proptest::collection::vec(proptest::num::u8::ANY, max_len / 2..max_len),
        2 => proptest::collection::vec(proptest::num::u8::ANY, 0..max_len / 2 + 1),
        1 => proptest::collection::vec(biased_byte(), max_len / 2..max_len),
    ]
}

fn biased_byte() -> impl Strategy<Value = u8> {
    proptest::prop_oneof![
        3 => proptest::num::u8::ANY,
        1 => proptest::strategy::Just(0u8),
        1 => proptest::strategy::Just(255u8),
        1 => 0u8..16,
        1 => 240u8..=255,
    ]
}

pub fn hex(b: &[u8]) -> String {
    let mut s = String::with_capacity(b.len() * 2);
    for x in b.iter().take(400) {
        s.push_str(&format!("{:02x}", x));
    }
    s
}

pub fn hex_full(b: &[u8]) -> String {
    let mut s = String::with_capacity(b.len() * 2);
    for x in b {
        s.push_str(&format!("{:02x}", x));
    }
    s
}

pub fn unhex(s: &str) -> Vec<u8> {
    (0..s.len() / 2).filter_map(|i| u8::from_str_radix(&s[2 * i..2 * i + 2], 16).ok()).collect()
}

pub fn hash_str(s: &str) -> u64 {
    hash_bytes(s.as_bytes())
}

pub fn hash_bytes(b: &[u8]) -> u64 {
    // FNV-1a 64, then a splitmix finaliser
    let mut h: u64 = 0xcbf29ce484222325;
    for x in b {
        h ^= *x as u64;
        h = h.wrapping_mul(0x100000001b3);
    }
    crate::tape::splitmix(h)
}

pub fn hash_parts(parts: &[&[u8]]) -> u64 {
    let mut h = 0u64;
    for p in parts {
        h = crate::tape::splitmix(h ^ hash_bytes(p));
    }
    h
}

// ------------------------------------------------------------------------------ known findings

pub fn load_known(verif_dir: &Path) -> Vec<KnownFinding> {
    let p = verif_dir.join("findings/known_findings.json");
    let Ok(text) = std::fs::read_to_string(&p) else { return vec![] };
    let Ok(v) = serde_json::from_str::<Value>(&text) else {
        eprintln!("cannot parse {}", p.display());
        std::process::exit(2);
    };
    let mut out = vec![];
    for e in v.get("findings").and_then(|x| x.as_array()).cloned().unwrap_or_default() {
        let g = |k: &str| e.get(k).and_then(|x| x.as_str()).map(|s| s.to_string());
        out.push(KnownFinding {
            id: g("id").unwrap_or_default(),
            property: g("property").unwrap_or_default(),
            status: g("status").unwrap_or_else(|| "known".into()),
            what: g("what").unwrap_or_default(),
            replay: g("replay").unwrap_or_default(),
            avoid: g("avoid"),
            signature: g("signature"),
            commit: g("commit"),
            also: e.get("also").and_then(|a| a.as_array()).map(|a| a.iter().filter_map(|x| x.as_str().map(|s| s.to_string())).collect()).unwrap_or_default(),
        });
    }
    out
}

// ------------------------------------------------------------------------------ panics

thread_local! {
    static LAST_PANIC: RefCell<Option<String>> = const { RefCell::new(None) };
    static QUIET_PANIC: RefCell<bool> = const { RefCell::new(false) };
}

/// install a panic hook that records `location: message` for the current thread and stays
/// silent while a `catch` is active on this thread
pub fn install_panic_hook() {
    let default = std::panic::take_hook();
    std::panic::set_hook(Box::new(move |info| {
        let msg = if let Some(s) = info.payload().downcast_ref::<&str>() {
            s.to_string()
        } else if let Some(s) = info.payload().downcast_ref::<String>() {
            s.clone()
        } else {
            "<non-string panic>".to_string()
        };
        let loc = info.location().map(|l| format!("{}:{}", short_path(l.file()), l.line())).unwrap_or_default();
        let quiet = QUIET_PANIC.with(|q| *q.borrow());
        LAST_PANIC.with(|p| *p.borrow_mut() = Some(format!("{}: {}", loc, msg)));
        if !quiet {
            default(info);
        }
    }));
}

/// a cargo-registry path without its host-specific prefix (`full_moon-2.2.0/src/...`)
fn short_path(p: &str) -> &str {
    match p.find("/registry/src/") {
        Some(i) => {
            let rest = &p[i + "/registry/src/".len()..];
            rest.find('/').map(|j| &rest[j + 1..]).unwrap_or(rest)
        }
        None => p,
    }
}

/// run `f`, turning a panic into Err("location: message")
pub fn catch<T>(f: impl FnOnce() -> T) -> Result<T, String> {
    let prev = QUIET_PANIC.with(|q| std::mem::replace(&mut *q.borrow_mut(), true));
    LAST_PANIC.with(|p| *p.borrow_mut() = None);
    let r = std::panic::catch_unwind(std::panic::AssertUnwindSafe(f));
    QUIET_PANIC.with(|q| *q.borrow_mut() = prev);
    match r {
        Ok(v) => Ok(v),
        Err(_) => Err(LAST_PANIC.with(|p| p.borrow_mut().take()).unwrap_or_else(|| "<panic>".into())),
    }
}

// ------------------------------------------------------------------------------ driver

pub struct PropDef {
    pub id: &'static str,
    pub rule: &'static str,
    pub assumptions: &'static [&'static str],
    pub run: fn(&RunCtx),
    /// re-run the oracle on the concrete inputs of a replay file: Ok(()) = holds
    pub replay: fn(&Value) -> Result<(), String>,
    /// optional domain-level reducer applied to a failing replay value after tape shrinking
    pub minimize: Option<fn(&Value) -> Option<Value>>,
}

pub fn write_replay(ctx: &RunCtx, f: &Failure) -> PathBuf {
    let dir = ctx.verif_dir.join(".work/replay");
    let _ = std::fs::create_dir_all(&dir);
    let mut v = f.replay.clone();
    if let Some(o) = v.as_object_mut() {
        o.insert("property".into(), json!(ctx.prop));
        o.insert("message".into(), json!(f.message));
        if let Some(s) = &f.signature {
            o.insert("signature".into(), json!(s));
        }
    }
    let text = serde_json::to_string_pretty(&v).unwrap();
    let h = hash_str(&text);
    let p = dir.join(format!("{}-{:016x}.json", ctx.prop, h));
    std::fs::write(&p, text).expect("write replay");
    p
}

/// full run of one property; returns the process exit code
pub fn run_property(def: &PropDef, tier: Tier, seed: u64, verif_dir: PathBuf) -> i32 {
    install_panic_hook();
    let ctx = RunCtx::new(def.id, tier, seed, verif_dir.clone());
    let mut violations = 0;
    let mut known_lines = vec![];
    let mut findings_replayed = 0u64;

    // 1. committed findings of this property
    for k in ctx.known.iter().filter(|k| k.applies_to(def.id)) {
        let path = verif_dir.join(&k.replay);
        let text = match std::fs::read_to_string(&path) {
            Ok(t) => t,
            Err(e) => {
                println!("INCONCLUSIVE property={} cannot read finding replay {}: {}", def.id, path.display(), e);
                return 2;
            }
        };
        let v: Value = match serde_json::from_str(&text) {
            Ok(v) => v,
            Err(e) => {
                println!("INCONCLUSIVE property={} bad finding replay {}: {}", def.id, path.display(), e);
                return 2;
            }
        };
        // a finding shared with another property (`also`) is replayed by the oracle of the property
        // its replay file was written for
        let replay_fn = v
            .get("property")
            .and_then(|p| p.as_str())
            .filter(|p| *p != def.id)
            .and_then(|p| crate::props::all().into_iter().find(|d| d.id == p))
            .map(|d| d.replay)
            .unwrap_or(def.replay);
        let r = catch(|| replay_fn(&v)).unwrap_or_else(|p| Err(format!("harness panic in replay: {}", p)));
        findings_replayed += 1;
        match (k.status.as_str(), r) {
            ("known", Err(_)) => {
                println!("KNOWN-FINDING: property={} {} [{}]", def.id, k.what, k.id);
                known_lines.push(k.id.clone());
            }
            ("known", Ok(())) => {
                println!("NOTE property={} listed finding {} no longer reproduces on this tree", def.id, k.id);
            }
            (_, Err(msg)) => {
                println!("VIOLATION property={} replay={}", def.id, path.display());
                println!("  fixed finding {} is back: {}", k.id, first_line(&msg));
                violations += 1;
            }
            (_, Ok(())) => {}
        }
    }

    // 2. committed regression seeds
    let corpus = verif_dir.join("corpus").join(def.id);
    let mut regress = 0;
    // replay files produced by the coverage-guided stage of this same run (fuzzer artifacts that
    // `dlv tape` turned into concrete inputs)
    if let Ok(extra) = std::env::var("VERIF_EXTRA_REPLAYS") {
        for p in extra.split(':').filter(|p| !p.is_empty()) {
            let p = PathBuf::from(p);
            let Ok(text) = std::fs::read_to_string(&p) else { continue };
            let Ok(v) = serde_json::from_str::<Value>(&text) else { continue };
            let r = catch(|| (def.replay)(&v)).unwrap_or_else(|p| Err(format!("harness panic in replay: {}", p)));
            if let Err(msg) = r {
                println!("VIOLATION property={} replay={}", def.id, p.display());
                println!("  found by the coverage-guided stage: {}", first_line(&msg));
                violations += 1;
            }
        }
    }
    if let Ok(rd) = std::fs::read_dir(&corpus) {
        let mut files: Vec<_> = rd.filter_map(|e| e.ok()).map(|e| e.path()).filter(|p| p.extension().map(|e| e == "json").unwrap_or(false)).collect();
        files.sort();
        for p in files {
            let Ok(text) = std::fs::read_to_string(&p) else { continue };
            let Ok(v) = serde_json::from_str::<Value>(&text) else { continue };
            regress += 1;
            let r = catch(|| (def.replay)(&v)).unwrap_or_else(|p| Err(format!("harness panic in replay: {}", p)));
            if let Err(msg) = r {
                println!("VIOLATION property={} replay={}", def.id, p.display());
                println!("  regression seed fails: {}", first_line(&msg));
                violations += 1;
            }
        }
    }

    // 3. the search
    if violations == 0 {
        (def.run)(&ctx);
    }
    let mut failures = ctx.failures.lock().unwrap().clone();
    if let (Some(min), false) = (def.minimize, std::env::var("VERIF_NO_MINIMIZE").is_ok()) {
        for f in failures.iter_mut() {
            if let Ok(Some(v2)) = catch(|| min(&f.replay)) {
                if let Ok(Err(msg)) = catch(|| (def.replay)(&v2)) {
                    f.replay = v2;
                    f.message = msg;
                }
            }
        }
    }
    for f in &failures {
        let p = write_replay(&ctx, f);
        println!("VIOLATION property={} replay={}", def.id, p.display());
        for l in f.message.lines().take(40) {
            println!("  {}", l);
        }
        violations += 1;
    }

    // 4. evidence
    let st = ctx.stats.lock().unwrap().clone();
    let wall = ctx.start.elapsed().as_secs_f64();
    let mut samples = st.samples.clone();
    if samples.is_empty() {
        samples.push(json!("no sample recorded"));
    }
    let ev = json!({
        "property_id": def.id,
        "tier": tier.name(),
        "seed": seed,
        "level": "exploration",
        "coverage": {
            // oracle evaluations: generated / enumerated cases + replayed findings and regression seeds
            "evaluations": st.evaluations + findings_replayed + regress as u64,
            "findings_replayed": findings_replayed,
            "distinct_nontrivial": st.nontrivial.len(),
            "rule": def.rule,
            "samples": samples,
            "exhaustive": ctx.exhaustive.load(Ordering::Relaxed),
            "classes": st.classes,
            "discards": st.discards,
            "known_finding_hits": st.known_hits,
            "known_findings_listed": known_lines,
            "regression_seeds_replayed": regress,
            "notes": *ctx.notes.lock().unwrap(),
            "threads": ctx.threads,
            "coverage_guided_stage": std::env::var("VERIF_FUZZ_SUMMARY").ok().and_then(|s| serde_json::from_str::<Value>(&s).ok()).unwrap_or(Value::Null),
        },
        "assumptions": def.assumptions,
        "wall_s": wall,
        "violations": violations,
    });
    let evdir = verif_dir.join("evidence");
    let _ = std::fs::create_dir_all(&evdir);
    std::fs::write(evdir.join(format!("{}.json", def.id)), serde_json::to_string_pretty(&ev).unwrap())
        .expect("write evidence");
    println!(
        "property={} tier={} seed={} evaluations={} distinct_nontrivial={} discards={} violations={} wall={:.1}s",
        def.id,
        tier.name(),
        seed,
        st.evaluations,
        st.nontrivial.len(),
        st.discards.values().sum::<u64>(),
        violations,
        wall
    );
    if violations > 0 {
        1
    } else {
        0
    }
}

/// entry point of a child process running one shard of one isolated phase
pub fn run_shard_process(def: &PropDef, tier: Tier, seed: u64, verif_dir: PathBuf, phase: &str, shard: u64) -> i32 {
    install_panic_hook();
    let mut ctx = RunCtx::new(def.id, tier, seed, verif_dir);
    ctx.child = Some((phase.to_string(), shard));
    (def.run)(&ctx);
    let st = ctx.stats.lock().unwrap().clone();
    let fail = ctx.failures.lock().unwrap().first().cloned();
    println!("SHARD-RESULT {}", json!({"stats": st.to_json(), "failure": fail.map(|f| f.to_json())}));
    0
}

/// evaluate one tape of one search phase of a property (single-case mode)
pub fn run_single(def: &PropDef, ctx: &RunCtx, phase: &str, tape: &[u8]) -> Option<CaseResult> {
    *ctx.single.lock().unwrap() = Some((phase.to_string(), tape.to_vec()));
    *ctx.single_result.lock().unwrap() = None;
    (def.run)(ctx);
    ctx.single_result.lock().unwrap().take()
}

/// `dlv tape <ID> <phase> <file>`: evaluate a raw tape (a fuzzer artifact); a failure is
/// minimised and reported like any other violation
pub fn run_tape_file(def: &PropDef, verif_dir: PathBuf, phase: &str, file: &Path) -> i32 {
    install_panic_hook();
    let tape = match std::fs::read(file) {
        Ok(t) => t,
        Err(e) => {
            println!("INCONCLUSIVE cannot read {}: {}", file.display(), e);
            return 2;
        }
    };
    let ctx = RunCtx::new(def.id, Tier::Thorough, 1, verif_dir);
    match run_single(def, &ctx, phase, &tape) {
        Some(CaseResult::Fail(mut f)) => {
            if let (Some(min), false) = (def.minimize, std::env::var("VERIF_NO_MINIMIZE").is_ok()) {
                if let Ok(Some(v2)) = catch(|| min(&f.replay)) {
                    if let Ok(Err(msg)) = catch(|| (def.replay)(&v2)) {
                        f.replay = v2;
                        f.message = msg;
                    }
                }
            }
            let p = write_replay(&ctx, &f);
            println!("TAPE-FAILURE property={} replay={}", def.id, p.display());
            for l in f.message.lines().take(40) {
                println!("  {}", l);
            }
            1
        }
        Some(_) => {
            println!("OK property={} holds on tape {}", def.id, file.display());
            0
        }
        None => {
            println!("INCONCLUSIVE property={} has no search phase `{}`", def.id, phase);
            2
        }
    }
}

/// entry point of the coverage-guided fuzz target: the property and phase come from
/// DLV_FUZZ_PROP / DLV_FUZZ_PHASE; a failure that is not a listed known finding panics
pub fn fuzz_entry(data: &[u8]) {
    use std::sync::OnceLock;
    static STATE: OnceLock<(PropDef, RunCtx, String)> = OnceLock::new();
    let (def, ctx, phase) = STATE.get_or_init(|| {
        install_panic_hook();
        let prop = std::env::var("DLV_FUZZ_PROP").expect("DLV_FUZZ_PROP");
        let phase = std::env::var("DLV_FUZZ_PHASE").expect("DLV_FUZZ_PHASE");
        let dir = PathBuf::from(std::env::var("VERIF_DIR").unwrap_or_else(|_| "/verif".into()));
        let def = crate::props::all().into_iter().find(|p| p.id == prop).expect("unknown property");
        let ctx = RunCtx::new(def.id, Tier::Thorough, 1, dir);
        (def, ctx, phase)
    });
    if let Some(CaseResult::Fail(f)) = run_single(def, ctx, phase, data) {
        panic!("FUZZ-FAILURE property={} {}", def.id, first_line(&f.message));
    }
}

pub fn first_line(s: &str) -> &str {
    s.lines().next().unwrap_or("")
}
