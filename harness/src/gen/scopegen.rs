//! `scopegen` — scoping stress programs for C09 (not executable on purpose): few names, declared
//! again and again in every kind of scope, captured by closures, used after their scope closed,
//! named like globals the file uses elsewhere and like the names darklua generates; plus the
//! "many locals" text family (hundreds to thousands of simultaneously live locals).

use crate::luasyn::ast::*;
use crate::tape::Tape;
use std::collections::BTreeMap;

#[derive(Clone, Debug)]
pub struct ScopeOpts {
    pub luau: bool,
    pub types: bool,
    pub max_stmts: usize,
    pub max_depth: usize,
    /// known finding: parameters of a `type function` named like a visible local
    pub no_type_function: bool,
    /// known finding: `for k: typeof(k) in ...`
    pub no_for_typeof_own_var: bool,
}

impl ScopeOpts {
    pub fn lua51() -> Self {
        ScopeOpts { luau: false, types: false, max_stmts: 7, max_depth: 4, no_type_function: false, no_for_typeof_own_var: false }
    }
    pub fn luau() -> Self {
        ScopeOpts { luau: true, types: true, ..Self::lua51() }
    }
}

pub type ScopeGenStats = BTreeMap<&'static str, u32>;

/// names of locals: short, overlapping with GLOBALS, with field names and with what darklua generates
const LOCALS: [&str; 22] = ["a", "b", "c", "d", "x", "y", "i", "k", "v", "t", "f", "g", "m", "self", "_", "print", "math", "game", "aa", "ab", "value", "e"];
/// names used without declaration (when no local of that name is visible they are globals)
const GLOBALS: [&str; 18] = ["print", "math", "game", "a", "b", "c", "d", "e", "f", "aa", "ab", "_G", "G1", "cfg", "x", "h", "A", "_"];
const FIELDS: [&str; 10] = ["a", "b", "x", "self", "print", "new", "T", "m", "value", "aa"];
const TYPES: [&str; 8] = ["T", "U", "a", "m", "number", "string", "Props", "x"];

pub struct ScopeGen<'a, 'b> {
    t: &'a mut Tape<'b>,
    o: ScopeOpts,
    scopes: Vec<Vec<String>>,
    closed: Vec<String>,
    modules: Vec<String>,
    loop_depth: usize,
    budget: i32,
    pub stats: ScopeGenStats,
}

fn nm(n: &str) -> Expr {
    Expr::Name(n.to_string())
}

fn num(v: u32) -> Expr {
    Expr::Number { raw: v.to_string(), value: v as f64 }
}

fn strlit(s: &str) -> Expr {
    Expr::Str { raw: format!("\"{}\"", s), value: s.as_bytes().to_vec() }
}

impl<'a, 'b> ScopeGen<'a, 'b> {
    pub fn new(t: &'a mut Tape<'b>, o: ScopeOpts) -> Self {
        ScopeGen { t, o, scopes: vec![vec![]], closed: vec![], modules: vec![], loop_depth: 0, budget: 0, stats: ScopeGenStats::new() }
    }

    fn stat(&mut self, k: &'static str) {
        *self.stats.entry(k).or_insert(0) += 1;
    }

    fn push(&mut self) {
        self.scopes.push(vec![]);
    }

    fn pop(&mut self) {
        if let Some(v) = self.scopes.pop() {
            self.closed.extend(v);
            if self.closed.len() > 40 {
                let n = self.closed.len() - 40;
                self.closed.drain(..n);
            }
        }
    }

    fn visible(&self) -> Vec<&String> {
        self.scopes.iter().flatten().collect()
    }

    fn is_visible(&self, n: &str) -> bool {
        self.scopes.iter().flatten().any(|x| x == n)
    }

    fn declare(&mut self, n: &str) {
        self.scopes.last_mut().unwrap().push(n.to_string());
    }

    /// a name for a new local: often one that is visible (shadowing), one whose scope closed
    /// (reuse), or one the file uses as a global
    fn new_local(&mut self) -> String {
        match self.t.weighted(&[5, 3, 2, 2]) {
            1 => {
                let n = self.visible().len();
                if n > 0 {
                    let i = self.t.choose(n);
                    return self.visible()[i].clone();
                }
            }
            2 => {
                if !self.closed.is_empty() {
                    let i = self.t.choose(self.closed.len());
                    return self.closed[i].clone();
                }
            }
            3 => return GLOBALS[self.t.choose(GLOBALS.len())].to_string(),
            _ => {}
        }
        LOCALS[self.t.choose(LOCALS.len())].to_string()
    }

    /// a name to read / assign
    fn use_name(&mut self) -> String {
        match self.t.weighted(&[12, 5, 3]) {
            0 => {
                let n = self.visible().len();
                if n > 0 {
                    // favour recent declarations a little
                    let i = if self.t.bool(128) { n - 1 - self.t.choose(n.min(4)) } else { self.t.choose(n) };
                    return self.visible()[i].clone();
                }
            }
            2 => {
                if !self.closed.is_empty() {
                    let i = self.t.choose(self.closed.len());
                    return self.closed[i].clone();
                }
            }
            _ => {}
        }
        GLOBALS[self.t.choose(GLOBALS.len())].to_string()
    }

    fn field(&mut self) -> String {
        FIELDS[self.t.choose(FIELDS.len())].to_string()
    }

    // ------------------------------------------------------------------------------ types

    fn ty(&mut self, d: usize) -> Type {
        let w = [4, 6, 6, if d > 0 { 3 } else { 0 }, if d > 0 { 2 } else { 0 }, if d > 0 { 2 } else { 0 }, if d > 0 { 2 } else { 0 }];
        match self.t.weighted(&w) {
            0 => Type::Name(TypeName { name: TYPES[self.t.choose(TYPES.len())].to_string(), params: None }),
            1 => {
                // qualified: a local module, any visible local, or an undeclared prefix
                let ns = match self.t.weighted(&[6, 3, 1]) {
                    0 if !self.modules.is_empty() => self.modules[self.t.choose(self.modules.len())].clone(),
                    1 => self.use_name(),
                    _ => "Mod".to_string(),
                };
                self.stat("type_namespace");
                let params = if d > 0 && self.t.bool(50) { Some(vec![TypeArg::Type(self.ty(d - 1))]) } else { None };
                Type::Qualified { namespace: ns, name: TypeName { name: TYPES[self.t.choose(TYPES.len())].to_string(), params } }
            }
            2 => {
                self.stat("typeof");
                let e = if self.t.bool(170) {
                    let n = self.use_name();
                    nm(&n)
                } else {
                    let saved = self.budget;
                    self.budget = 3;
                    let e = self.expr(1);
                    self.budget = saved;
                    e
                };
                Type::Typeof(Box::new(e))
            }
            3 => Type::Optional(Box::new(self.ty(d - 1))),
            4 => {
                let n = 1 + self.t.choose(2);
                let mut items = vec![];
                for _ in 0..n {
                    items.push(TableTypeItem::Prop { access: None, name: self.field(), ty: self.ty(d - 1) });
                }
                Type::Table(items)
            }
            5 => {
                // parameter names of a function TYPE are not variables
                let n = self.t.choose(3);
                let mut params = vec![];
                for _ in 0..n {
                    let pn = if self.t.bool(150) { Some(self.use_name()) } else { None };
                    params.push((pn, self.ty(d - 1)));
                }
                Type::Function(Box::new(FunctionType { generics: None, params, variadic: None, ret: Box::new(ReturnType::Type(self.ty(d - 1))) }))
            }
            _ => Type::Union { leading: false, types: vec![self.ty(d - 1), self.ty(d - 1)] },
        }
    }

    fn opt_ty(&mut self, p: u32) -> Option<Type> {
        if self.o.types && self.t.bool(p) {
            Some(self.ty(2))
        } else {
            None
        }
    }

    // ------------------------------------------------------------------------------ expressions

    fn leaf(&mut self) -> Expr {
        match self.t.weighted(&[10, 2, 1, 1]) {
            0 => {
                let n = self.use_name();
                nm(&n)
            }
            1 => num(self.t.choose(10) as u32),
            2 => strlit(["a", "x", "print", "s"][self.t.choose(4)]),
            _ => [Expr::Nil, Expr::True, Expr::False][self.t.choose(3)].clone(),
        }
    }

    fn prefix(&mut self, d: usize) -> Expr {
        let n = self.use_name();
        let mut e = nm(&n);
        let k = self.t.weighted(&[5, 3, 1]);
        for _ in 0..k {
            e = match self.t.weighted(&[5, 3, 2]) {
                0 => Expr::Field { obj: Box::new(e), name: self.field() },
                1 => {
                    let key = self.expr(d.saturating_sub(1));
                    Expr::Index { obj: Box::new(e), key: Box::new(key) }
                }
                _ => {
                    let args = self.args(d);
                    Expr::Call { f: Box::new(e), args, sugar: CallSugar::Parens }
                }
            };
        }
        e
    }

    fn args(&mut self, d: usize) -> Vec<Expr> {
        let n = self.t.weighted(&[2, 4, 3, 1]);
        (0..n).map(|_| self.expr(d.saturating_sub(1))).collect()
    }

    fn call(&mut self, d: usize) -> Expr {
        if self.t.bool(70) {
            let obj = self.prefix(d);
            let args = self.args(d);
            self.stat("method_call");
            Expr::MethodCall { obj: Box::new(obj), name: self.field(), types: None, args, sugar: CallSugar::Parens }
        } else {
            let f = self.prefix(d);
            let args = self.args(d);
            Expr::Call { f: Box::new(f), args, sugar: CallSugar::Parens }
        }
    }

    /// parameters: names drawn like locals (so they shadow), sometimes an explicit `self`
    fn params(&mut self, method: bool) -> Vec<Binding> {
        let np = self.t.weighted(&[2, 4, 3, 2]);
        let mut params: Vec<Binding> = vec![];
        for _ in 0..np {
            let mut n = self.new_local();
            if params.iter().any(|p| p.name == n) {
                n = format!("p{}", params.len());
            }
            if method && n == "self" && !self.t.bool(60) {
                n = "s".to_string();
            }
            let ty = self.opt_ty(70);
            params.push(Binding { name: n, ty });
        }
        params
    }

    /// header (annotations are generated BEFORE the parameters become visible) + body
    fn func_body(&mut self, d: usize, method: bool, own_name: Option<&str>) -> FuncBody {
        let mut params = self.params(method);
        // scoping of a header typeof that mentions a parameter / self / the function's own name
        // is disputed between the references: not generated (C09 discards such inputs anyway)
        let hdr: Vec<String> = params.iter().map(|p| p.name.clone()).chain(own_name.map(|s| s.to_string())).chain(method.then(|| "self".to_string())).collect();
        let ret_ty = self.opt_ty(40).map(|t| Box::new(ReturnType::Type(t)));
        let mentions = |t: &Type| -> bool {
            let text = crate::luaprint::print_type_plain(t);
            text.contains("typeof") && hdr.iter().any(|h| text.contains(h.as_str()))
        };
        for p in params.iter_mut() {
            if p.ty.as_ref().map(&mentions).unwrap_or(false) {
                p.ty = None;
            }
        }
        let ret_ty = ret_ty.filter(|r| !matches!(&**r, ReturnType::Type(t) if mentions(t)));
        let vararg = self.t.bool(40);
        self.push();
        if method {
            self.declare("self");
        }
        for p in &params {
            self.declare(&p.name);
        }
        let saved = self.loop_depth;
        self.loop_depth = 0;
        let n = 1 + self.t.choose(3);
        let mut body = self.block_noscope(n, d.saturating_sub(1));
        // the body ends by using parameters / captured names so that nothing is unused
        if !matches!(body.stmts.last(), Some(Stmt::Return(_))) {
            let k = 1 + self.t.choose(3);
            let mut rets: Vec<Expr> = vec![];
            for _ in 0..k {
                let n = if method && self.t.bool(100) {
                    "self".to_string()
                } else if let (Some(f), true) = (own_name, self.t.bool(60)) {
                    self.stat("local_function_self_reference");
                    f.to_string()
                } else {
                    self.use_name()
                };
                rets.push(nm(&n));
            }
            body.stmts.push(Stmt::Return(rets));
        }
        self.loop_depth = saved;
        self.pop();
        FuncBody { generics: None, params, vararg, vararg_ty: None, ret_ty, body }
    }

    pub fn expr(&mut self, d: usize) -> Expr {
        if d == 0 || self.budget <= 0 {
            return self.leaf();
        }
        self.budget -= 1;
        let luau = self.o.luau;
        let w = [8, 6, 2, 4, 3, 3, 1, if luau { 1 } else { 0 }, if luau { 2 } else { 0 }, if luau && self.o.types { 2 } else { 0 }];
        match self.t.weighted(&w) {
            0 => self.leaf(),
            1 => {
                let ops = [BinOp::Add, BinOp::And, BinOp::Or, BinOp::Concat, BinOp::Eq, BinOp::Lt, BinOp::Mul];
                let op = ops[self.t.choose(ops.len())];
                let a = self.expr(d - 1);
                let b = self.expr(d - 1);
                Expr::Binary(op, Box::new(a), Box::new(b))
            }
            2 => {
                let op = [UnOp::Not, UnOp::Neg, UnOp::Len][self.t.choose(3)];
                // `- -x` would print as a comment
                let x = self.leaf();
                Expr::Unary(op, Box::new(x))
            }
            3 => {
                if self.t.bool(128) {
                    self.call(d)
                } else {
                    self.prefix(d)
                }
            }
            4 => {
                // table whose keys are spelled like locals: `{ a = a, [b] = c, d }`
                let n = self.t.choose(4);
                let mut items = vec![];
                for _ in 0..n {
                    items.push(match self.t.weighted(&[3, 4, 2]) {
                        0 => TableItem::Pos(self.expr(d - 1)),
                        1 => {
                            let v = self.use_name();
                            let key = if self.t.bool(150) && v != "_" { v.clone() } else { self.field() };
                            self.stat("table_key_named_like_local");
                            TableItem::Named(key, nm(&v))
                        }
                        _ => TableItem::Keyed(self.expr(d - 1), self.expr(d - 1)),
                    });
                }
                Expr::Table(items)
            }
            5 => {
                self.stat("closure");
                let f = self.func_body(d, false, None);
                Expr::Function { attrs: vec![], func: Box::new(f) }
            }
            6 => Expr::Paren(Box::new(self.expr(d - 1))),
            7 => {
                let c = self.expr(d - 1);
                let a = self.expr(d - 1);
                let b = self.expr(d - 1);
                Expr::IfExpr { clauses: vec![(c, a)], else_: Box::new(b) }
            }
            8 => {
                self.stat("interpolated_string");
                let a = self.expr(d - 1);
                let mut segs = vec![InterpSeg::Str(b"a ".to_vec()), InterpSeg::Expr(a)];
                if self.t.bool(100) {
                    segs.push(InterpSeg::Str(b" b ".to_vec()));
                    let n = self.use_name();
                    segs.push(InterpSeg::Expr(nm(&n)));
                }
                Expr::Interp(segs)
            }
            _ => {
                self.stat("cast");
                let n = self.use_name();
                let ty = self.ty(1);
                Expr::Paren(Box::new(Expr::Cast { expr: Box::new(nm(&n)), ty: Box::new(ty) }))
            }
        }
    }

    // ------------------------------------------------------------------------------ statements

    fn block(&mut self, n: usize, d: usize) -> Block {
        self.push();
        let b = self.block_noscope(n, d);
        self.pop();
        b
    }

    fn block_noscope(&mut self, n: usize, d: usize) -> Block {
        let mut stmts = vec![];
        for _ in 0..n {
            let st = self.stmt(d);
            let term = matches!(st, Stmt::Return(_) | Stmt::Break | Stmt::Continue);
            stmts.push(st);
            if term {
                break;
            }
        }
        Block::new(stmts)
    }

    fn target(&mut self) -> Expr {
        match self.t.weighted(&[6, 2, 2]) {
            0 => {
                let n = self.use_name();
                nm(&n)
            }
            1 => {
                let n = self.use_name();
                Expr::Field { obj: Box::new(nm(&n)), name: self.field() }
            }
            _ => {
                let n = self.use_name();
                let k = self.use_name();
                Expr::Index { obj: Box::new(nm(&n)), key: Box::new(nm(&k)) }
            }
        }
    }

    pub fn stmt(&mut self, d: usize) -> Stmt {
        self.budget = 8;
        let nest = d > 0;
        let luau = self.o.luau;
        let types = luau && self.o.types;
        let nb = |s: &mut Self| 1 + s.t.choose(3);
        let w = [
            10,                                      // 0 local
            3,                                       // 1 local x = x
            4,                                       // 2 assignment
            4,                                       // 3 call statement
            if nest { 3 } else { 0 },                // 4 do
            if nest { 2 } else { 0 },                // 5 while
            if nest { 4 } else { 0 },                // 6 repeat
            if nest { 3 } else { 0 },                // 7 numeric for
            if nest { 4 } else { 0 },                // 8 generic for
            if nest { 4 } else { 0 },                // 9 if
            if nest { 5 } else { 0 },                // 10 local function
            if nest { 3 } else { 0 },                // 11 function statement (global / field / method)
            1,                                       // 12 return
            if self.loop_depth > 0 { 1 } else { 0 }, // 13 break / continue
            if luau { 2 } else { 0 },                // 14 compound assignment
            if types { 3 } else { 0 },               // 15 local m = require(...) ; typed local
            if types { 2 } else { 0 },               // 16 type alias
            if types && nest { 2 } else { 0 },       // 17 type function
        ];
        match self.t.weighted(&w) {
            0 => {
                let n = 1 + self.t.weighted(&[6, 3, 1]);
                let mut names: Vec<Binding> = vec![];
                for _ in 0..n {
                    // the same name twice in one statement is allowed
                    let name = self.new_local();
                    let ty = self.opt_ty(60);
                    names.push(Binding { name, ty });
                }
                let nv = self.t.weighted(&[1, 6, 2]);
                let values: Vec<Expr> = (0..nv).map(|_| self.expr(2)).collect();
                for b in &names {
                    self.declare(&b.name);
                }
                self.stat("local");
                Stmt::Local { is_const: false, names, values }
            }
            1 => {
                // `local x = x` : the initialiser sees the OUTER x (local or global)
                let name = if self.t.bool(170) { self.use_name() } else { self.new_local() };
                let value = if self.t.bool(200) {
                    nm(&name)
                } else {
                    Expr::Binary(BinOp::Or, Box::new(nm(&name)), Box::new(Expr::Table(vec![])))
                };
                self.declare(&name);
                self.stat("local_x_equals_x");
                Stmt::Local { is_const: false, names: vec![Binding { name, ty: None }], values: vec![value] }
            }
            2 => {
                let n = 1 + self.t.weighted(&[6, 2]);
                let targets = (0..n).map(|_| self.target()).collect();
                let values = (0..n).map(|_| self.expr(2)).collect();
                Stmt::Assign { targets, values }
            }
            3 => Stmt::Call(self.call(2)),
            4 => {
                let n = nb(self);
                Stmt::Do(self.block(n, d - 1))
            }
            5 => {
                let cond = self.expr(2);
                self.loop_depth += 1;
                let n = nb(self);
                let body = self.block(n, d - 1);
                self.loop_depth -= 1;
                Stmt::While { cond, body }
            }
            6 => {
                // the condition is generated while the body's locals are still visible
                self.push();
                self.loop_depth += 1;
                let n = nb(self);
                let mut body = self.block_noscope(n, d - 1);
                self.loop_depth -= 1;
                if matches!(body.stmts.last(), Some(Stmt::Return(_) | Stmt::Break | Stmt::Continue)) {
                    body.stmts.pop();
                }
                let own: Vec<String> = self.scopes.last().unwrap().clone();
                let cond = if !own.is_empty() && self.t.bool(200) {
                    self.stat("repeat_condition_reads_body_local");
                    let a = own[self.t.choose(own.len())].clone();
                    if self.t.bool(128) {
                        nm(&a)
                    } else {
                        let b = self.expr(1);
                        Expr::Binary(BinOp::Or, Box::new(nm(&a)), Box::new(b))
                    }
                } else {
                    self.expr(2)
                };
                self.pop();
                Stmt::Repeat { body, cond }
            }
            7 => {
                let name = self.new_local();
                let ty = self.opt_ty(40);
                // bounds mention the (outer) variable of the same name
                let start = if self.t.bool(100) { nm(&name) } else { self.expr(1) };
                let limit = self.expr(1);
                let step = if self.t.bool(60) { Some(self.expr(1)) } else { None };
                self.push();
                self.declare(&name);
                self.loop_depth += 1;
                let n = nb(self);
                let body = self.block_noscope(n, d - 1);
                self.loop_depth -= 1;
                self.pop();
                self.stat("numeric_for");
                Stmt::NumFor { var: Binding { name, ty }, start, limit, step, body }
            }
            8 => {
                let n = 1 + self.t.weighted(&[3, 5, 1]);
                let mut vars: Vec<Binding> = vec![];
                for _ in 0..n {
                    let mut name = self.new_local();
                    if vars.iter().any(|v| v.name == name) {
                        name = format!("k{}", vars.len());
                    }
                    vars.push(Binding { name, ty: None });
                }
                if self.o.types {
                    for i in 0..vars.len() {
                        if self.t.bool(50) {
                            let own = vars[self.t.choose(vars.len())].name.clone();
                            let ty = if !self.o.no_for_typeof_own_var && self.t.bool(60) {
                                // the annotation mentions a loop variable: it means the OUTER one
                                self.stat("generic_for_typeof_own_variable");
                                Type::Typeof(Box::new(nm(&own)))
                            } else {
                                self.ty(1)
                            };
                            if self.o.no_for_typeof_own_var {
                                let text = crate::luaprint::print_type_plain(&ty);
                                if text.contains("typeof") && vars.iter().any(|v| text.contains(v.name.as_str())) {
                                    continue;
                                }
                            }
                            vars[i].ty = Some(ty);
                        }
                    }
                }
                // iterator expressions mention the (outer) variables of the same names
                let it = match self.t.weighted(&[4, 2, 2]) {
                    0 => {
                        let a = if self.t.bool(100) { vars[0].name.clone() } else { self.use_name() };
                        Expr::Call { f: Box::new(nm("pairs")), args: vec![nm(&a)], sugar: CallSugar::Parens }
                    }
                    1 => nm(&vars[0].name),
                    _ => self.expr(1),
                };
                self.push();
                for v in &vars {
                    self.declare(&v.name);
                }
                self.loop_depth += 1;
                let n = nb(self);
                let body = self.block_noscope(n, d - 1);
                self.loop_depth -= 1;
                self.pop();
                self.stat("generic_for");
                Stmt::GenFor { vars, exprs: vec![it], body }
            }
            9 => {
                let n = 1 + self.t.weighted(&[5, 3]);
                let mut clauses = vec![];
                for _ in 0..n {
                    let c = self.expr(2);
                    let k = nb(self);
                    clauses.push((c, self.block(k, d - 1)));
                }
                let else_ = if self.t.bool(120) {
                    let k = nb(self);
                    Some(self.block(k, d - 1))
                } else {
                    None
                };
                Stmt::If { clauses, else_ }
            }
            10 => {
                let name = self.new_local();
                // visible in its own body
                self.declare(&name);
                let func = self.func_body(d, false, Some(&name));
                self.stat("local_function");
                Stmt::LocalFunction { attrs: vec![], is_const: false, name, func }
            }
            11 => {
                let base = self.use_name();
                let nf = self.t.weighted(&[4, 4, 1]);
                let fields: Vec<String> = (0..nf).map(|_| self.field()).collect();
                let method = if self.t.bool(110) { Some(self.field()) } else { None };
                let is_method = method.is_some();
                if is_method {
                    self.stat("method_definition");
                }
                let func = self.func_body(d, is_method, None);
                Stmt::Function { attrs: vec![], name: FuncName { base, fields, method }, func }
            }
            12 => {
                let n = self.t.weighted(&[2, 5, 2]);
                Stmt::Return((0..n).map(|_| self.expr(2)).collect())
            }
            13 => {
                if luau && self.t.bool(128) {
                    Stmt::Continue
                } else {
                    Stmt::Break
                }
            }
            14 => {
                let target = self.target();
                Stmt::CompoundAssign { target, op: [BinOp::Add, BinOp::Concat, BinOp::Mul][self.t.choose(3)], value: self.expr(2) }
            }
            15 => {
                if self.modules.is_empty() || self.t.bool(100) {
                    // local m = require("./m")
                    let name = if self.t.bool(128) { "m".to_string() } else { self.new_local() };
                    self.declare(&name);
                    self.modules.push(name.clone());
                    self.stat("local_module");
                    let call = Expr::Call { f: Box::new(nm("require")), args: vec![strlit("./m")], sugar: CallSugar::Parens };
                    Stmt::Local { is_const: false, names: vec![Binding { name, ty: None }], values: vec![call] }
                } else {
                    // local v: m.T = m.new(x)
                    let m = self.modules[self.t.choose(self.modules.len())].clone();
                    let name = self.new_local();
                    let ty = if self.t.bool(128) {
                        Type::Qualified { namespace: m.clone(), name: TypeName { name: "T".into(), params: None } }
                    } else {
                        self.ty(2)
                    };
                    let arg = self.expr(1);
                    let value = Expr::Call { f: Box::new(Expr::Field { obj: Box::new(nm(&m)), name: "new".into() }), args: vec![arg], sugar: CallSugar::Parens };
                    self.declare(&name);
                    self.stat("typed_local_with_module_type");
                    Stmt::Local { is_const: false, names: vec![Binding { name, ty: Some(ty) }], values: vec![value] }
                }
            }
            16 => {
                self.stat("type_alias");
                Stmt::TypeDecl { export: self.t.bool(40), name: ["Alias", "T", "a", "m"][self.t.choose(4)].to_string(), generics: None, ty: self.ty(2) }
            }
            _ => {
                // a type function only sees its own parameters and locals: the body mentions
                // nothing else (the names are still drawn from the same small pool)
                self.stat("type_function");
                let np = 1 + self.t.choose(2);
                let mut params: Vec<Binding> = vec![];
                for i in 0..np {
                    let mut n = if self.o.no_type_function { format!("tp{}", i) } else { self.new_local() };
                    if params.iter().any(|p| p.name == n) || (self.o.no_type_function && self.is_visible(&n)) {
                        n = format!("tq{}", i);
                    }
                    params.push(Binding { name: n, ty: None });
                }
                let p0 = params[0].name.clone();
                let pl = params[params.len() - 1].name.clone();
                let mut stmts = vec![];
                if self.t.bool(128) {
                    stmts.push(Stmt::Local { is_const: false, names: vec![Binding::new("r")], values: vec![Expr::MethodCall { obj: Box::new(nm(&p0)), name: "is".into(), types: None, args: vec![strlit("x")], sugar: CallSugar::Parens }] });
                    stmts.push(Stmt::Return(vec![Expr::Binary(BinOp::Or, Box::new(Expr::Binary(BinOp::And, Box::new(nm("r")), Box::new(nm(&p0)))), Box::new(nm(&pl)))]));
                } else {
                    stmts.push(Stmt::Return(vec![nm(&pl)]));
                }
                let func = FuncBody { generics: None, params, vararg: false, vararg_ty: None, ret_ty: None, body: Block::new(stmts) };
                Stmt::TypeFunction { export: false, name: ["tf", "keys", "a"][self.t.choose(3)].to_string(), func }
            }
        }
    }

    pub fn program(&mut self) -> Block {
        let n = 2 + self.t.choose(self.o.max_stmts);
        let d = self.o.max_depth.min(4);
        let mut b = self.block_noscope(n, d);
        // globals named like locals of the file, first used at the very end
        if !matches!(b.stmts.last(), Some(Stmt::Return(_) | Stmt::Break | Stmt::Continue)) && self.t.bool(170) {
            let k = 1 + self.t.choose(3);
            let mut args = vec![];
            for _ in 0..k {
                let n = if self.t.bool(128) && !self.closed.is_empty() { self.closed[self.t.choose(self.closed.len())].clone() } else { GLOBALS[self.t.choose(GLOBALS.len())].to_string() };
                args.push(nm(&n));
            }
            self.stat("late_global_use");
            b.stmts.push(Stmt::Call(Expr::Call { f: Box::new(nm("print")), args, sugar: CallSugar::Parens }));
        }
        b
    }
}

pub fn gen_scoped(t: &mut Tape, o: &ScopeOpts) -> (Block, ScopeGenStats) {
    let mut g = ScopeGen::new(t, o.clone());
    let b = g.program();
    (b, g.stats)
}

// ----------------------------------------------------------------------------------------------
// many locals (text)
// ----------------------------------------------------------------------------------------------

#[derive(Clone, Debug)]
pub struct ManyOpts {
    /// number of simultaneously live locals at the innermost point
    pub total: usize,
    /// most functions hold at most this many locals (Lua's limit is 200)
    pub per_function: usize,
}

impl Default for ManyOpts {
    fn default() -> Self {
        ManyOpts { total: 100, per_function: 190 }
    }
}

/// names darklua would generate early (1-2 characters) and the 2-3 character reserved words'
/// neighbours: used as globals of the file so that generated names must step around them
const SHORT_GLOBALS: [&str; 30] = [
    "a", "b", "z", "A", "Z", "_", "aa", "ab", "a_", "a0", "ba", "dn", "dp", "d_", "ie", "ig", "im", "io", "os", "oq", "zz", "_a", "__", "aaa", "aab", "anc", "ane", "a_a", "Aa", "b9",
];

const MAX_NESTING: usize = 30;

/// `total` locals live at once, spread over nested functions, all of them read at the innermost
/// point; then scopes close and further locals are declared (name reuse); short-named globals
/// are used before, inside and after.
pub fn gen_many_locals(t: &mut Tape, o: &ManyOpts) -> String {
    let mut out = String::new();
    let total = o.total.max(1);
    // 0: nested functions of <= per_function locals; 1: one function holds everything;
    // 2: nested functions AND do-blocks
    let shape = t.weighted(&[6, 2, 3]);
    let per = match shape {
        1 => total,
        _ => {
            let p = [o.per_function, 150, 64, 100][t.choose(4)];
            // nesting stays <= MAX_NESTING functions deep (parser stacks): giant totals put more
            // than 200 locals into each function (text only, never executed)
            p.clamp(1, o.per_function.max(1)).max(total.div_ceil(MAX_NESTING))
        }
    };
    // how locals are named in the source: v<i>, or names that look like generated ones
    let naming = t.weighted(&[5, 3]);
    let name_of = |i: usize| -> String {
        if naming == 0 {
            format!("v{}", i)
        } else {
            // a permutation-ish of short names: base-26 letters with a prefix so that they are
            // never reserved words
            let mut s = String::from("q");
            let mut k = i;
            loop {
                s.push((b'a' + (k % 26) as u8) as char);
                k /= 26;
                if k == 0 {
                    break;
                }
            }
            s
        }
    };
    let n_early = t.choose(4);
    for _ in 0..n_early {
        let g = SHORT_GLOBALS[t.choose(SHORT_GLOBALS.len())];
        out.push_str(&format!("{}.early = {}\n", g, g));
    }
    let decl_style = t.weighted(&[5, 3, 2]);
    let mut depth = 0usize;
    let mut declared = 0usize;
    let mut closers: Vec<&'static str> = vec![];
    let mut fn_count = 0usize;
    while declared < total {
        let chunk = per.min(total - declared);
        if declared > 0 {
            // open a new function (or a do-block) so that the previous locals stay live
            let indent = "  ".repeat(depth);
            if shape == 2 && t.bool(100) {
                out.push_str(&format!("{}do\n", indent));
                closers.push("end");
            } else {
                match t.weighted(&[4, 3, 2]) {
                    0 => {
                        out.push_str(&format!("{}local function fn{}(p{}, ...)\n", indent, fn_count, fn_count));
                        closers.push("end");
                    }
                    1 => {
                        out.push_str(&format!("{}local cb{} = function(p{})\n", indent, fn_count, fn_count));
                        closers.push("end");
                    }
                    _ => {
                        out.push_str(&format!("{}function obj.h{}:m{}(p{})\n", indent, fn_count, fn_count, fn_count));
                        closers.push("end");
                    }
                }
                fn_count += 1;
            }
            depth += 1;
        }
        let indent = "  ".repeat(depth);
        let names: Vec<String> = (declared..declared + chunk).map(name_of).collect();
        match decl_style {
            0 => {
                // local a, b, c = 0, 1, 2   (in groups of <= 40 per statement)
                for g in names.chunks(40) {
                    let vals: Vec<String> = (0..g.len()).map(|i| i.to_string()).collect();
                    out.push_str(&format!("{}local {} = {}\n", indent, g.join(", "), vals.join(", ")));
                }
            }
            1 => {
                for (i, n) in names.iter().enumerate() {
                    out.push_str(&format!("{}local {} = {}\n", indent, n, i));
                }
            }
            _ => {
                // each initialised from the previous one
                for (i, n) in names.iter().enumerate() {
                    if i == 0 {
                        out.push_str(&format!("{}local {} = 0\n", indent, n));
                    } else {
                        out.push_str(&format!("{}local {} = {} + 1\n", indent, n, names[i - 1]));
                    }
                }
            }
        }
        declared += chunk;
        if t.bool(60) {
            let g = SHORT_GLOBALS[t.choose(SHORT_GLOBALS.len())];
            out.push_str(&format!("{}{}({})\n", indent, g, names[0]));
        }
    }
    // innermost point: every local is read
    let indent = "  ".repeat(depth);
    let all: Vec<String> = (0..total).map(name_of).collect();
    for g in all.chunks(50) {
        out.push_str(&format!("{}print({})\n", indent, g.join(", ")));
    }
    // close the scopes one by one; after each, a few fresh locals (they take released names)
    let mut extra = 0usize;
    while let Some(c) = closers.pop() {
        depth -= 1;
        let indent = "  ".repeat(depth);
        out.push_str(&format!("{}{}\n", indent, c));
        let k = t.choose(4);
        for _ in 0..k {
            out.push_str(&format!("{}local w{} = {}\n", indent, extra, name_of(t.choose(per.min(total)))));
            out.push_str(&format!("{}print(w{})\n", indent, extra));
            extra += 1;
        }
    }
    let n_late = 1 + t.choose(5);
    for _ in 0..n_late {
        let g = SHORT_GLOBALS[t.choose(SHORT_GLOBALS.len())];
        out.push_str(&format!("late({}, {}.x)\n", g, g));
    }
    out
}
